#!/venv/bin/python
"""Regenerates /verif/MANIFEST.json from the table below (kept valid against /root/.vp/MANIFEST.schema.json)."""
import json
import os

VERIF = os.path.dirname(os.path.dirname(os.path.abspath(__file__)))
ALL = ['C%02d' % i for i in range(1, 21)]

CHECKS = {
    'C16': dict(
        technique='exhaustive enumeration of the complete constraint-pair x operation x name-class product, set reference model replayed against the implementation',
        text='Model checking by complete enumeration: every ordered pair of namespace constraints of a closed alphabet '
             '(##any, ##other, all subsets of {##local, ##targetNamespace, N1, N2}; in 1.1 also notNamespace subsets x notQName subsets) '
             'x {admits, union (also with the base or the derived wildcard taken from a referenced attribute group), intersection, restriction, overlap; after every composition the operand wildcards and every other user of a shared group are re-checked for aliasing} x every class of a name universe that no constraint of the alphabet '
             'can split, for element and attribute wildcards and both processors. The reference model is Python sets; each case is '
             'replayed through schema construction and is_valid(). The space is finite and is covered completely in both tiers.',
        design_ref='DESIGN.md section 2, C16',
        note='Trusted: mc/ref/wild.py (40 lines of set semantics), the partition argument for the 10 name classes. '
             'Not covered: ##definedSibling, namespaces lists longer than the 4-token pool, processContents interplay.'),
    'C15': dict(
        technique='exhaustive enumeration of content-model trees up to a node/deviation bound; Glushkov position-automaton reference; every model built by the real constructor',
        text='Model checking by bounded exhaustive enumeration: every content-model tree with up to 4 nodes over 8 occurrence '
             'ranges, 5 nodes with <= 3 (5 ranges) / <= 2 (8 ranges) non-default ranges, 6 nodes with <= 1, canonical up to leaf '
             'renaming, plus every single-leaf replacement by an EDC-typed leaf, 4 wildcards, substitution heads and member refs, every pair of same-named leaves with '
             'distinct anonymous / untyped / explicit xs:anyType types, and every ordered pair of leaves replaced by (head of a deep substitution group, its member reached through an abstract '
             'intermediate member), for '
             'both processors. Each model is built by the real schema constructor (lax packed + strict re-check) and the verdict is '
             'compared with an independent position automaton (occurrence ranges unrolled, conflicts only between different particles).',
        design_ref='DESIGN.md section 2, C15',
        note='Trusted: mc/ref/glushkov.py (170 lines), the 9-symbol partition of names for wildcard overlap. Nothing is claimed beyond the '
             'enumerated bound. ~12.9k models on which the library heuristics (models.py distinguishable_paths/check_model) disagree with '
             'UPA are listed per model in known_findings.jsonl.'),
    'C12': dict(
        technique='exhaustive enumeration of the allow x source-kind x mechanism x spelling product; realpath-based reference; audit-hook observation of every open/urllib.Request',
        text='Model checking by complete enumeration of a finite configuration product: 5 allow modes x 7 main-source kinds x 12 reference '
             'mechanisms (include, import with 3 loaders, redefine, override, include->import chain, location hints on element/root, locations= at build time and when a wildcard loads the '
             'namespace during validation, a hint for a namespace owned by the meta-schema, uri_mapper dict/callable) x 25 location spellings incl. double-percent-encoded dot segments, '
             'mem: and urn: schemes the stub opener can resolve (+14 more: all in thorough, a seed-selected quarter in quick) x both processors. '
             'Every file/URL access of the real code is observed with sys.addaudithook and a stub opener and judged by a realpath/commonpath '
             'reference; influence of a denied file is observed through uniquely named elements.',
        design_ref='DESIGN.md section 2, C12',
        note='Trusted: mc/ref/access.py (110 lines), the audit hook seeing every open()/urllib.Request (os.stat probing is not judged). '
             'Symlink-free fixture trees; nesting depth 2; spellings whose reading RFC 3986 leaves open are counted, not judged.'),
    'C13': dict(
        technique='exhaustive enumeration of the defuse-mode x channel x locality x role x payload product; differential against defuse=never; audit-hook observation',
        text='Model checking by complete enumeration of a finite product: 4 defuse modes x 12 input channels (text, bytes, seekable and '
             'non-seekable streams, path, file URL, http through a stub opener passed and installed globally) x 3 base_url localities x 5 roles '
             '(resource, validate, main/included/imported schema; next bound: the schema given as a source to the document-level API) x 25 DTD payloads (entity kinds, external subsets, nesting, 64K/200K prologs, '
             'BOM/UTF-16/ISO-8859-1), plus lazy resources and XSD 1.1 (all in thorough, a seed-selected quarter in quick). Oracle: defusing applies '
             'and the payload declares => forbidden-resource error, no access to any system id, no expansion marker; otherwise same tree as defuse=never.',
        design_ref='DESIGN.md section 2, C13',
        note='Trusted: the reading of when nonlocal/remote apply (stated in the evidence assumptions), the audit hook. One open cell (local file '
             'object without base_url under nonlocal) is counted, not judged. Known finding: root start tag beyond the 64 KiB DefusableReader buffer on '
             'non-seekable streams is refused with XMLResourceOSError.'),
    'C10': dict(
        technique='explicit-state exploration of call histories on one schema object: unmerged history tree to depth 2/3 + merged BFS to fixpoint over object-graph fingerprints',
        text='Model checking by explicit-state search: 143 events (8 public operations x 17 documents built to collide on shared mutable state - xsi:type with blocked / extended / '
             'identity-carrying types, list-typed key fields, substitution, IDs, assertions, attributes and elements of a namespace that is loaded on demand - plus '
             'direct simple-type calls through the per-schema scratch context). Pass A replays EVERY history of length 2 (quick) / 3 (thorough) on a '
             'fresh schema without merging and compares the last result with the fresh-schema result; pass B is a breadth-first search to fixpoint '
             'over states merged by a generic fingerprint of every mutable container reachable from the schema, evaluating the invariant in every state.',
        design_ref='DESIGN.md section 2, C10',
        note='Trusted: result canonicalisation (error multiset, repr of data). The event menu bounds what residue can be observed; histories longer than '
             'the unmerged depth are covered only through the merged search, whose fingerprint leaves out lru-cache fill levels.'),
    'C19': dict(
        technique='exhaustive single-fault injection at every node of every enumerated valid document; independent path walker; reference validator decides fault applicability',
        text='Model checking by complete enumeration: 15 generated schemas (incl. pattern-restricted unions followed by other union-typed values, inheritable attributes, assertions) with ALL their valid instances up to 10 (quick) / 14 (thorough: complete instance sets) '
             'nodes plus 70 valid corpus documents; every fault of a 12-kind catalogue at every node, through 3 source kinds. Each error path is evaluated by '
             'an independent path walker and must select exactly the error element; a damaged document must be invalid with an error on the damaged node or its '
             'parent and none outside its ancestor chain and subtree.',
        design_ref='DESIGN.md section 2, C19',
        note='Trusted: mc/ref/pathwalk.py, the plain-Python reference validator of mc/gen/docs_c19.py (decides whether an edit is a fault), libxml2 for corpus '
             'applicability. Lazy resources are explored and counted, not judged. Known findings: no-namespace child under a default namespace gets an unresolvable path; '
             'text accepted in a single-xs:any content model.'),
    'C14': dict(
        technique='exhaustive enumeration of base models x single edits; exact language inclusion on the product of reference DFAs; witness replayed on the implementation',
        text='Model checking by bounded exhaustive enumeration: every base content model with 2 nodes (8 ranges), 3 nodes (<= 2 non-default ranges, + one '
             'wildcard leaf) and 4 nodes (<= 1) x EVERY single edit of a catalogue (occurrence moved to any of 8 ranges, drop/add/rename particle, keep one '
             'choice branch (also with another range), element<->wildcard, wildcard->wildcard incl. notNamespace, leaf->group, wrap/unwrap, swap, switch group kind) declared as a complexContent '
             'restriction, for both processors; the same pairs (2 and 3 nodes, no wildcard edits) declared through xs:redefine in four forms (complex type, named group, and the two-step '
             'chains a.xsd -> b.xsd -> c.xsd whose middle step carries the edit); 60 sequence(element, choice(element | wildcard)) bases; facet pairs (integer / string / decimal: every base '
             'facet set of size 1 (thorough 2) x every derived set of size <= 2 x a boundary value catalogue); plus '
             'the complete product of 7 base x 8 derived attribute uses x types x attribute wildcards x 18 attribute sets. When the library accepts the '
             'schema, inclusion L(R) <= L(B) is decided exactly on the product automaton (unbounded word length) and a shortest counter-word is replayed: '
             'a violation needs the implementation itself to accept it for the derived type and reject it for the base type.',
        design_ref='DESIGN.md section 2, C14',
        note='Trusted: mc/ref/regex.py (Thompson NFA + subset construction), mc/gen/edits.py. '
             'The converse (valid restriction refused) is not claimed. The accepted-but-widening restrictions are listed per (base, derived, witness) in known_findings.jsonl.'),
    'C18': dict(
        technique='stateless exploration of every thread schedule up to a preemption bound (iterative context bounding) on real threads under a controlled scheduler',
        text='Model checking of the implementation: 2 real threads (3 in the thorough harness H7) share one schema object; a hand-written scheduler serialises them '
             'with a baton and owns every scheduling decision (sys.settrace call events + cooperative replacements of the library locks). Every schedule with '
             '<= 1 preemption at ANY xmlschema function call (layer A) and <= 2 preemptions at the shared-state interface '
             '(caches, cached properties, build, staged maps, scratch context, identity widening, lock operations) is executed on a fresh schema; each thread result '
             'must equal the single-threaded result, a build race must build every global exactly once, deadlock and divergence are detected. Harnesses: build race, '
             'xsi:type on identity-carrying elements (first two uses of a retyped element raced), scratch-context users, assertion facets (1.1), the selector cache at line granularity, first use of caches/XPath, decode||encode, shared lazy resource.',
        design_ref='DESIGN.md section 2, C18',
        note='Trusted: mc/explore/threadsched.py. Not modelled: preemption inside C code or between bytecodes of one function without a call; free-threaded builds. '
             'A recorded schedule is replayed twice and must give identical observations before it is reported.'),
    'C02': dict(
        technique='exhaustive enumeration of all strings up to a length bound over per-type alphabets + boundary catalogue + facet sets; derivative-automaton / value-space reference replayed on three channels',
        text='Model checking by bounded exhaustive enumeration: for every built-in atomic type of XSD 1.0 and 1.1 ALL strings of length <= 4 over a per-type '
             'alphabet (length 5: seed slice in quick, all in thorough), a boundary catalogue with all edit-distance-1 neighbours, every facet set of size <= 2 (3) '
             'over one and two derivation levels, lists and unions, and the decode options. Each text is judged by an independent reference (lexical regexes run as '
             'Brzozowski-derivative automata, own value-space arithmetic) and replayed through an element, an attribute and the type itself: verdict, decoded value, '
             'decode(encode(decode(t))) == decode(t), and no foreign exception.',
        design_ref='DESIGN.md section 2, C02',
        note='Trusted: mc/ref/datatypes.py (950 lines, no xmlschema/elementpath code). Open cases (1.0 anyURI, years beyond 4 digits, durations beyond the minimum '
             'range, type-level QName encode) are counted, not judged. Known findings: timezone partial order in bounds/enumerations, 24:00:00 at a year end, list '
             'enumeration decode, True == 1 in union enumeration, residual Unicode stripping inside elementpath.'),
    'C09': dict(
        technique='exhaustive enumeration of arrangements (all permutations, all 2-/3-way include partitions, location spellings, import orders, stored forms) with a metamorphic oracle',
        text='Model checking by complete enumeration of rewrites: 12 generated schemas (4-6 globals wired with every kind of forward reference) and the 125 '
             'buildable corpus schemas; ALL permutations of the globals (n <= 5; n = 6: transpositions + reversal + seed slice in quick, all 720 in thorough), '
             'ALL 2^n two-way and 3^n three-way splits into include files, 8 location spellings in every pair plus diamond includes, import-order permutations, '
             'rebuild, pickle, copy of the maps. Each arrangement must give the same global components (names and a public-API summary of each) and the same '
             'verdict, error multiset and decoded data on generated probe instances as the original arrangement; the order of _build_global calls is recorded as the state.',
        design_ref='DESIGN.md section 2, C09',
        note='Trusted: the probe generator and component summary of mc/checks/c09.py. A bare schema.copy() is explored, not judged. Known finding: XSD 1.1 circular '
             'attribute groups get order-dependent attribute sets (44 arrangements of one schema).'),
    'C03': dict(
        technique='exhaustive enumeration of attribute declaration vectors x wildcards x every subset of a name pool x value deviations; set/dict reference model',
        text='Model checking by bounded exhaustive enumeration: declaration vectors over 6 declarable items (local/qualified/ref to target, foreign and xml: '
             'globals; use x default/fixed x direct/attributeGroup x type) with 1 item complete, 2-3 items up to a deviation bound, x 22 attribute wildcards '
             '(7 namespace constraints x skip/lax/strict + none), the product attributeFormDefault {absent, qualified, unqualified} x form {absent, qualified, unqualified}, x EVERY subset of a 7-name pool (+ xsi:nil, an undeclared foreign name) x single value '
             'deviations, x use_defaults x fill_missing, both processors. The statement is transcribed with Python sets/dicts (mc/ref/attrs.py); verdict, decoded keys '
             'and decoded values are compared.',
        design_ref='DESIGN.md section 2, C03',
        note='Trusted: mc/ref/attrs.py + the set semantics of mc/ref/wild.py. Counted, not judged: unknown xsi:* attributes under a wildcard that excludes the xsi namespace, '
             'prohibited names admitted by a wildcard, attributes the statement is silent about in decoded data.'),
    'C07': dict(
        technique='exhaustive enumeration of type graphs x flag vectors (deviation-bounded) x instance variants; spec-transcribed derivation/substitution/nil/alternative reference',
        text='Model checking by bounded exhaustive enumeration: every type tree with the declared type plus <= 2 (quick) / <= 3 (thorough) named types, every edge '
             'extension|restriction, three content kinds, flag vectors with <= 2 (3) deviations over abstract / block / blockDefault / nillable / fixed / substitution groups '
             '(two levels) / XSD 1.1 alternatives, and per schema 100-400 instance variants (xsi:type in every type + unknown + unbound prefix, xsi:nil in 5 spellings, '
             'content variants, element name in head/members). The verdict is compared with cos-ct-derived-ok / cos-st-derived-ok / cvc-elt transcribed in mc/ref/derivation.py.',
        design_ref='DESIGN.md section 2, C07',
        note='Trusted: mc/ref/derivation.py. Contested readings (block on intermediate types, head block applied to a member\'s xsi:type, nilled xs:error alternative) are counted, not judged.'),
    'C08': dict(
        technique='exhaustive enumeration of all small field-tuple tables per constraint template x value alphabets with lexical variants x scopes; dict-based node-table reference',
        text='Model checking by bounded exhaustive enumeration: templates unique / key / key+keyref x 6 field layouts x 11 value alphabets (two lexical forms of one value, '
             'a different value, absent) x scopes (root, wrapper, sibling scopes, scope nested in itself, keyref one level above its key, constraints reused by ref in 1.1, '
             'the XSD 1.1 xpathDefaultNamespace product of 7 schema settings x 6 selector/field settings x 3 prefix styles, QName fields whose namespace declarations sit on the field element, '
             'rows that exist only through xsi:type under child / descendant / own-element selectors) x ALL tables up to 3 (quick) / 4 '
             '(thorough) rows in all row orders, plus every ID/IDREF/IDREFS table over 6 carrier layouts, both processors. The five rejection conditions of the statement are '
             'evaluated on plain dict node tables keyed by value-space tuples and compared with is_valid().',
        design_ref='DESIGN.md section 2, C08',
        note='Trusted: mc/ref/identity.py. Cases whose verdict depends on how key tables propagate to ancestors are counted, not judged. Known findings: scope element '
             'nested in itself (counter reset), keyref declared above the scope element of its key, KeyError when the key scope element never occurs.'),
    'C17': dict(
        technique='explicit-state exploration of the namespace mapper as a state machine (BFS with state hashing) + exhaustive enumeration of small redeclaring documents; list-of-dicts scope-stack reference',
        text='Model checking: (a) the NamespaceMapper is driven exactly as the decoders drive it through ALL pre-order walks of trees of depth <= 3 (thorough 4), fan-out <= 2, '
             '9 xmlns choices per node, 4 processing modes x 3 user maps; states (walk position, namespaces, reverse map, context stack) are hashed and counted, and after every '
             'event the in-scope map equals a list-of-dicts reference and unmap(map(n)) == n for a name pool; (m) the mapper as a mutable mapping explored to a fixpoint against a '
             'plain dict; (b) every document of 13 shapes (<= 7 elements) with <= 2 (thorough 3) declaring/prefixed deviations x modes x 4 converters x user maps: each decoded key, '
             'resolved with the xmlns entries the data reports on the node and its ancestors, must denote the expanded name of the XML node, and encode(decode(d)) must restore the names.',
        design_ref='DESIGN.md section 2, C17',
        note='Trusted: mc/ref/nsstack.py. Single-map modes that cannot denote a no-namespace element under a default namespace and unprefixed-attribute keys under a default namespace are '
             'counted, not judged. Known findings: level-1 declarations loaded as root declarations on encode, unprefixed attributes / no-namespace children admitted by wildcards '
             'encoded into the default namespace.'),
    'C06': dict(
        technique='exhaustive enumeration of small trees x fault placements x flavours x lazy depth x thin mode; differential against the eager run on the same schema object',
        text='Model checking by bounded exhaustive enumeration: every ordered tree with height <= 3 (thorough 4), fan-out <= 3 and a node bound over a recursive schema in five '
             'flavours (no identity constraints, ID/IDREF across chunks, root key, nested key+keyref, namespace redeclarations at every level), each node valid or carrying one fault '
             '(<= 2 per document), plus 90 corpus documents; lazy depth 1 is judged (the claimed depth), depths 2-3 and thin/non-thin are run under the same oracle and counted. Verdict, '
             'error sequence (type, reason, path), decoded data (small documents and corpus) and the resource iteration stream (tag, text, attributes, in-scope namespaces; iter, iter_depth, '
             'iterfind, get_namespaces, get_nsmap) are compared with the fully loaded run.',
        design_ref='DESIGN.md section 2, C06',
        note='Trusted: the stream reference of mc/gen/docs_c06.py. lazy iter() order is compared as a multiset (the suite asserts it differs). Known findings: lazy validation validates the '
             'root last (error order), duplicate ID blamed on the root, lazy decode second pass loses chunk xmlns / identity checks above the chunk, to_objects(lazy) AssertionError.'),
    'C20': dict(
        technique='exhaustive enumeration of every element path form of every valid instance of small schemas; governing declaration observed through extra_validator; partial vs whole-document differential',
        text='Model checking by bounded exhaustive enumeration: generated schemas (same local name with different types under different parents, refs, substitution members, named types, '
             'nesting, choice, attributes, identity, unqualified locals; with and without target namespace, one also written in a schema document that binds a default namespace) and 3 corpus schemas; ALL valid instances up to 11 (thorough 15 = complete) '
             'elements and single-fault variants; for EVERY element every path form (own path with/without predicates, absolute/relative, * steps, //name, three prefix spellings) through '
             'find/findall/iterfind/get_element, and iter_errors/is_valid/decode with path= and max_depth in {0,1,2,3,None}. The governing declaration recorded during a full validation must be '
             'what the schema path finds; path-restricted results must equal the restriction of the whole-document result; max_depth=k must equal the full result cut at k.',
        design_ref='DESIGN.md section 2, C20',
        note='Trusted: mc/gen/docs_c20.py reference instance tree and path walker. Known findings: a path that denotes several declarations is resolved once by name (//v, /root/*/v); '
             'children of a complex substitution-group member are not reachable by path.'),
    'C11': dict(
        technique='exhaustive single-fault / truncation / byte-substitution injection at every position of every seed document; limit sweeps across each limit in subprocesses',
        text='Model checking by bounded exhaustive fault enumeration: 12 seed documents + 81 corpus files <= 2 kB; EVERY fault of a 40-entry catalogue at every element/attribute/text '
             'position (pairs: seed slice in quick, all in thorough), EVERY truncation prefix, EVERY single-byte substitution from 6 bytes at every offset; a 72-case matrix of element wildcards with an '
             'empty namespace set as expected particles; single-line bytes sources with BOMs / declared encodings (incl. unknown and multi-byte ones) and their prefixes; every collected error is rendered (str, repr, reason, path); 18 calls per document (eager/lazy '
             'resource construction, is_valid/iter_errors/lax decode/strict decode x both processors x eager/lazy). Outcome must be a normal return or a library exception; lax calls may raise '
             'only the XMLResourceError family and only when expat says the input is not well-formed. Limit sweeps: MAX_XML_DEPTH in {default,50,10,2,1} and MAX_XML_ELEMENTS in {default,100,2,1} '
             'at limit-1/limit/limit+1 (every size for the small limits), eager and lazy, each setting in its own process.',
        design_ref='DESIGN.md section 2, C11',
        note='Trusted: stdlib expat as the well-formedness oracle. Known findings: RecursionError below the default depth limit (validation recurses 2-3 frames per level), KeyError from a '
             'keyref whose key scope element never occurs.'),
    'C04': dict(
        technique='exhaustive product of fault-class documents x entry points x validation modes x source kinds; pairwise agreement oracle; console script in subprocesses',
        text='Model checking by complete enumeration of a finite product: 606 (document, version) pairs over 20 schemas (minimal valid and invalid document of every fault class of the sibling properties, '
             'omitted attributes whose default / fixed value is an IDREF, a prefixed QName or (1.1) an ID, '
             'documents with exactly k errors for k in {0,1,2,255,256,257,511,512}) x schema methods, package functions (schema object / path / URL / location hints), XsdElement methods, '
             'XmlDocument, and the xmlschema-validate console entry x strict/lax/skip x 11 (thorough 19) source kinds. One verdict per document (known by construction); is_valid, iter_errors, '
             'validate, strict and lax decode and the exit status must agree; the strict exception must be the first lax error; decoded data must not depend on mode or source.',
        design_ref='DESIGN.md section 2, C04',
        note='Trusted: the by-construction verdicts of mc/gen/docs_c04.py (cross-checked once against iter_errors). Known findings: union types (strict raises a different error than the first lax one), '
             'lazy resources ignore the parent xsi:type for children at the lazy depth.'),
    'C01': dict(
        technique='exhaustive enumeration of deterministic content-model trees x all child sequences up to a length bound; regular-language reference (Thompson NFA / DFA) replayed through iter_errors',
        text='Model checking by bounded exhaustive enumeration: every content-model tree with <= 3 nodes over 8 occurrence ranges, 4 nodes (5 ranges; <= 2 non-default complete in quick, all in '
             'thorough), 5 nodes with <= 1 non-default (8 ranges), that the Glushkov reference finds deterministic and the library accepts; leaf variants (global refs, substitution heads incl. '
             'an abstract head and a member reached only through an abstract intermediate member, 4 lax wildcards), named-group references, all-groups (1.0 and 1.1 with occurrence ranges and wildcards) and XSD 1.1 open content (interleave/suffix x 3 wildcards); for each '
             'model EVERY child sequence over its own symbols plus an undeclared name up to a per-model length bound. Validity must equal membership in the regular language and a rejected '
             'sequence must carry an error on the parent element.',
        design_ref='DESIGN.md section 2, C01',
        note='Trusted: mc/ref/regex.py and mc/ref/glushkov.py. Open content is judged only where the existential and the model-first reading agree. Known findings are listed per (model, wrong words).'),
    'C05': dict(
        technique='exhaustive enumeration of every content-model word x value deviations x converters x options; every single (and pair) mutation of decoded data for encoder soundness',
        text='Model checking by bounded exhaustive enumeration: 29 schema templates (nesting, attributes, simple content, 5 mixed-content variants, lists incl. empty, two namespaces, '
             'contiguous and non-contiguous repeats, nillable, choice, all); valid instances = EVERY word of length <= 4 of each content model (from the reference DFA) x a 3-value '
             'catalogue per type with <= 2 value deviations; converters JsonML and DataElement judged everywhere, default/BadgerFish/GData on models whose same-named children are '
             'contiguous (decided on the reference automaton), the lossy ones explored and counted; converter options with a joint deviation bound. encode(decode(d)) must be valid, '
             'structurally equal in value space and decode to the same data. Encoder soundness: EVERY single mutation (drop, duplicate, swap, retype, rename; pairs in thorough) of every '
             'decoded datum must either raise a validation error or yield XML the schema accepts.',
        design_ref='DESIGN.md section 2, C05',
        note='Trusted: mc/ref/regex.py (instance enumeration and contiguity), the plain-Python value readers of mc/gen/docs_c05.py. Known findings: text after repeated same-named children under a '
             'repeated choice re-encoded elsewhere; malformed data shapes raising KeyError/IndexError/AttributeError/TypeError instead of a validation error; text encoded into empty content.'),
}

READY = {'C01', 'C02', 'C03', 'C04', 'C05', 'C06', 'C11', 'C20', 'C07', 'C08', 'C09', 'C10', 'C12', 'C13', 'C14', 'C15', 'C16', 'C17', 'C18', 'C19'}   # set of property ids to register; None = all of CHECKS

PENDING_REASON = 'check not built yet in this session; the design (DESIGN.md section 2) applies bounded exhaustive exploration to it'


def main():
    checks = []
    for pid in ALL:
        if pid not in CHECKS or (READY is not None and pid not in READY):
            continue
        c = CHECKS[pid]
        checks.append({
            'property_id': pid,
            'quick_cmd': './check %s --tier quick' % pid,
            'thorough_cmd': './check %s --tier thorough' % pid,
            'evidence_file': '/verif/evidence/%s.json' % pid,
            'replay_cmd_template': './check %s --replay {path}' % pid,
            'engine': c.get('engine', 'mc-runner'),
            'level_claimed': {'category': 'model_checking', 'text': c['text'], 'design_ref': c['design_ref']},
            'level_note': c['note'],
            'technique': c['technique'],
        })
    na = [{'property_id': p, 'reason': NA.get(p, PENDING_REASON)} for p in ALL if p not in CHECKS or (READY is not None and p not in READY)]
    man = {
        'version': 1,
        'setup_cmd': 'cd /verif && chmod +x check && ./check --help > /dev/null',
        'hooks': {
            'guard': 'XMLSCHEMA_VERIF',
            'enable': 'none needed: checks import xmlschema from /repo (PYTHONPATH=/repo) and instrument it from the harness '
                      '(monkey-patched locks, sys.settrace, sys.addaudithook, stub opener, extra_validator); ./check exports XMLSCHEMA_VERIF=1',
            'baseline_off_cmd': 'cd /repo && /venv/bin/python -m pytest -ra -q -p no:cacheprovider --timeout=900 --continue-on-collection-errors',
            'source_commits': [],
            'add_only': True,
        },
        'engines': [
            {'name': 'mc-runner', 'path': '/verif/mc/core/runner.py', 'serves_properties': sorted(CHECKS),
             'kind_free_text': 'sharded exhaustive enumerator: reference-model traces replayed against the implementation, '
                               'known-findings matcher, fresh-interpreter confirmation, replay files'},
        ],
        'checks': checks,
        'not_applicable': na,
        'notes': 'Every check is bounded exhaustive exploration of the real code (see DESIGN.md). Known findings: /verif/known_findings.jsonl.',
    }
    with open(os.path.join(VERIF, 'MANIFEST.json'), 'w') as f:
        json.dump(man, f, indent=1)
    print('checks:', [c['property_id'] for c in checks], 'not claimed:', len(na))


NA = {}

if __name__ == '__main__':
    main()
