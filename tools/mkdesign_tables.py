#!/venv/bin/python
"""Regenerates the generated tables of DESIGN.md section 9 (repairs, seeded changes, known-finding counts)
from git log of /repo, known_findings.jsonl and seeded/*/meta.json."""
import collections
import glob
import json
import os
import re
import subprocess

D = '/verif/DESIGN.md'
BASE = '9231ee1'


def between(text, tag, new):
    a, b = '<!-- %s -->' % tag, '<!-- /%s -->' % tag
    if a not in text:
        return text
    i, j = text.index(a) + len(a), text.index(b)
    return text[:i] + '\n' + new + '\n' + text[j:]


def main():
    d = open(D).read()
    fx = {}
    counts = collections.Counter()
    for line in open('/verif/known_findings.jsonl'):
        if line.startswith('fixed:'):
            m = re.match(r'fixed: property=(C\d+) (\w+) (.*)', line.strip())
            fx[m.group(2)] = (m.group(1), m.group(3))
        elif line.strip():
            counts[json.loads(line)['property']] += 1
    log = subprocess.check_output(['git', '-C', '/repo', 'log', '--reverse', '--format=%h|%s', BASE + '..HEAD']).decode().strip().split('\n')
    tab = '| property | commit | repair | failing input before the repair |\n|---|---|---|---|\n'
    for line in log:
        h, s = line.split('|', 1)
        p, w = fx.get(h, ('?', 'MISSING fixed: line'))
        tab += '| %s | %s | %s | %s |\n' % (p, h, s[5:].replace('|', '\\|'), w.replace('|', '\\|')[:300])
    d = between(d, 'FIXTABLE', tab)
    st = '| seeded change | property | what it breaks | what it needs to manifest | result |\n|---|---|---|---|---|\n'
    for mf in sorted(glob.glob('/verif/seeded/*/meta.json')):
        m = json.load(open(mf))
        name = os.path.basename(os.path.dirname(mf))
        st += '| %s | %s | %s | %s | %s |\n' % (name, m['property'], m['breaks'].replace('|', '\\|'), m['needs_to_manifest'].replace('|', '\\|'),
                                            str(m.get('detected')).replace('|', '\\|'))
    d = between(d, 'SEEDTABLE', st)
    ct = '| property | known findings listed |\n|---|---|\n' + ''.join('| %s | %d |\n' % kv for kv in sorted(counts.items()))
    d = between(d, 'FINDINGCOUNTS', ct)
    man = json.load(open('/verif/MANIFEST.json'))
    bt = '| property | deciding technique (as registered) | what is enumerated and judged |\n|---|---|---|\n'
    for c in man['checks']:
        bt += '| %s | %s | %s |\n' % (c['property_id'], c.get('technique', '').replace('|', '\\|'),
                                     c['level_claimed']['text'].replace('|', '\\|'))
    d = between(d, 'BUILTTABLE', bt)
    open(D, 'w').write(d)
    print('repairs', len(log), 'seeds', len(glob.glob('/verif/seeded/*/meta.json')), 'findings', sum(counts.values()))


if __name__ == '__main__':
    main()
