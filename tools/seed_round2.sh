#!/bin/bash
# usage: seed_round2.sh <ID> ...   - confirms round-2 seeds of /tmp/wt/seed2_<ID> as <ID>-3/<ID>-4 (C04: -4/-5) and tests them
cd /verif
for ID in "$@"; do
  off=2; [ $ID = C04 ] && off=3
  for n in 1 2; do
    NAME=$ID-$((n+off))
    r=$(tools/confirm_seed.sh $ID $n /tmp/wt/seed2_$ID $NAME 2>&1 | tail -2 | tr '\n' ' ')
    echo "== $NAME $r" >> /var/tmp/seedresults_r2.txt
    if echo "$r" | grep -q " CONFIRMED"; then
      VERIF_PROCS=${VERIF_PROCS:-6} VERIF_NO_CONFIRM=1 VERIF_BUDGET_S=20000 tools/try_seed.sh $ID /verif/seeded/$NAME/patch.diff 2>&1 | head -4 | cut -c1-400 >> /var/tmp/seedresults_r2.txt
    fi
  done
done
echo "DONE $@" >> /var/tmp/seedresults_r2.txt
