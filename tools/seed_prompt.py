#!/venv/bin/python
"""Prints the prompt for a seeded-change sub-agent: only the property text and its scratch worktree."""
import json
import sys

pid, wt = sys.argv[1], sys.argv[2]
for line in open('/verif/properties.jsonl'):
    p = json.loads(line)
    if p['id'] == pid:
        break
print('''You are a software engineer testing how well a library's semantic properties are protected. You work ONLY inside your own scratch git worktree of the Python library sissaschool/xmlschema at %(wt)s (run everything with /venv/bin/python; import the library from the worktree: `cd %(wt)s && PYTHONPATH=%(wt)s /venv/bin/python ...`). Do not read or write anything under /verif or /repo, and do not look for verification tooling anywhere on the machine: your work must be independent of it. Other people share the machine, so use at most 4 processes.

THE PROPERTY (of the library's observable behaviour):
  Title: %(title)s
  Statement: %(statement)s
  Quantified over: %(quant)s

YOUR TASK: produce TWO different, realistic changes to the library source (each a small patch, 1-10 changed lines, at DIFFERENT sites/mechanisms, the kind of slip or "simplification" a maintainer could plausibly commit) such that, for each change taken alone:
  1. the library still imports and the repository's own test suite still passes exactly as before the change:
       cd %(wt)s && PYTHONPATH=%(wt)s /venv/bin/python -m pytest -q -p no:cacheprovider -n 4 --deselect tests/test_locations.py::TestLocations::test_is_unc_path_function --deselect tests/test_locations.py::TestLocations::test_normalize_url_slashes
     (expected on the unchanged tree: 1528 passed, 12 skipped; the two deselected tests fail already without any change);
  2. the property above is broken: write a small standalone demonstration script (only `import xmlschema` and the standard library, no network) that exits 0 / prints PASS on the unchanged worktree and exits 1 / prints FAIL with the change applied;
  3. the breakage needs something SPECIFIC to manifest - a particular interleaving, a multi-step sequence of operations, an unusual but legal input shape, a particular configuration, or two cooperating sites that each look fine alone - not something ordinary use would expose at once (if nearly every use of the library fails, the suite would catch it anyway).
Read the relevant source first, find code the property depends on that the tests exercise weakly, and prefer subtle semantic changes (a boundary, a condition, an order of operations, a cache key, a forgotten reset, a widened/narrowed comparison) over crude deletions.

DELIVERABLES, in %(wt)s/_seed/ : change1.diff and change2.diff (each produced with `git -C %(wt)s diff > ...` with ONLY that change applied to a clean worktree: use `git -C %(wt)s checkout -- .` between them), demo1.py and demo2.py, and notes.md saying for each change: what it breaks, what it needs in order to manifest, the exact commands you ran and their results (suite result with the change; demo result without and with the change). Leave the worktree itself clean (no change applied) at the end. Your final message must summarise the two changes, the suite results and the demo results.''' % {
    'wt': wt, 'title': p['title'], 'statement': p['statement'], 'quant': p['quantifier']['text']})
