"""Writes /verif/seeded/<NAME>/meta.json from the confirmation line, the check's result and the seed agent's notes.md."""
import json
import re
import sys

name, confirm, result = sys.argv[1:4]
d = '/verif/seeded/%s/' % name
pid = name.split('-')[0]
try:
    notes = open(d + 'notes.md').read()
except OSError:
    notes = ''
n = int(name.split('-')[1])
which = 1 if n % 2 == 1 else 2
if pid == 'C04' and n >= 4:
    which = 1 if n % 2 == 0 else 2
# the agent's notes describe change 1 and change 2 under separate headings
parts = re.split(r'(?im)^#+\s*(?:change|patch|seed)\s*([12])\b.*$', notes)
text = notes
for i in range(1, len(parts) - 1, 2):
    if parts[i] == str(which):
        text = parts[i + 1]
text = ' '.join(text.split())
rc = re.search(r'rc=(\d+)', result)
detected = 'PENDING'
if rc:
    detected = ('yes: %s quick exits 1 (%s)' % (pid, result.split('\n')[0][:160])) if rc.group(1) == '1' else \
        'MISSED (%s)' % result.split('\n')[0][:160]
json.dump({
    'property': pid,
    'breaks': text[:700],
    'needs_to_manifest': 'see notes.md (written by the agent that produced the change)',
    'confirmed': confirm.strip(),
    'check_run': 'tools/try_seed.sh %s /verif/seeded/%s/patch.diff' % (pid, name),
    'detected': detected,
}, open(d + 'meta.json', 'w'), indent=1)
