#!/venv/bin/python
"""Developer tool (never run by a check): after a human triage of a --dump file, append its
not-yet-known discrepancies to known_findings.jsonl.  usage: accept_findings.py DUMP [substring-filter] [--replace=CNN]"""
import json
import sys

FILE = '/verif/known_findings.jsonl'
args = [a for a in sys.argv[1:] if not a.startswith('--replace=')]
replace = [a.split('=', 1)[1] for a in sys.argv[1:] if a.startswith('--replace=')]   # drop the old entries of these properties first
dump = args[0]
flt = args[1] if len(args) > 1 else ''
head, recs = [], {}
for line in open(FILE, encoding='utf-8'):
    line = line.rstrip('\n')
    if not line:
        continue
    if line.startswith('fixed:'):
        head.append(line)
    else:
        r = json.loads(line)
        if r['property'] in replace:
            continue
        recs[(r['property'], r['key'])] = r
n = 0
for line in open(dump, encoding='utf-8'):
    r = json.loads(line)
    if flt and flt not in r['key']:
        continue
    k = (r['property'], r['key'])
    if k not in recs:
        recs[k] = {'property': r['property'], 'key': r['key'], 'what': r['what']}
        n += 1
with open(FILE, 'w', encoding='utf-8') as f:
    for line in head:
        f.write(line + '\n')
    for k in sorted(recs):
        f.write(json.dumps(recs[k], ensure_ascii=True, sort_keys=True) + '\n')
print('added', n, 'total', len(recs))
