#!/bin/bash
# usage: confirm_seed.sh <ID> <n>  - confirms seed n of /tmp/wt/seed_<ID> (suite passes with the change, demo fails with / passes without) and stores it under /verif/seeded/
ID=$1; N=$2; WT=${3:-/tmp/wt/seed_$ID}; NAME=${4:-$ID-$N}
cd $WT || exit 9
git checkout -q -- . ; git apply --check _seed/change$N.diff || { echo "does not apply"; exit 9; }
PYTHONPATH=$WT timeout 600 /venv/bin/python _seed/demo$N.py > /tmp/wt/demo_clean.out 2>&1; clean=$?
git apply _seed/change$N.diff
suite=$(PYTHONPATH=$WT /venv/bin/python -m pytest -q -p no:cacheprovider -n 6 --deselect tests/test_locations.py::TestLocations::test_is_unc_path_function --deselect tests/test_locations.py::TestLocations::test_normalize_url_slashes 2>&1 | tail -1)
PYTHONPATH=$WT timeout 600 /venv/bin/python _seed/demo$N.py > /tmp/wt/demo_mut.out 2>&1; mut=$?
git checkout -q -- .
echo "$NAME: demo clean rc=$clean, demo with change rc=$mut, suite with change: $suite"
if [ $clean -eq 0 ] && [ $mut -ne 0 ] && echo "$suite" | grep -q "1528 passed" && ! echo "$suite" | grep -q failed; then
  D=/verif/seeded/$NAME; mkdir -p $D
  cp _seed/change$N.diff $D/patch.diff; cp _seed/demo$N.py $D/demo.py
  cp _seed/notes.md $D/notes.md 2>/dev/null
  echo CONFIRMED
else
  echo NOT-CONFIRMED
fi
