#!/bin/bash
# usage: try_seed.sh <ID> <diff> [tier]   - applies a seeded change to a scratch copy of /repo and runs the check against it
ID=$1; DIFF=$2; TIER=${3:-quick}
W=/var/tmp/seedrepo_$$
rsync -a --exclude .git /repo/ $W/ || exit 9
(cd $W && patch -p1 -s < $DIFF) || { echo "PATCH FAILED"; rm -rf $W; exit 9; }
cd /verif
cp evidence/$ID.json /var/tmp/evidence_$ID.$$.bak 2>/dev/null
VERIF_REPO=$W VERIF_NO_CONFIRM=${VERIF_NO_CONFIRM:-} ./check $ID --tier $TIER > /var/tmp/seed_$ID.$$.out 2>&1
rc=$?
echo "rc=$rc $(grep -c '^VIOLATION' /var/tmp/seed_$ID.$$.out) violations; $(tail -1 /var/tmp/seed_$ID.$$.out | cut -c1-200)"
grep -A2 '^VIOLATION' /var/tmp/seed_$ID.$$.out | head -6 | cut -c1-300
rm -rf $W
[ -f /var/tmp/evidence_$ID.$$.bak ] && mv /var/tmp/evidence_$ID.$$.bak evidence/$ID.json   # the evidence file must describe the unchanged tree
exit $rc
