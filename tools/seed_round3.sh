#!/bin/bash
# usage: seed_round3.sh <ID> ...   - confirms round-3 seeds of /tmp/wt/seed3_<ID> as <ID>-5/<ID>-6 (C04: -6/-7), writes meta.json, tests them
cd /verif
for ID in "$@"; do
  off=4; [ $ID = C04 ] && off=5
  for n in 1 2; do
    NAME=$ID-$((n+off))
    r=$(tools/confirm_seed.sh $ID $n /tmp/wt/seed3_$ID $NAME 2>&1 | tail -2 | tr '\n' ' ')
    echo "== $NAME $r" >> /var/tmp/seedresults_r3.txt
    if echo "$r" | grep -q " CONFIRMED"; then
      out=$(VERIF_PROCS=${VERIF_PROCS:-6} VERIF_NO_CONFIRM=1 VERIF_BUDGET_S=20000 tools/try_seed.sh $ID /verif/seeded/$NAME/patch.diff 2>&1 | head -4 | cut -c1-400)
      echo "$out" >> /var/tmp/seedresults_r3.txt
      /venv/bin/python tools/mkmeta.py $NAME "$r" "$out"
    fi
  done
done
echo "DONE $@" >> /var/tmp/seedresults_r3.txt
