"""C11 limit sweeps, run as a subprocess:  python procexec_c11.py '<json config>'

xmlschema.limits is module-level state and deep documents may exhaust the Python stack, so every limit setting
is exercised in a process of its own.  The process sets the limits through the public module `xmlschema.limits`,
builds the documents, calls the public API and prints one JSON line per call; the parent applies the oracle.

config: {"depth": int|null, "elements": int|null, "shape": "chain"|"flat"|"chain-any"|"groups-prefix"|"groups-default",
         "sizes": [n, ...], "modes": ["eager","lazy"], "apis": [...], "versions": ["1.0","1.1"]}
     or {"setter": [values...]}   only exercise the limit setters
     or {"gcphase": K}            every phase 0..K-1 of the cyclic collector between a failed lazy parse and the
                                  lazy validation of a valid document (the collector's phase is shifted by
                                  allocating k empty lists; K = 2 x the generation-0 threshold covers all phases)
"""
import json
import sys

RECURSION_LIMIT = 1000          # the CPython default; fixed so that results do not depend on the caller

H = '<xs:schema xmlns:xs="http://www.w3.org/2001/XMLSchema">'
SCHEMAS = {
    'chain': H + '<xs:element name="a" type="T"/><xs:complexType name="T"><xs:sequence><xs:element ref="a" '
                 'minOccurs="0" maxOccurs="unbounded"/></xs:sequence></xs:complexType></xs:schema>',
    'chain-any': H + '<xs:element name="a"/></xs:schema>',
    'flat': H + '<xs:element name="a"><xs:complexType><xs:sequence><xs:element name="b" minOccurs="0" '
                'maxOccurs="unbounded"><xs:complexType/></xs:element></xs:sequence></xs:complexType></xs:element>'
                '</xs:schema>',
}
# wide and shallow: n groups <g><b/><b LAST-CHILD-DECLARES-A-NAMESPACE/></g> under the root, depth 3, 1 + 3n elements
SCHEMAS['groups-prefix'] = SCHEMAS['groups-default'] = (
    H + '<xs:element name="a"><xs:complexType><xs:sequence><xs:element name="g" minOccurs="0" maxOccurs="unbounded">'
        '<xs:complexType><xs:sequence><xs:element name="b" maxOccurs="unbounded"><xs:complexType/></xs:element>'
        '</xs:sequence></xs:complexType></xs:element></xs:sequence></xs:complexType></xs:element></xs:schema>')


def document(shape, n):
    """A valid document with exactly n elements; 'chain*': nesting depth n, 'flat': depth min(n, 2)."""
    if shape.startswith('chain'):
        return '<a>' * (n - 1) + '<a/>' + '</a>' * (n - 1)
    if shape.startswith('groups'):
        last = '<b xmlns:p="urn:p"/>' if shape == 'groups-prefix' else '<b xmlns=""/>'
        return '<a>' + ('<g><b/>' + last + '</g>') * n + '</a>'
    return '<a>' + '<b/>' * (n - 1) + '</a>' if n > 1 else '<a/>'


def describe(e, xmlschema):
    return {'exc': type(e).__name__,
            'lib': isinstance(e, xmlschema.XMLSchemaException),
            'resource': isinstance(e, xmlschema.XMLResourceError),
            'exceeded': isinstance(e, xmlschema.exceptions.XMLResourceExceeded),
            'msg': str(e)[:160]}


def main():
    cfg = json.loads(sys.argv[1])
    sys.setrecursionlimit(RECURSION_LIMIT)
    import xmlschema
    from xmlschema import XMLResource

    def emit(rec):
        sys.stdout.write(json.dumps(rec) + '\n')
        sys.stdout.flush()

    if 'setter' in cfg:
        for name in ('MAX_XML_DEPTH', 'MAX_XML_ELEMENTS'):
            for raw in cfg['setter']:
                value = {'float': 1.5, 'str': '10', 'none': None}.get(raw, raw)
                before = getattr(xmlschema.limits, name)
                rec = {'setter': name, 'value': raw}
                try:
                    setattr(xmlschema.limits, name, value)
                    rec['ret'] = 'set'
                except BaseException as e:     # noqa
                    rec.update(describe(e, xmlschema))
                after = getattr(xmlschema.limits, name)
                rec['readback_equal'] = (after == value) if 'ret' in rec else (after == before)
                # the value really used by the loader, observed through behaviour: a chain of depth 3 / 3 elements
                try:
                    XMLResource('<a><a><a/></a></a>')
                    rec['probe3'] = 'ok'
                except BaseException as e:     # noqa
                    rec['probe3'] = type(e).__name__
                setattr(xmlschema.limits, name, before)
                emit(rec)
        emit({'done': True})
        return

    if 'gcphase' in cfg:
        import gc
        gc.set_threshold(700, 10, 10)
        schema = xmlschema.XMLSchema10(SCHEMAS['flat'])
        good = '<a xmlns:p="urn:p" xmlns:q="urn:q"><b/><b/></a>'
        bad = '<a><b/><b>\x01</b></a>'
        for k in range(cfg['gcphase']):
            try:
                schema.is_valid(XMLResource(bad, lazy=True))
            except xmlschema.XMLResourceError:
                pass
            filler = [[] for _ in range(k)]
            rec = {'k': k}
            try:
                rec['ret'] = 'valid' if schema.is_valid(XMLResource(good, lazy=True)) else 'invalid'
            except BaseException as e:     # noqa
                rec.update(describe(e, xmlschema))
            del filler
            emit(rec)
        emit({'done': True})
        return

    # schemas first: the limits also apply to the schema documents themselves
    classes = {'1.0': xmlschema.XMLSchema10, '1.1': xmlschema.XMLSchema11}
    schemas = {v: classes[v](SCHEMAS[cfg['shape']]) for v in cfg['versions']}
    if cfg.get('depth') is not None:
        xmlschema.limits.MAX_XML_DEPTH = cfg['depth']
    if cfg.get('elements') is not None:
        xmlschema.limits.MAX_XML_ELEMENTS = cfg['elements']
    emit({'limits': [xmlschema.limits.MAX_XML_DEPTH, xmlschema.limits.MAX_XML_ELEMENTS],
          'recursion': sys.getrecursionlimit()})

    def run(api, schema, source):
        if api == 'resource':
            r = source()
            return 'root=%s' % r.root.tag
        if api == 'is_valid':
            return 'valid' if schema.is_valid(source()) else 'invalid'
        if api == 'iter_errors':
            return 'errors=%d' % len(list(schema.iter_errors(source())))
        if api == 'decode_lax':
            data, errors = schema.decode(source(), validation='lax')
            return 'errors=%d' % len(errors)
        if api == 'decode_strict':
            schema.decode(source())
            return 'data'
        raise ValueError(api)

    for n in cfg['sizes']:
        doc = document(cfg['shape'], n)
        for mode in cfg['modes']:
            if mode == 'eager':
                def source():
                    return XMLResource(doc)
            else:
                def source():
                    return XMLResource(doc, lazy=True)
            for api in cfg['apis']:
                for v in (cfg['versions'] if api != 'resource' else cfg['versions'][:1]):
                    rec = {'n': n, 'mode': mode, 'api': api, 'v': v if api != 'resource' else '-'}
                    try:
                        rec['ret'] = run(api, schemas[v], source)
                    except BaseException as e:     # noqa
                        rec.update(describe(e, xmlschema))
                    emit(rec)
    emit({'done': True})


if __name__ == '__main__':
    main()
