"""Observation harness of C13: audit hook + stub urllib opener + non-seekable streams.

* `watch()` is a context manager returning a list that receives every ('open', path) and
  ('urllib.Request', url) audit event raised while it is active.  Audit hooks cannot be
  removed, so one hook is installed per process and gated by a flag.
* `StubOpener` is a real `urllib.request.OpenerDirector` (so `OpenerDirector.open` raises the
  'urllib.Request' audit event itself) whose only handler serves http/https/ftp URLs from a
  dict; an unknown URL is a URLError.  Responses imitate `http.client.HTTPResponse`: a
  non-seekable `io.BufferedIOBase`.  Nothing can leave the process.
* `RawStream` / `buffered_stream` are the non-seekable raw / buffered channels.
"""
import io
import sys
import urllib.error
import urllib.request
from contextlib import contextmanager
from email.message import Message

_state = {'installed': False, 'sink': None}


def _hook(event, args):
    sink = _state['sink']
    if sink is None:
        return
    if event == 'open':
        path = args[0]
        if isinstance(path, bytes):
            path = path.decode('utf-8', 'replace')
        if isinstance(path, str):
            sink.append(('open', path))
    elif event == 'urllib.Request':
        sink.append(('urllib.Request', str(args[0])))


def install():
    if not _state['installed']:
        sys.addaudithook(_hook)
        _state['installed'] = True


@contextmanager
def watch():
    install()
    events = []
    prev = _state['sink']
    _state['sink'] = events
    try:
        yield events
    finally:
        _state['sink'] = prev


class RawStream(io.RawIOBase):
    """A readable raw stream that cannot seek (a pipe / socket)."""

    def __init__(self, data):
        super().__init__()
        self._data = data
        self._pos = 0

    def readable(self):
        return True

    def seekable(self):
        return False

    def readinto(self, buf):
        chunk = self._data[self._pos:self._pos + len(buf)]
        buf[:len(chunk)] = chunk
        self._pos += len(chunk)
        return len(chunk)


def buffered_stream(data):
    """A non-seekable io.BufferedIOBase (BufferedReader over a pipe-like raw stream)."""
    return io.BufferedReader(RawStream(data))


class StubResponse(io.BufferedIOBase):
    """Non-seekable buffered response, like http.client.HTTPResponse."""

    def __init__(self, url, data):
        super().__init__()
        self.url = url
        self.status = self.code = 200
        self.msg = 'OK'
        self.headers = Message()
        self._data = data
        self._pos = 0

    def readable(self):
        return True

    def seekable(self):
        return False

    def read(self, size=-1):
        if self.closed:
            raise ValueError('read of closed response')
        if size is None or size < 0:
            size = len(self._data) - self._pos
        chunk = self._data[self._pos:self._pos + size]
        self._pos += len(chunk)
        return chunk

    read1 = read

    def readinto(self, buf):
        chunk = self.read(len(buf))
        buf[:len(chunk)] = chunk
        return len(chunk)

    def geturl(self):
        return self.url

    def info(self):
        return self.headers

    def getcode(self):
        return self.status


class _TableHandler(urllib.request.BaseHandler):
    def __init__(self, stub):
        self.stub = stub

    def _serve(self, req):
        url = req.full_url
        self.stub.requests.append(url)
        data = self.stub.table.get(url)
        if data is None:
            raise urllib.error.URLError('stub: no such resource %s' % url)
        return StubResponse(url, data)

    http_open = https_open = ftp_open = _serve


class StubOpener(urllib.request.OpenerDirector):
    def __init__(self):
        super().__init__()
        self.table = {}
        self.requests = []
        self.add_handler(_TableHandler(self))
        self.add_handler(urllib.request.FileHandler())      # local paths are opened through urlopen too
        self.add_handler(urllib.request.UnknownHandler())


_stub = {'opener': None}


def stub_opener():
    """The per-process stub, installed globally on first use."""
    if _stub['opener'] is None:
        _stub['opener'] = StubOpener()
        urllib.request.install_opener(_stub['opener'])
    return _stub['opener']
