"""C04: runs the `xmlschema-validate` console entry point of the repository under test in a process of its own.

The installed console script is not used because it binds to whatever copy is installed; the entry function
`xmlschema.cli.validate` is called with `PYTHONPATH` pointing at the repository under test, so the working tree
is what runs.  Only the exit status is the verdict; stdout / stderr are kept for the discrepancy text.
"""
import os
import subprocess
import sys

BOOT = ('import sys; sys.argv[0] = "xmlschema-validate"; '
        'from xmlschema.cli import validate; validate()')


def repo_root():
    import xmlschema
    return os.path.dirname(os.path.dirname(os.path.abspath(xmlschema.__file__)))


def run_validate(args, cwd, timeout=120):
    """Returns (exit status, stdout, stderr) of `xmlschema-validate <args>`."""
    env = {k: v for k, v in os.environ.items() if k not in ('PYTHONPATH',)}
    env['PYTHONPATH'] = repo_root()
    env['PYTHONDONTWRITEBYTECODE'] = '1'
    env['PYTHONHASHSEED'] = '0'
    p = subprocess.run([sys.executable, '-c', BOOT] + list(args), cwd=cwd, env=env, capture_output=True, text=True,
                       timeout=timeout)
    return p.returncode, p.stdout, p.stderr
