"""Observation for C12: an interpreter audit hook and a stub urllib opener.

Audit hooks cannot be removed, so one hook is installed per process and gated by a flag; while the
gate is open every 'open' and 'urllib.Request' event is appended to the current log.  The stub opener
answers http/https/ftp and the made-up scheme mem from an in-memory table (no socket is ever created) and file: URLs through the
standard FileHandler; it is meant to be passed as opener= and installed with install_opener().
"""
import email
import io
import os
import posixpath
import sys
import urllib.error
import urllib.request
import urllib.response
from urllib.parse import urlsplit, unquote

_state = {'installed': False, 'on': False, 'log': None}


def _hook(event, args):
    if not _state['on']:
        return
    if event == 'open':
        path = args[0]
        if isinstance(path, bytes):
            path = os.fsdecode(path)
        if isinstance(path, str):
            _state['log'].append(('open', path))
    elif event == 'urllib.Request':
        _state['log'].append(('request', str(args[0])))
    elif event == 'socket.connect' or event == 'socket.getaddrinfo':
        _state['log'].append(('socket', repr(args[1:])))


def install():
    if not _state['installed']:
        sys.addaudithook(_hook)
        _state['installed'] = True


class recording:
    """with recording() as log: ...   log is a list of (kind, arg)."""

    def __enter__(self):
        install()
        self.log = []
        _state['log'] = self.log
        _state['on'] = True
        return self.log

    def __exit__(self, *exc):
        _state['on'] = False
        _state['log'] = None
        return False


class StubHandler(urllib.request.BaseHandler):
    """Serves every non-file scheme of the catalogue from `table` (normalised url path -> callable(scheme) -> bytes)."""
    handler_order = 100

    def __init__(self):
        self.table = {}
        self.served = []          # (url, found) for every request that reached the stub

    def _serve(self, req):
        url = req.full_url
        parts = urlsplit(url)
        path = posixpath.normpath(unquote(parts.path))
        make = self.table.get(path)
        self.served.append((url, make is not None))
        if make is None:
            raise urllib.error.URLError('stub: no such resource %s' % url)
        body = make(parts.scheme.lower())
        headers = email.message_from_string('Content-Type: text/xml\nContent-Length: %d\n\n' % len(body))
        return urllib.response.addinfourl(io.BytesIO(body), headers, url, 200)

    # 'mem' stands for any non-file scheme; it is also used without an authority part (mem:x, mem:/d/x)
    # 'urn' is a name that only an application-supplied opener (a catalogue resolver) can fetch
    http_open = https_open = ftp_open = mem_open = urn_open = _serve


def make_opener():
    """Returns (opener, stub handler).  No handler of the opener can touch the network."""
    stub = StubHandler()
    opener = urllib.request.OpenerDirector()
    opener.add_handler(stub)
    opener.add_handler(urllib.request.FileHandler())
    opener.add_handler(urllib.request.UnknownHandler())
    return opener, stub
