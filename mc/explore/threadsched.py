"""Stateless, deviation-bounded exploration of thread schedules for real Python threads.

Real `threading.Thread`s are serialised by a baton (one semaphore per thread): exactly one controlled thread
runs at any time.  A *scheduling point* is the `call` event (sys.settrace) of a function selected by a point
filter, plus every acquire/release of a cooperative lock that replaces the library's real locks; a filter label
starting with 'LINE:' additionally makes every source line of that function body a point.  At each
point the scheduler takes the choice dictated by the schedule prefix, else choice 0 = keep running the
current thread.  Iterative context bounding: after the default schedule, every point whose number of
preemptions stays within the bound is branched to every other enabled thread.  Switching away from a thread
that is still enabled costs one preemption; switches forced by a blocked lock or a finished thread cost none.

A schedule is the list of choices (indices into the canonical enabled list: the running thread first if it is
still enabled, then ascending thread ids).  An out-of-range choice while replaying a prefix is a hard error.
"""
import sys
import threading

# keep references to the real primitives: the library's names may be patched to cooperative ones
_RealSemaphore = threading.Semaphore
_RealEvent = threading.Event
_RealThread = threading.Thread


class Divergence(BaseException):
    pass


class CoopLock:
    """Cooperative replacement for threading.Lock / RLock used by the code under test."""
    execution = None            # the Execution currently in charge (one at a time per process)

    def __init__(self, reentrant=False):
        self.owner = None
        self.count = 0
        self.waiters = []
        self.reentrant = reentrant

    def acquire(self, blocking=True, timeout=-1):
        ex = CoopLock.execution
        tid = ex.tid_of_current_thread() if ex is not None else None
        if tid is None:
            # not under exploration (schema construction in the harness thread): single-threaded, always free
            self.owner = 'main'
            self.count += 1
            return True
        ex.point(tid, 'lock.acquire')
        while True:
            if self.owner is None:
                self.owner = tid
                self.count = 1
                return True
            if self.reentrant and self.owner == tid:
                self.count += 1
                return True
            if not blocking:
                return False
            ex.block(tid, self)

    def release(self):
        ex = CoopLock.execution
        tid = ex.tid_of_current_thread() if ex is not None else None
        self.count -= 1
        if self.count <= 0:
            self.owner = None
            self.count = 0
            if ex is not None:
                ex.wake(self)
        if tid is not None:
            ex.point(tid, 'lock.release')

    def locked(self):
        return self.owner is not None

    __enter__ = acquire

    def __exit__(self, *a):
        self.release()


def CoopRLock():
    return CoopLock(reentrant=True)


class Execution:
    """One complete run of the thread bodies under one schedule prefix."""

    def __init__(self, bodies, prefix, is_point, timeout=120.0):
        self.bodies = bodies
        self.n = len(bodies)
        self.prefix = tuple(prefix)
        self.is_point = is_point
        self.timeout = timeout
        self.choices = []
        self.points = []            # (running thread still enabled?, number of enabled threads, label)
        self.state = ['ready'] * self.n
        self.sems = [_RealSemaphore(0) for _ in range(self.n)]
        self.results = [None] * self.n
        self.current = None
        self.done = _RealEvent()
        self.deadlock = False
        self.divergence = None
        self.idents = {}
        self.switches = 0

    # -- helpers ------------------------------------------------------------------------------
    def tid_of_current_thread(self):
        return self.idents.get(threading.get_ident())

    def _decide(self, enabled, running_enabled, label):
        idx = len(self.choices)
        if idx < len(self.prefix):
            c = self.prefix[idx]
            if c >= len(enabled):
                self.divergence = 'choice %d out of range (%d enabled) at point %d %s' % (c, len(enabled), idx, label)
                raise Divergence(self.divergence)
        else:
            c = 0
        self.choices.append(c)
        self.points.append((running_enabled, len(enabled), label))
        return enabled[c]

    def _others(self, tid):
        return [i for i in range(self.n) if i != tid and self.state[i] == 'ready']

    def _handoff(self, frm, to):
        self.current = to
        self.switches += 1
        self.sems[to].release()
        self.sems[frm].acquire()

    # -- called by the running thread ---------------------------------------------------------------
    def point(self, tid, label):
        if tid != self.current or self.done.is_set():
            return
        others = self._others(tid)
        if not others:
            # nothing to choose: not recorded (keeps schedules short and canonical)
            return
        nxt = self._decide([tid] + others, True, label)
        if nxt != tid:
            self._handoff(tid, nxt)

    def block(self, tid, lock):
        """The running thread cannot take `lock`: park it and run somebody else (not a preemption)."""
        self.state[tid] = 'blocked'
        lock.waiters.append(tid)
        others = self._others(tid)
        if not others:
            self.deadlock = True
            self.done.set()
            self.sems[tid].acquire()          # parked forever (daemon thread)
            return
        nxt = self._decide(others, False, 'blocked')
        self._handoff(tid, nxt)

    def wake(self, lock):
        for t in lock.waiters:
            if self.state[t] == 'blocked':
                self.state[t] = 'ready'
        del lock.waiters[:]

    def finish(self, tid):
        self.state[tid] = 'done'
        others = self._others(tid)
        if not others:
            if any(s == 'blocked' for s in self.state):
                self.deadlock = True
            self.done.set()
            return
        nxt = self._decide(others, False, 'finished')
        self.current = nxt
        self.sems[nxt].release()

    # -- thread bodies ----------------------------------------------------------------------------------
    def _trace(self, tid):
        is_point = self.is_point

        def line_tracer(frame, event, arg):
            # line-granularity points inside a designated function body (labels starting with 'LINE:')
            if event == 'line':
                self.point(tid, 'line:%s:%d' % (frame.f_code.co_name, frame.f_lineno))
            return line_tracer

        def tracer(frame, event, arg):
            if event == 'call':
                lab = is_point(frame)
                if lab:
                    self.point(tid, lab)
                    if lab.startswith('LINE:'):
                        return line_tracer
            return None
        return tracer

    def _run_thread(self, tid):
        self.idents[threading.get_ident()] = tid
        self.sems[tid].acquire()
        try:
            sys.settrace(self._trace(tid))
            try:
                self.results[tid] = ('ok', self.bodies[tid]())
            except Divergence:
                self.results[tid] = ('divergence', self.divergence)
                sys.settrace(None)
                self.done.set()
                return
            except BaseException as e:                                    # noqa
                self.results[tid] = ('exc', type(e).__name__, str(e)[:200])
        finally:
            sys.settrace(None)
        if not self.done.is_set():
            try:
                self.finish(tid)
            except Divergence:
                self.done.set()

    def run(self):
        CoopLock.execution = self
        threads = [_RealThread(target=self._run_thread, args=(i,), daemon=True) for i in range(self.n)]
        for t in threads:
            t.start()
        try:
            first = self._decide(list(range(self.n)), False, 'start')
        except Divergence:
            CoopLock.execution = None
            return self
        self.current = first
        self.sems[first].release()
        finished = self.done.wait(self.timeout)
        self.hang = not finished
        CoopLock.execution = None
        if finished and not self.deadlock and self.divergence is None:
            for t in threads:
                t.join(5)
        return self


def explore(make_bodies, is_point, bound, check, first_level=None, max_executions=None, on_execution=None):
    """Depth-first iterative context bounding.

    make_bodies() -> (bodies, context) builds a FRESH shared object and the thread bodies for one execution.
    check(execution, context) -> list of problems (strings) for this execution.
    first_level: optional predicate(prefix, index) selecting which deviations this shard explores (sharding).
    Returns dict(executions, points_max, problems=[(prefix, problem)], capped).
    """
    stats = {'executions': 0, 'points_total': 0, 'points_max': 0, 'problems': [], 'capped': False,
             'distinct_results': set(), 'divergent_replays': 0, 'unrealisable_prefixes': 0}
    stack = [()]
    while stack:
        prefix = stack.pop()
        if max_executions and stats['executions'] >= max_executions:
            stats['capped'] = True
            break
        # A prefix that cannot be replayed (the library iterates sets hashed by id(), so the number of call
        # events can differ by a few between two fresh object graphs) is retried, then counted and skipped.
        for attempt in range(3):
            bodies, ctx = make_bodies()
            x = Execution(bodies, prefix, is_point).run()
            if x.divergence is None:
                break
            stats['divergent_replays'] += 1
        stats['executions'] += 1
        stats['points_total'] += len(x.points)
        stats['points_max'] = max(stats['points_max'], len(x.points))
        if x.divergence is not None:
            stats['unrealisable_prefixes'] += 1
            continue
        probs = []
        if getattr(x, 'hang', False):
            probs.append('execution did not finish within the horizon')
        if x.deadlock:
            probs.append('deadlock: no enabled thread while some thread is blocked on a lock')
        if not probs:
            probs = check(x, ctx)
        for p in probs:
            stats['problems'].append((tuple(x.choices), p))
        stats['distinct_results'].add(repr(x.results))
        if on_execution:
            on_execution(x)
        # branch
        pre = 0
        for i, (running_enabled, nen, label) in enumerate(x.points):
            if i >= len(prefix):
                cost = pre + (1 if running_enabled else 0)
                if cost <= bound:
                    if first_level is None or first_level(prefix, i):
                        for alt in range(1, nen):
                            stack.append(tuple(x.choices[:i]) + (alt,))
            if running_enabled and x.choices[i] != 0:
                pre += 1
    return stats
