"""Reference semantics of wildcard namespace constraints: plain Python sets.

A constraint is (kind, nss, notq):
    kind  'any' | 'other' | 'enum' | 'not'
    nss   tuple of tokens from 'L' (##local), 'T' (##targetNamespace), 'N1', 'N2'  (enum / not)
    notq  tuple of tokens from 'T:a', 'N1:a', 'D' (##defined)                      (XSD 1.1 only)

The universe partitions all expanded names into classes that no constraint of this
alphabet can split: namespace in {T, N1, N2, F (any other namespace), '' (absent)} x
local name in {a, z (any other local name)}.  Only T:a is globally declared.
"""
NS = {'T': 'urn:t', 'N1': 'urn:n1', 'N2': 'urn:n2', 'F': 'urn:f', 'L': ''}
UNIVERSE = [(ns, loc) for ns in ('T', 'N1', 'N2', 'F', 'L') for loc in ('a', 'z')]
DECLARED = {('T', 'a')}


def ns_allowed(c, ns):
    kind, nss, _ = c
    if kind == 'any':
        return True
    if kind == 'other':
        return ns not in ('L', 'T')
    if kind == 'enum':
        return ns in nss
    return ns not in nss


def denote(c):
    """The set of universe classes admitted by constraint c."""
    _, _, notq = c
    out = set()
    for ns, loc in UNIVERSE:
        if not ns_allowed(c, ns):
            continue
        if '%s:%s' % (ns, loc) in notq:
            continue
        if 'D' in notq and (ns, loc) in DECLARED:
            continue
        out.add((ns, loc))
    return frozenset(out)


def render(c, attr_name_ns='namespace'):
    """XML attributes of xs:any / xs:anyAttribute for constraint c."""
    kind, nss, notq = c
    tok = {'L': '##local', 'T': '##targetNamespace', 'N1': NS['N1'], 'N2': NS['N2']}
    if kind == 'any':
        s = 'namespace="##any"'
    elif kind == 'other':
        s = 'namespace="##other"'
    elif kind == 'enum':
        s = 'namespace="%s"' % ' '.join(tok[t] for t in nss)
    else:
        s = 'notNamespace="%s"' % ' '.join(tok[t] for t in nss)
    if notq:
        q = {'T:a': 't:a', 'N1:a': 'n1:a', 'D': '##defined'}
        s += ' notQName="%s"' % ' '.join(q[t] for t in notq)
    return s


def show(c):
    kind, nss, notq = c
    s = {'any': '##any', 'other': '##other'}.get(kind) or ('%s{%s}' % ('' if kind == 'enum' else 'not', ','.join(nss)))
    if notq:
        s += '-notQ{%s}' % ','.join(notq)
    return s


def subsets(items):
    out = [()]
    for it in items:
        out += [s + (it,) for s in out]
    return sorted(out, key=lambda s: (len(s), s))


def constraints(version, notq_pool):
    cs = [('any', (), ()), ('other', (), ())]
    cs += [('enum', s, ()) for s in subsets(('L', 'T', 'N1', 'N2'))]
    if version == '1.1':
        cs += [('not', s, ()) for s in subsets(('L', 'T', 'N1', 'N2')) if s]
        base = list(cs)
        for q in subsets(notq_pool):
            if q:
                cs += [(k, n, q) for k, n, _ in base]
    return cs
