"""C19 reference: evaluates the path of a validation error against a plain element tree.

A path is '/step/step...'; a step is 'prefix:local', 'local' or '{uri}local', optionally followed
by '[n]' (1-based position among the siblings with the same expanded name).  Prefixes are resolved
with the map carried by the error; an unprefixed name takes the default namespace of that map when
it has one (the meaning ElementTree and XPath 2.0 give to such a name).  Works on ElementTree and
lxml trees alike: only .tag and child iteration are used.  No xmlschema / elementpath code.
"""


def steps(path):
    out, cur, depth = [], '', 0
    for ch in path:
        depth += (ch == '{') - (ch == '}')
        if ch == '/' and not depth:
            out.append(cur)
            cur = ''
        else:
            cur += ch
    return out + [cur]


def expand(name, nsmap):
    if name.startswith('{'):
        return name[2:] if name.startswith('{}') else name
    if ':' in name:
        prefix, local = name.split(':', 1)
        return '{%s}%s' % (nsmap[prefix], local)          # KeyError: the path cannot be resolved
    return '{%s}%s' % (nsmap[''], name) if nsmap.get('') else name


def parse_step(step):
    k = step.index('}') + 1 if step.startswith('{') else 0
    local, _, pred = step[k:].partition('[')
    return step[:k] + local, int(pred[:-1]) if pred else 0


def walk(root, path, nsmap):
    """Returns (selected nodes, every node visited, number of steps evaluated)."""
    parts = steps(path or '')
    if len(parts) < 2 or parts[0] != '':
        return [], [], 0
    nodes, visited, nsteps = None, [], 0
    for step in parts[1:]:
        name, pos = parse_step(step)
        try:
            tag = expand(name, nsmap or {})
        except KeyError:
            return [], visited, nsteps + 1
        nxt = []
        for cands in ([[root]] if nodes is None else [list(n) for n in nodes]):
            same = [c for c in cands if c.tag == tag]
            nxt.extend(same[pos - 1:pos] if pos else same)
        nodes = nxt
        visited.extend(nodes)
        nsteps += 1
    return nodes, visited, nsteps
