"""Reference model of the XSD built-in datatypes (XSD Part 2, 1.0 second edition and 1.1).

Nothing here imports xmlschema or elementpath.  Three layers, all boring:

1. lexical spaces: one regular expression per (version, type), transcribed from the
   productions / prose of the specification, applied to the whitespace-normalised text.
   The expressions are written in a tiny regex subset that is parsed by `parse_regex`
   and executed by Brzozowski derivatives (`Dfa`); every derivative reached is a DFA
   state, every (state, character) step a transition, so the evidence counters are
   measured.  The same source text is also valid for Python's `re`, which the check uses
   as a second, independent evaluation of the same transcription.
2. value spaces: int / Fraction / float / bytes / tuples, own proleptic Gregorian
   arithmetic, own float rounding.
3. facets: length family, bounds (partial order for date/time and duration), digits,
   enumeration, pattern (restricted to the regex subset), explicitTimezone, list and union.
"""
import re
from fractions import Fraction

# ------------------------------------------------------------------------------------------
# 1. a tiny regex engine: parser + Brzozowski derivatives
# ------------------------------------------------------------------------------------------
# AST nodes are hash-consed tuples:
#   ('0',)            empty language          ('e',)                 empty string
#   ('c', neg, rs)    character class, rs = tuple of (lo, hi) code point ranges
#   ('.', a, b)       concatenation           ('|', frozenset(...))  alternation
#   ('*', a)          Kleene star
NUL = ('0',)
EPS = ('e',)


def cls(ranges, neg=False):
    return ('c', neg, tuple(sorted(ranges)))


def cat(a, b):
    if a is NUL or b is NUL or a == NUL or b == NUL:
        return NUL
    if a == EPS:
        return b
    if b == EPS:
        return a
    if a[0] == '.':                       # right-associate so that equal languages get equal terms more often
        return cat(a[1], cat(a[2], b))
    return ('.', a, b)


def alt(a, b):
    if a == NUL:
        return b
    if b == NUL:
        return a
    sa = a[1] if a[0] == '|' else frozenset((a,))
    sb = b[1] if b[0] == '|' else frozenset((b,))
    s = sa | sb
    if len(s) == 1:
        return next(iter(s))
    return ('|', s)


def star(a):
    if a == NUL or a == EPS:
        return EPS
    if a[0] == '*':
        return a
    return ('*', a)


def opt(a):
    return alt(EPS, a)


def repeat(a, lo, hi):
    """a{lo,hi}; hi None = unbounded."""
    out = EPS
    if hi is None:
        out = star(a)
    else:
        for _ in range(hi - lo):
            out = opt(cat(a, out))
    for _ in range(lo):
        out = cat(a, out)
    return out


def nullable(r):
    k = r[0]
    if k == 'e' or k == '*':
        return True
    if k == '0' or k == 'c':
        return False
    if k == '.':
        return nullable(r[1]) and nullable(r[2])
    return any(nullable(x) for x in r[1])


def in_class(r, ch):
    o = ord(ch)
    hit = any(lo <= o <= hi for lo, hi in r[2])
    return hit != r[1]


def deriv(r, ch):
    k = r[0]
    if k == '0' or k == 'e':
        return NUL
    if k == 'c':
        return EPS if in_class(r, ch) else NUL
    if k == '.':
        d = cat(deriv(r[1], ch), r[2])
        if nullable(r[1]):
            return alt(d, deriv(r[2], ch))
        return d
    if k == '|':
        out = NUL
        for x in r[1]:
            out = alt(out, deriv(x, ch))
        return out
    return cat(deriv(r[1], ch), r)          # star


class RegexSyntaxError(Exception):
    pass


def parse_regex(src):
    """Subset: literals, \\x escapes, ., [..] with ranges and ^, ( ), |, ? * +, {n} {n,} {n,m}."""
    pos = 0
    n = len(src)

    def peek():
        return src[pos] if pos < n else ''

    def p_alt():
        nonlocal pos
        r = p_seq()
        while peek() == '|':
            pos += 1
            r = alt(r, p_seq())
        return r

    def p_seq():
        parts = []
        while pos < n and peek() not in '|)':
            parts.append(p_rep())
        out = EPS
        for x in reversed(parts):
            out = cat(x, out)
        return out

    def p_rep():
        nonlocal pos
        a = p_atom()
        while True:
            c = peek()
            if c == '?':
                pos += 1
                a = opt(a)
            elif c == '*':
                pos += 1
                a = star(a)
            elif c == '+':
                pos += 1
                a = cat(a, star(a))
            elif c == '{':
                end = src.index('}', pos)
                body = src[pos + 1:end]
                pos = end + 1
                if ',' in body:
                    lo, hi = body.split(',')
                    a = repeat(a, int(lo), int(hi) if hi else None)
                else:
                    a = repeat(a, int(body), int(body))
            else:
                return a

    def p_atom():
        nonlocal pos
        c = peek()
        if c == '(':
            pos += 1
            r = p_alt()
            if peek() != ')':
                raise RegexSyntaxError(src)
            pos += 1
            return r
        if c == '[':
            pos += 1
            neg = False
            if peek() == '^':
                neg = True
                pos += 1
            ranges = []
            while peek() != ']':
                if pos >= n:
                    raise RegexSyntaxError(src)
                lo = src[pos]
                if lo == '\\':
                    pos += 1
                    lo = src[pos]
                pos += 1
                hi = lo
                if peek() == '-' and pos + 1 < n and src[pos + 1] != ']':
                    pos += 1
                    hi = src[pos]
                    if hi == '\\':
                        pos += 1
                        hi = src[pos]
                    pos += 1
                ranges.append((ord(lo), ord(hi)))
            pos += 1
            return cls(ranges, neg)
        if c == '.':
            pos += 1
            return cls([(10, 10), (13, 13)], True)     # XSD '.': anything but \n and \r
        if c == '\\':
            pos += 1
            c = src[pos]
        elif c in '?*+{})|':
            raise RegexSyntaxError(src)
        pos += 1
        return cls([(ord(c), ord(c))])

    r = p_alt()
    if pos != n:
        raise RegexSyntaxError(src)
    return r


class Dfa:
    """Lazy DFA of a regex: states are derivatives; counts what has been visited."""

    def __init__(self, src):
        self.src = src
        self.start = parse_regex(src)
        self.states = {self.start}
        self.trans = {}

    def step(self, state, ch):
        key = (state, ch)
        t = self.trans.get(key)
        if t is None:
            t = deriv(state, ch)
            self.trans[key] = t
            self.states.add(t)
        return t

    def accepts_from(self, state, text):
        for ch in text:
            state = self.step(state, ch)
            if state == NUL:
                # stay in the sink, but keep counting nothing more
                return False
        return nullable(state)

    def accepts(self, text):
        return self.accepts_from(self.start, text)


# ------------------------------------------------------------------------------------------
# 2. whitespace
# ------------------------------------------------------------------------------------------
XSD_WS = ' \t\n\r'


def normalize(ws, text):
    if ws == 'preserve':
        return text
    text = text.replace('\t', ' ').replace('\n', ' ').replace('\r', ' ')
    if ws == 'replace':
        return text
    return ' '.join(x for x in text.split(' ') if x)


# ------------------------------------------------------------------------------------------
# 3. lexical spaces
# ------------------------------------------------------------------------------------------
def _rs(*pairs):
    return ''.join(chr(a) if a == b else '%s-%s' % (chr(a), chr(b)) for a, b in pairs)


# XML 1.0 (fifth edition) NameStartChar / NameChar without ':'; the check's alphabets only use
# characters on which the fourth and fifth editions agree.
_NSC = 'A-Z_a-z' + _rs((0xC0, 0xD6), (0xD8, 0xF6), (0xF8, 0x2FF), (0x370, 0x37D), (0x37F, 0x1FFF),
                       (0x200C, 0x200D), (0x2070, 0x218F), (0x2C00, 0x2FEF), (0x3001, 0xD7FF),
                       (0xF900, 0xFDCF), (0xFDF0, 0xFFFD), (0x10000, 0xEFFFF))
_NC = _NSC + '\\-.0-9' + _rs((0xB7, 0xB7), (0x300, 0x36F), (0x203F, 0x2040))
NCNAME = '[%s][%s]*' % (_NSC, _NC)
NAME = '[:%s][:%s]*' % (_NSC, _NC)
NMTOKEN = '[:%s]+' % _NC
QNAME = '(%s:)?%s' % (NCNAME, NCNAME)

DECIMAL = r'(\+|-)?([0-9]+(\.[0-9]*)?|\.[0-9]+)'
INTEGER = r'[\-+]?[0-9]+'
_NUMERAL = r'(\+|-)?([0-9]+(\.[0-9]*)?|\.[0-9]+)([Ee](\+|-)?[0-9]+)?'
FLOAT11 = _NUMERAL + r'|(\+|-)?INF|NaN'
FLOAT10 = _NUMERAL + r'|-?INF|NaN'

_YEAR11 = r'-?([1-9][0-9][0-9][0-9]+|0[0-9][0-9][0-9])'
_YEAR10 = r'-?([1-9][0-9][0-9][0-9]+|0[0-9][0-9][1-9]|0[0-9][1-9][0-9]|0[1-9][0-9][0-9])'
_MONTH = r'(0[1-9]|1[0-2])'
_DAY = r'(0[1-9]|[12][0-9]|3[01])'
_TIME = r'(([01][0-9]|2[0-3]):[0-5][0-9]:[0-5][0-9](\.[0-9]+)?|24:00:00(\.0+)?)'
_TZ = r'(Z|(\+|-)((0[0-9]|1[0-3]):[0-5][0-9]|14:00))?'


def _dt(version):
    y = _YEAR10 if version == '1.0' else _YEAR11
    return {
        'dateTime': y + '-' + _MONTH + '-' + _DAY + 'T' + _TIME + _TZ,
        'date': y + '-' + _MONTH + '-' + _DAY + _TZ,
        'gYearMonth': y + '-' + _MONTH + _TZ,
        'gYear': y + _TZ,
        'time': _TIME + _TZ,
        'gMonthDay': '--' + _MONTH + '-' + _DAY + _TZ,
        'gDay': '---' + _DAY + _TZ,
        'gMonth': '--' + _MONTH + _TZ,
        'dateTimeStamp': y + '-' + _MONTH + '-' + _DAY + 'T' + _TIME + _TZ[:-1],
    }


_S = r'[0-9]+(\.[0-9]+)?S'
_DUTIME = r'T([0-9]+H([0-9]+M)?(%s)?|[0-9]+M(%s)?|%s)' % (_S, _S, _S)
_DUYM = r'([0-9]+Y([0-9]+M)?|[0-9]+M)'
_DUDT = r'([0-9]+D(%s)?|%s)' % (_DUTIME, _DUTIME)
DURATION = r'-?P(([0-9]+Y([0-9]+M)?([0-9]+D)?|[0-9]+M([0-9]+D)?|[0-9]+D)(%s)?|%s)' % (_DUTIME, _DUTIME)
YM_DURATION = '-?P' + _DUYM
DT_DURATION = '-?P' + _DUDT

HEX = r'([0-9a-fA-F][0-9a-fA-F])*'
_B64 = r'[A-Za-z0-9+/]'
BASE64 = (r'((%s ?%s ?%s ?%s ?)*(%s ?%s ?%s ?%s|%s ?%s ?[AEIMQUYcgkosw048] ?=|%s ?[AQgw] ?= ?=))?'
          % ((_B64,) * 11))
LANGUAGE = r'[a-zA-Z]{1,8}(-[a-zA-Z0-9]{1,8})*'
ANY = r'([^\n]|\n)*'
BOOLEAN = r'true|false|1|0'

INT_RANGES = {
    'integer': (None, None), 'nonPositiveInteger': (None, 0), 'negativeInteger': (None, -1),
    'long': (-2 ** 63, 2 ** 63 - 1), 'int': (-2 ** 31, 2 ** 31 - 1), 'short': (-2 ** 15, 2 ** 15 - 1),
    'byte': (-128, 127), 'nonNegativeInteger': (0, None), 'unsignedLong': (0, 2 ** 64 - 1),
    'unsignedInt': (0, 2 ** 32 - 1), 'unsignedShort': (0, 65535), 'unsignedByte': (0, 255),
    'positiveInteger': (1, None),
}
# name -> (primitive family, whitespace, base builtin)
TYPES = {
    'string': ('string', 'preserve', None), 'normalizedString': ('string', 'replace', 'string'),
    'token': ('string', 'collapse', 'normalizedString'), 'language': ('string', 'collapse', 'token'),
    'NMTOKEN': ('string', 'collapse', 'token'), 'Name': ('string', 'collapse', 'token'),
    'NCName': ('string', 'collapse', 'Name'), 'ID': ('string', 'collapse', 'NCName'),
    'IDREF': ('string', 'collapse', 'NCName'), 'ENTITY': ('string', 'collapse', 'NCName'),
    'anyURI': ('anyURI', 'collapse', None), 'QName': ('QName', 'collapse', None),
    'NOTATION': ('QName', 'collapse', None),
    'boolean': ('boolean', 'collapse', None), 'decimal': ('decimal', 'collapse', None),
    'float': ('float', 'collapse', None), 'double': ('double', 'collapse', None),
    'duration': ('duration', 'collapse', None), 'yearMonthDuration': ('duration', 'collapse', 'duration'),
    'dayTimeDuration': ('duration', 'collapse', 'duration'),
    'dateTime': ('dateTime', 'collapse', None), 'dateTimeStamp': ('dateTime', 'collapse', 'dateTime'),
    'date': ('date', 'collapse', None), 'time': ('time', 'collapse', None),
    'gYearMonth': ('gYearMonth', 'collapse', None), 'gYear': ('gYear', 'collapse', None),
    'gMonthDay': ('gMonthDay', 'collapse', None), 'gDay': ('gDay', 'collapse', None),
    'gMonth': ('gMonth', 'collapse', None),
    'hexBinary': ('hexBinary', 'collapse', None), 'base64Binary': ('base64Binary', 'collapse', None),
}
for _n in INT_RANGES:
    TYPES[_n] = ('decimal', 'collapse', 'decimal')
ONLY_11 = ('dateTimeStamp', 'yearMonthDuration', 'dayTimeDuration')
DATE_FAMILIES = ('dateTime', 'date', 'time', 'gYearMonth', 'gYear', 'gMonthDay', 'gDay', 'gMonth')
LIST_TYPES = {'NMTOKENS': 'NMTOKEN', 'IDREFS': 'IDREF', 'ENTITIES': 'ENTITY'}


def type_names(version):
    return [n for n in TYPES if version == '1.1' or n not in ONLY_11]


def family(name):
    return TYPES[name][0]


def white_space(name):
    return TYPES[name][1]


def lexical_regex(version, name):
    if name in INT_RANGES:
        return INTEGER
    if name in ('string', 'normalizedString', 'token', 'anyURI'):
        return ANY
    if name in ('float', 'double'):
        return FLOAT10 if version == '1.0' else FLOAT11
    d = _dt(version)
    if name in d:
        return d[name]
    return {'language': LANGUAGE, 'NMTOKEN': NMTOKEN, 'Name': NAME, 'NCName': NCNAME, 'ID': NCNAME,
            'IDREF': NCNAME, 'ENTITY': NCNAME, 'QName': QNAME, 'NOTATION': QNAME, 'boolean': BOOLEAN,
            'decimal': DECIMAL, 'duration': DURATION, 'yearMonthDuration': YM_DURATION,
            'dayTimeDuration': DT_DURATION, 'hexBinary': HEX, 'base64Binary': BASE64}[name]


_DFAS = {}
_RES = {}


def dfa(version, name):
    src = lexical_regex(version, name)
    d = _DFAS.get(src)
    if d is None:
        d = _DFAS[src] = Dfa(src)
    return d


def py_regex(version, name):
    src = lexical_regex(version, name)
    r = _RES.get(src)
    if r is None:
        r = _RES[src] = re.compile(src)
    return r


# ------------------------------------------------------------------------------------------
# 4. value spaces
# ------------------------------------------------------------------------------------------
class Open(Exception):
    """The specification leaves the case open (implementation-defined limit, contested clause)."""


def _int(text):
    """Decimal digits only; Python's int() is deliberately not trusted with the raw text."""
    v = 0
    for ch in text:
        o = ord(ch) - 48
        if not 0 <= o <= 9:
            raise ValueError(text)
        v = v * 10 + o
    return v


def decimal_value(text):
    sign = -1 if text[0] == '-' else 1
    body = text.lstrip('+-')
    ip, _, fp = body.partition('.')
    return sign * (Fraction(_int(ip or '0')) + (Fraction(_int(fp), 10 ** len(fp)) if fp else 0))


def round_binary(q, mant, emin, emax):
    """Round a non-negative Fraction to the nearest (ties-to-even) binary float with `mant`
    significand bits and exponent range [emin, emax]; returns a Fraction or None for overflow."""
    if q == 0:
        return Fraction(0)
    # find e with 2**e <= q < 2**(e+1)
    e = q.numerator.bit_length() - q.denominator.bit_length()
    if Fraction(2) ** e > q:
        e -= 1
    elif Fraction(2) ** (e + 1) <= q:
        e += 1
    e = max(e, emin)                       # subnormals share the exponent emin
    ulp = Fraction(2) ** (e - mant + 1)
    k = q / ulp
    f = k.numerator // k.denominator
    rem = k - f
    if rem > Fraction(1, 2) or (rem == Fraction(1, 2) and f % 2 == 1):
        f += 1
    r = f * ulp
    if r >= Fraction(2) ** (emax + 1):
        return None
    return r


def float_value(version, text, bits=64):
    """Python float (with inf/nan) denoting the xs:double (bits=64) or xs:float (bits=32) value."""
    if text == 'NaN':
        return float('nan')
    if text in ('INF', '+INF'):
        return float('inf')
    if text == '-INF':
        return float('-inf')
    m, _, e = text.replace('E', 'e').partition('e')
    neg = m.startswith('-')
    q = abs(decimal_value(m))
    if e:
        x = _int(e.lstrip('+-'))
        if x > 5000:
            raise Open('exponent beyond any supported range')
        q = q * Fraction(10) ** (-x if e[0] == '-' else x)
    r = round_binary(q, 53, -1022, 1023) if bits == 64 else round_binary(q, 24, -126, 127)
    if r is None:
        v = float('inf')
    else:
        v = r.numerator / r.denominator      # exact: r is representable in binary64
    if neg:
        v = -v                                # keeps -0.0
    return v


def is_leap(y):
    return y % 4 == 0 and (y % 100 != 0 or y % 400 == 0)


def days_in_month(y, m):
    if m == 2:
        return 29 if (y is None or is_leap(y)) else 28
    return 30 if m in (4, 6, 9, 11) else 31


def days_from_0001(y, m, d):
    """Days from 0001-01-01 (astronomical year numbering, proleptic Gregorian)."""
    yy = y - 1
    days = yy * 365 + yy // 4 - yy // 100 + yy // 400
    for mm in range(1, m):
        days += days_in_month(y, mm)
    return days + d - 1


def _split_tz(text):
    if text.endswith('Z'):
        return text[:-1], 0
    if len(text) >= 6 and text[-6] in '+-' and text[-3] == ':':
        mins = _int(text[-5:-3]) * 60 + _int(text[-2:])
        return text[:-6], -mins if text[-6] == '-' else mins
    return text, None


def datetime_value(version, fam, text):
    """(year, month, day, hour, minute, second: Fraction, tz minutes) with None for absent fields.
    Year is astronomical (1.1: '0000' = 0; 1.0: '-0001' = 0 is *not* assumed: 1.0 years are kept as
    written, there is no year zero).  24:00:00 is moved to 00:00:00 of the next day.  Text must
    already match the lexical regex."""
    body, tz = _split_tz(text)
    year = month = day = hour = minute = second = None
    if fam in ('dateTime', 'date', 'gYearMonth', 'gYear'):
        neg = body.startswith('-')
        if neg:
            body = body[1:]
        i = 0
        while i < len(body) and body[i] in '0123456789':
            i += 1
        year = _int(body[:i])
        if neg:
            year = -year
        body = body[i:]
        if fam != 'gYear':
            month = _int(body[1:3])
            body = body[3:]
        if fam in ('dateTime', 'date'):
            day = _int(body[1:3])
            body = body[3:]
        if fam == 'dateTime':
            body = body[1:]
    elif fam == 'gMonthDay':
        month, day, body = _int(body[2:4]), _int(body[5:7]), ''
    elif fam == 'gDay':
        day, body = _int(body[3:5]), ''
    elif fam == 'gMonth':
        month, body = _int(body[2:4]), ''
    if fam in ('dateTime', 'time'):
        hour, minute = _int(body[0:2]), _int(body[3:5])
        sec = body[6:]
        ip, _, fp = sec.partition('.')
        second = Fraction(_int(ip)) + (Fraction(_int(fp), 10 ** len(fp)) if fp else 0)
    bce10 = year is not None and version == '1.0' and year < 0     # 1.0 does not say which BCE years are leap
    if day is not None and month is not None:
        if bce10 and month == 2 and day == 29:
            raise Open('leap years before the common era are not defined by XSD 1.0')
        if day > days_in_month(year, month):
            raise ValueError('day %d is not in month %d' % (day, month))
    if hour == 24:
        hour = 0
        if fam == 'dateTime':
            if bce10:
                raise Open('end-of-day in a BCE year of XSD 1.0')
            day += 1
            if day > days_in_month(year, month):
                day, month = 1, month + 1
                if month > 12:
                    month, year = 1, year + 1
    if year is not None and abs(year) > 9999:
        raise Open('year beyond the four digits every processor must support')
    return (year, month, day, hour, minute, second, tz)


def timeline(version, v):
    """Seconds from 0001-01-01T00:00:00 (local when tz is None), Fraction; absent fields filled."""
    year, month, day, hour, minute, second, tz = v
    if year is None:
        y = 1972
    elif version == '1.0' and year < 0:
        y = year + 1                       # 1 BCE is the year before 1 CE
    else:
        y = year
    m = month or 12
    d = day or 1
    t = Fraction(days_from_0001(y, m, d) * 86400 + (hour or 0) * 3600 + (minute or 0) * 60) + (second or 0)
    if tz is not None:
        t -= tz * 60
    return t


def datetime_cmp(version, a, b):
    """-1, 0, 1 or None (indeterminate) following XSD Part 2 section 3.2.7.4 / 1.1 D.2."""
    ta, tb = timeline(version, a), timeline(version, b)
    if (a[6] is None) == (b[6] is None):
        return (ta > tb) - (ta < tb)
    span = 14 * 3600
    if a[6] is None:                       # a is local: lies in [ta-14h, ta+14h]
        if ta + span < tb:
            return -1
        if ta - span > tb:
            return 1
        return None
    if ta < tb - span:
        return -1
    if ta > tb + span:
        return 1
    return None


_DUR = re.compile(r'(-?)P(?:([0-9]+)Y)?(?:([0-9]+)M)?(?:([0-9]+)D)?(?:T(?:([0-9]+)H)?(?:([0-9]+)M)?(?:([0-9.]+)S)?)?$')


def duration_value(text):
    """(months, seconds: Fraction); text must already match the lexical regex."""
    sign, y, mo, d, h, mi, s = _DUR.match(text).groups()
    months = _int(y or '0') * 12 + _int(mo or '0')
    sec = Fraction(_int(d or '0') * 86400 + _int(h or '0') * 3600 + _int(mi or '0') * 60)
    if s:
        sec += abs(decimal_value(s))
    if months > 119999 or sec > 31622400:
        raise Open('duration beyond the range every processor must support')
    if sign:
        months, sec = -months, -sec
    return (months, sec)


_DUR_REF = ((1696, 9), (1697, 2), (1903, 3), (1903, 7))


def _add_months(y, m, months):
    t = y * 12 + (m - 1) + months
    return t // 12, t % 12 + 1


def duration_cmp(a, b):
    """Partial order of XSD durations: compare after adding to the four reference dateTimes."""
    res = set()
    for y, m in _DUR_REF:
        ya, ma = _add_months(y, m, a[0])
        yb, mb = _add_months(y, m, b[0])
        ta = days_from_0001(ya, ma, 1) * 86400 + a[1]
        tb = days_from_0001(yb, mb, 1) * 86400 + b[1]
        res.add((ta > tb) - (ta < tb))
    if len(res) == 1:
        return res.pop()
    return None


_B64_ALPHA = 'ABCDEFGHIJKLMNOPQRSTUVWXYZabcdefghijklmnopqrstuvwxyz0123456789+/'


def base64_value(text):
    s = text.replace(' ', '')
    bits = 0
    nbits = 0
    out = bytearray()
    for ch in s:
        if ch == '=':
            break
        bits = (bits << 6) | _B64_ALPHA.index(ch)
        nbits += 6
        if nbits >= 8:
            nbits -= 8
            out.append((bits >> nbits) & 0xFF)
    return bytes(out)


def hex_value(text):
    return bytes(int(text[i:i + 2], 16) for i in range(0, len(text), 2))


def value(version, name, text, nsmap=None):
    """Reference value of a whitespace-normalised text that matches the lexical regex.
    Raises ValueError when the text is outside the value space (so the literal is invalid) and
    Open when the specification leaves the verdict to the implementation."""
    fam = family(name)
    if name in INT_RANGES:
        v = _int(text.lstrip('+-'))
        if text[0] == '-':
            v = -v
        lo, hi = INT_RANGES[name]
        if (lo is not None and v < lo) or (hi is not None and v > hi):
            raise ValueError('out of range')
        return v
    if fam == 'string' or fam == 'anyURI':
        return text
    if fam == 'boolean':
        return text in ('true', '1')
    if fam == 'decimal':
        return decimal_value(text)
    if fam == 'float':
        return float_value(version, text, 32)
    if fam == 'double':
        return float_value(version, text, 64)
    if fam == 'duration':
        return duration_value(text)
    if fam in DATE_FAMILIES:
        return datetime_value(version, fam, text)
    if fam == 'hexBinary':
        return hex_value(text)
    if fam == 'base64Binary':
        return base64_value(text)
    if fam == 'QName':
        prefix, _, local = text.rpartition(':')
        nsmap = nsmap or {}
        if prefix:
            if prefix not in nsmap:
                raise ValueError('prefix %r is not bound' % prefix)
            return (nsmap[prefix], local)
        return (nsmap.get('', ''), local)
    raise KeyError(name)


def judge(version, name, raw, nsmap=None):
    """('valid', normalised, value) | ('invalid', normalised, reason) | ('open', normalised, reason)."""
    text = normalize(white_space(name), raw)
    if not dfa(version, name).accepts(text):
        return ('invalid', text, 'not in the lexical space')
    try:
        return ('valid', text, value(version, name, text, nsmap))
    except Open as e:
        return ('open', text, str(e))
    except ValueError as e:
        return ('invalid', text, str(e))


def same_value(fam, a, b):
    if fam in ('float', 'double'):
        if a != a or b != b:
            return a != a and b != b
        return a == b and (a != 0 or str(a) == str(b))
    return a == b


# ------------------------------------------------------------------------------------------
# 5. derived types: restrictions (facets), lists, unions
# ------------------------------------------------------------------------------------------
# A type model is one of
#   ('builtin', name)
#   ('restrict', base_model, facets)      facets: tuple of (facet name, value); 'pattern' and
#                                         'enumeration' values are tuples (alternatives of one step)
#   ('list', item_model)
#   ('union', (member_model, ...))
LENGTH_FACETS = ('length', 'minLength', 'maxLength')
BOUND_FACETS = ('minInclusive', 'minExclusive', 'maxInclusive', 'maxExclusive')


def variety(t):
    while t[0] == 'restrict':
        t = t[1]
    return {'builtin': 'atomic', 'list': 'list', 'union': 'union'}[t[0]]


def root(t):
    """The builtin / list / union at the bottom of a restriction chain."""
    while t[0] == 'restrict':
        t = t[1]
    return t


def model_ws(t):
    """Whitespace handling of a model (the innermost whiteSpace facet wins over the builtin's)."""
    if t[0] == 'restrict':
        for k, v in t[2]:
            if k == 'whiteSpace':
                return v
        return model_ws(t[1])
    if t[0] == 'builtin':
        return white_space(t[1])
    if t[0] == 'list':
        return 'collapse'
    return None                                # union: each member normalises for itself


def values_equal(version, fam, a, b):
    if fam in ('float', 'double'):
        return (a != a and b != b) or a == b
    if fam in DATE_FAMILIES:
        return (a[6] is None) == (b[6] is None) and timeline(version, a) == timeline(version, b)
    return a == b


def compare(version, fam, a, b):
    """-1 / 0 / 1 / None (incomparable)."""
    if fam in DATE_FAMILIES:
        return datetime_cmp(version, a, b)
    if fam == 'duration':
        return duration_cmp(a, b)
    if fam in ('float', 'double') and (a != a or b != b):
        return None
    return (a > b) - (a < b)


def total_digits_ok(v, td):
    for f in range(td + 1):
        x = v * 10 ** f
        if x.denominator == 1:
            return abs(x) < 10 ** td
    return False


def length_of(fam, v):
    if fam in ('string', 'anyURI'):
        return len(v)
    if fam in ('hexBinary', 'base64Binary'):
        return len(v)
    return None                                # QName / NOTATION: length facets always hold


_PAT = {}


def pattern_matches(src, text):
    d = _PAT.get(src)
    if d is None:
        d = _PAT[src] = Dfa(src)
    return d.accepts(text)


def facet_violations(version, t, facets, norm, val, nsmap):
    """Names of the facets of one derivation step that (norm, val) violates; raises Open."""
    r = root(t)
    var = variety(t)
    fam = family(r[1]) if r[0] == 'builtin' else None
    bad = []
    for name, fv in facets:
        if name == 'whiteSpace':
            continue
        if name == 'pattern':
            if not any(pattern_matches(p, norm) for p in fv):
                bad.append(name)
        elif name == 'enumeration':
            hit = False
            for lit in fv:
                st = evaluate(version, t[1] if t[0] == 'restrict' else t, lit, nsmap)
                if st[0] == 'open':
                    raise Open('enumeration literal: ' + st[2])
                if st[0] != 'valid':
                    raise Open('enumeration literal %r is not valid for the base type' % lit)
                if equal_models(version, t, st[2], val):
                    hit = True
            if not hit:
                bad.append(name)
        elif name in LENGTH_FACETS:
            n = len(val) if var == 'list' else length_of(fam, val)
            if n is None:
                continue
            if (name == 'length' and n != fv) or (name == 'minLength' and n < fv) or (name == 'maxLength' and n > fv):
                bad.append(name)
        elif name in BOUND_FACETS:
            st = evaluate(version, t[1], fv, nsmap)
            if st[0] != 'valid':
                raise Open('bound literal %r is not valid for the base type' % fv)
            if fam in DATE_FAMILIES and val[0] is not None and version == '1.0' and (val[0] < 0) != (st[2][0] < 0):
                raise Open('ordering across the missing year zero of XSD 1.0')
            c = compare(version, fam if r[1] not in INT_RANGES else 'decimal', val, st[2])
            ok = {'minInclusive': c in (0, 1), 'minExclusive': c == 1, 'maxInclusive': c in (0, -1),
                  'maxExclusive': c == -1}[name]
            if name in ('minInclusive', 'maxInclusive') and c is None and fam in DATE_FAMILIES + ('duration',) \
                    and values_equal(version, fam, val, st[2]):
                ok = True
            if not ok:
                bad.append(name)
        elif name == 'totalDigits':
            if not total_digits_ok(Fraction(val), fv):
                bad.append(name)
        elif name == 'fractionDigits':
            if (Fraction(val) * 10 ** fv).denominator != 1:
                bad.append(name)
        elif name == 'explicitTimezone':
            if (fv == 'required' and val[6] is None) or (fv == 'prohibited' and val[6] is not None):
                bad.append(name)
        else:
            raise KeyError(name)
    return bad


def equal_models(version, t, a, b):
    r = root(t)
    if r[0] == 'list':
        return len(a) == len(b) and all(equal_models(version, r[1], x, y) for x, y in zip(a, b))
    if r[0] == 'union':
        # values of different member types are compared through their primitive families
        ta, tb = r[1][a[0]], r[1][b[0]]
        fa, fb = prim_family(ta), prim_family(tb)
        if fa != fb or fa is None:
            return False
        return equal_models(version, ta, a[1], b[1]) if variety(ta) != 'atomic' else values_equal(version, fa, a[1], b[1])
    fam = family(r[1])
    if r[1] in INT_RANGES:
        fam = 'decimal'
    return values_equal(version, fam, a, b)


def prim_family(t):
    r = root(t)
    if r[0] == 'builtin':
        return 'decimal' if r[1] in INT_RANGES else family(r[1])
    if r[0] == 'list':
        return ('list', prim_family(r[1]))
    return None


def evaluate(version, t, raw, nsmap=None):
    """('valid', normalised text, value) | ('invalid', normalised, reason) | ('open', normalised, reason)."""
    kind = t[0]
    if kind == 'builtin':
        return judge(version, t[1], raw, nsmap)
    if kind == 'list':
        norm = normalize('collapse', raw)
        vals = []
        for tok in (norm.split(' ') if norm else []):
            st = evaluate(version, t[1], tok, nsmap)
            if st[0] != 'valid':
                return (st[0], norm, 'item %r: %s' % (tok, st[2]))
            vals.append(st[2])
        return ('valid', norm, vals)
    if kind == 'union':
        opened = None
        for i, m in enumerate(t[1]):
            st = evaluate(version, m, raw, nsmap)
            if st[0] == 'valid':
                if opened:
                    return ('open', st[1], opened)
                return ('valid', st[1], (i, st[2]))
            if st[0] == 'open' and opened is None:
                opened = st[2]
        if opened:
            return ('open', raw, opened)
        return ('invalid', raw, 'no member type accepts the text')
    # restriction: normalise with the effective whitespace, evaluate the base, then the facets
    ws = model_ws(t)
    text = raw if ws is None else normalize(ws, raw)
    st = evaluate(version, t[1], text, nsmap)
    if st[0] != 'valid':
        return st
    norm, val = st[1], st[2]
    try:
        # facets of a union restriction see the text as the matching member normalised it
        bad = facet_violations(version, t, t[2], norm, val, nsmap)
    except Open as e:
        return ('open', norm, str(e))
    if bad:
        return ('invalid', norm, 'violates ' + ', '.join(bad))
    return ('valid', norm, val)
