"""Reference semantics of XSD identity constraints and ID/IDREF: node tables as plain dicts.

Nothing here knows about XML syntax or about the library.  A document is an abstract tree

    elem  = (label, items)                 an element that may carry constraint declarations
    item  = ('row', kind, cells, nsmap)    kind 'k' (selected by the unique/key) or 'f' (selected by the keyref);
                                           cells = tuple of lexical strings or None (field absent);
                                           nsmap = prefix -> URI in scope at the row (QName fields)
          | ('elem', elem)                 a nested element

and a declaration is  Decl(kind, ftype, key_on, ref_on): the unique/key is declared on every element
labelled `key_on`, selecting its 'k' child rows; the keyref (if any) on every element labelled `ref_on`,
selecting its 'f' child rows.

The five rejection conditions of the property statement, verbatim:
    (1) an ID value occurs twice
    (2) an IDREF has no matching ID
    (3) two selected nodes of a unique or key constraint have equal field tuples
    (4) a key-selected node lacks a field
    (5) a key reference whose fields are all present has no equal tuple in the referenced key
        within the constraint's scope element
Field values are compared in the value space of their declared types.
"""
from collections import namedtuple
from fractions import Fraction

Decl = namedtuple('Decl', 'kind ftype key_on ref_on')      # kind: 'unique' | 'key'

DUP, MISSING, DANGLING, ID_DUP, ID_DANGLING = 'duplicate', 'missing-field', 'dangling', 'id-duplicate', 'idref-dangling'


# --- value spaces -------------------------------------------------------------------------------

def collapse(s):
    return ' '.join(s.split())


def value(ftype, lex, nsmap):
    """Value-space image of one lexical form.  Raises ValueError outside the lexical space."""
    if ftype == 'string':
        return ('string', lex)                              # whiteSpace = preserve
    s = collapse(lex)
    if ftype == 'token':
        return ('string', s)
    if ftype in ('integer', 'decimal'):
        sign, digits = 1, s
        if digits[:1] in '+-':
            sign, digits = (-1 if digits[0] == '-' else 1), digits[1:]
        whole, dot, frac = digits.partition('.')
        if ftype == 'integer' and dot:
            raise ValueError(lex)
        if not (whole + frac) or not (whole + frac).isascii() or not (whole + frac).isdigit():
            raise ValueError(lex)
        return ('decimal', sign * Fraction(int(whole + frac), 10 ** len(frac)))
    if ftype == 'boolean':
        return ('boolean', {'true': True, '1': True, 'false': False, '0': False}[s])
    if ftype == 'QName':
        prefix, colon, local = s.rpartition(':')
        if colon:
            return ('QName', nsmap[prefix], local)
        return ('QName', nsmap.get('', ''), local)
    raise ValueError(ftype)


# --- unique / key / keyref -------------------------------------------------------------------------

class Result:
    def __init__(self):
        self.reasons = []          # (condition, detail)
        self.states = 0            # node-table states created (one per table + one per insertion)
        self.transitions = 0       # rows processed (insertions, refusals, look-ups)
        self.contested = False     # verdict depends on a rule of table propagation the statement leaves open

    def conditions(self):
        return sorted({r for r, _ in self.reasons})


def _on(label, where):
    """`where` is one label or a tuple of labels (a constraint carried by several element declarations)."""
    return label == where if isinstance(where, str) or where is None else label in where


def evaluate(tree, decl, drop_conflicts, inherit=True):
    """Walks the tree bottom-up building node tables.  `drop_conflicts`: whether a tuple present in the
    propagated tables of two different children is removed from the parent's table (XSD Structures 3.11.5)
    or kept (the plain reading of 'within the constraint's scope element').  `inherit`: whether an element that
    builds its own table for the key also sees the tables propagated from its descendants (3.11.5) or only
    its own (the other reading of 'within the scope element' for a scope element nested in itself)."""
    res = Result()

    def visit(elem):
        label, items = elem
        propagated, seen_in = {}, {}
        for item in items:
            if item[0] == 'elem':
                sub = visit(item[1])
                for tup in sub:
                    seen_in[tup] = seen_in.get(tup, 0) + 1
                    propagated[tup] = True
        if drop_conflicts:
            for tup, n in seen_in.items():
                if n > 1:
                    del propagated[tup]
        table = dict(propagated)
        if _on(label, decl.key_on):
            if not inherit:
                table = {}
            own = {}
            res.states += 1
            for item in items:
                if item[0] != 'row' or item[1] != 'k':
                    continue
                res.transitions += 1
                _, _, cells, nsmap = item
                if any(c is None for c in cells):
                    if decl.kind == 'key':
                        res.reasons.append((MISSING, cells))                      # condition (4)
                    continue                                                       # not in the qualified node set
                tup = tuple(value(decl.ftype, c, nsmap) for c in cells)
                if tup in own:
                    res.reasons.append((DUP, cells))                              # condition (3)
                else:
                    own[tup] = item
                    res.states += 1
            table.update(own)                                                      # own entries win over propagated
        if _on(label, decl.ref_on):
            for item in items:
                if item[0] != 'row' or item[1] != 'f':
                    continue
                res.transitions += 1
                _, _, cells, nsmap = item
                if any(c is None for c in cells):
                    continue                                                       # only complete references are checked
                tup = tuple(value(decl.ftype, c, nsmap) for c in cells)
                if tup not in table:
                    res.reasons.append((DANGLING, cells))                         # condition (5)
        return table

    visit(tree)
    return res


def judge(tree, decl):
    """Result under the specification's propagation rule; .contested when the plain reading differs."""
    a = evaluate(tree, decl, True)
    others = [evaluate(tree, decl, False), evaluate(tree, decl, True, False)]
    a.contested = any(bool(a.reasons) != bool(b.reasons) for b in others)
    return a


# --- XPath default namespace (XSD 1.1) ---------------------------------------------------------------

def effective_default_namespace(own, inherited, target_namespace, default_xmlns):
    """Namespace of unprefixed element names in a selector / field XPath: the component's own
    xpathDefaultNamespace if present, else the one of <xs:schema>, else none ('')."""
    v = own if own is not None else inherited
    if v is None or v == '##local':
        return ''
    if v == '##targetNamespace':
        return target_namespace
    if v == '##defaultNamespace':
        return default_xmlns or ''
    return v


def restrict(tree, selected, fields_found):
    """The document as the constraint sees it: rows the selector does not match disappear, cells whose field
    path matches nothing are absent."""
    label, items = tree
    out = []
    for item in items:
        if item[0] == 'elem':
            out.append(('elem', restrict(item[1], selected, fields_found)))
        elif selected:
            _, kind, cells, nsmap = item
            out.append(('row', kind, tuple(c if ok else None for c, ok in zip(cells, fields_found)), nsmap))
    return (label, out)


def hoist(tree):
    """The rows of the whole subtree as rows of the top element: what a selector like m/k or .//k sees from it
    (the instance tree decides, whatever the declared types are)."""
    label, items = tree
    rows = []

    def walk(its):
        for item in its:
            if item[0] == 'elem':
                walk(item[1][1])
            else:
                rows.append(item)
    walk(items)
    return (label, rows)


# --- ID / IDREF / IDREFS ----------------------------------------------------------------------------

def judge_ids(occurrences, version):
    """occurrences: list of (what, owner, lexical) with what in 'ID' | 'IDREF' | 'IDREFS'; owner identifies the
    element the value is bound to.  Returns a Result."""
    res = Result()
    table = {}
    res.states += 1
    for what, owner, lex in occurrences:
        if what != 'ID':
            continue
        res.transitions += 1
        v = collapse(lex)
        if v in table:
            if owner in table[v] and version == '1.1':
                res.contested = True          # 1.1 binds both to one element; the statement says 'occurs twice'
            else:
                res.reasons.append((ID_DUP, v))                                       # condition (1)
            table[v].append(owner)
        else:
            table[v] = [owner]
            res.states += 1
    for what, owner, lex in occurrences:
        if what == 'ID':
            continue
        for v in (collapse(lex).split(' ') if what == 'IDREFS' else [collapse(lex)]):
            res.transitions += 1
            if v not in table:
                res.reasons.append((ID_DANGLING, v))                                  # condition (2)
    if res.reasons:
        res.contested = False
    return res
