"""Reference semantics for C07: dynamic typing, substitution groups, nil, fixed, type alternatives.

Plain Python over a tiny type graph; transcribed from XML Schema Part 1 (1.0 2nd ed. / 1.1):
    cos-ct-derived-ok   Type Derivation OK (Complex)            3.4.6
    cos-st-derived-ok   Type Derivation OK (Simple)             3.14.6 / 3.16.6
    cos-equiv-derived-ok Substitution Group OK (Transitive)      3.3.6
    cvc-elt             Element Locally Valid (Element)         3.3.4
    cvc-type / cvc-complex-type (only for the content languages below)
    XSD 1.1 3.12.4      type conditionally selected by a type table

Data:
    graph   {name: TypeDef}     always contains xs:anyType, xs:anySimpleType, xs:decimal
    elems   {name: ElemDecl}    global element declarations
Content languages of the alphabet (enough to tell the governing type apart):
    ('eo', omin, omax, exts, has_k)  children = 'o' * k (omin <= k <= omax) followed by exactly `exts`, no text;
                                optional attribute 'k' when has_k
    ('sc', minincl, req, has_k) xs:decimal text >= minincl (None: unbounded), required attributes `req`,
                                optional attribute 'k' when has_k
    ('st', minincl)             as 'sc' but no attributes at all
    ('any',)                    xs:anyType
No name of the library under test appears here.
"""
import re
from decimal import Decimal

EXT, RES, SUB = 'extension', 'restriction', 'substitution'
ANY, ANYSIMPLE, DECIMAL, ERROR = 'xs:anyType', 'xs:anySimpleType', 'xs:decimal', 'xs:error'
STATS = [0, 0]          # [derivation judgements visited (states), rule clauses evaluated (transitions)]


def _s(n=1):
    STATS[0] += n


def _t(n=1):
    STATS[1] += n


class TypeDef:
    __slots__ = ('name', 'complex', 'base', 'method', 'abstract', 'block', 'content')

    def __init__(self, name, complex_, base, method, abstract=False, block=(), content=('any',)):
        self.name, self.complex, self.base, self.method = name, complex_, base, method
        self.abstract, self.block, self.content = abstract, frozenset(block), content


class ElemDecl:
    __slots__ = ('name', 'type', 'abstract', 'nillable', 'fixed', 'block', 'affiliation', 'alternatives')

    def __init__(self, name, type_, abstract=False, nillable=False, fixed=None, block=(), affiliation=None,
                 alternatives=()):
        self.name, self.type, self.abstract, self.nillable, self.fixed = name, type_, abstract, nillable, fixed
        self.block, self.affiliation, self.alternatives = frozenset(block), affiliation, tuple(alternatives)


def builtins():
    return {
        ANY: TypeDef(ANY, True, None, RES, content=('any',)),
        ANYSIMPLE: TypeDef(ANYSIMPLE, False, ANY, RES, content=('st', None)),
        DECIMAL: TypeDef(DECIMAL, False, ANYSIMPLE, RES, content=('st', None)),
    }


# --- type derivation -------------------------------------------------------------------------

def ct_derived_ok(g, d, b, subset):
    """cos-ct-derived-ok: complex type d validly derived from b given subset of {extension, restriction}."""
    _s()
    D = g[d]
    _t()
    if d != b and D.method in subset:                       # clause 1
        return False
    _t()
    if d == b:                                              # 2.1
        return True
    _t()
    if D.base == b:                                         # 2.2
        return True
    _t()
    if D.base is None or D.base == ANY:                     # 2.3.1
        return False
    _t()
    if g[D.base].complex:                                   # 2.3.2.1
        return ct_derived_ok(g, D.base, b, subset)
    return st_derived_ok(g, D.base, b, subset)              # 2.3.2.2


def st_derived_ok(g, d, b, subset):
    """cos-st-derived-ok: simple type d validly derived from b given subset.  The alphabet has no
    list/union varieties and no `final`, so clauses 2.2.3 / 2.2.4 and the {final} half of 2.1 cannot apply."""
    _s()
    _t()
    if d == b:                                              # clause 1
        return True
    D = g[d]
    _t()
    if RES in subset:                                       # 2.1
        return False
    _t()
    if D.base == b:                                         # 2.2.1
        return True
    _t()
    if D.base is not None and D.base != ANY and st_derived_ok(g, D.base, b, subset):   # 2.2.2
        return True
    return False


def derived_ok(g, d, b, subset):
    return ct_derived_ok(g, d, b, subset) if g[d].complex else st_derived_ok(g, d, b, subset)


def substitutable_type(g, t, s, keywords):
    """cvc-elt 4.3 (1.0) / 'validly substitutable ... subject to blocking keywords' (1.1): instance type t
    for declared/selected type s given the element's {disallowed substitutions}."""
    subset = set(keywords) & {EXT, RES}
    if g[t].complex and g[s].complex:
        subset |= g[s].block
    return derived_ok(g, t, s, subset)


def derivation_chain(g, d, b):
    """[(type name, method)] for each step from d up to (not including) b; None if b is not an ancestor-or-self."""
    chain = []
    while d != b:
        if d is None or g[d].base is None:
            return None
        chain.append((d, g[d].method))
        d = g[d].base
    return chain


# --- substitution groups ---------------------------------------------------------------------

def subst_derived_ok(elems, g, d, c, constraint, intermediates=True):
    """cos-equiv-derived-ok: element d validly substitutable for element c subject to blocking constraint."""
    _s()
    _t()
    if d == c:                                              # clause 1
        return True
    _t()
    if SUB in constraint:                                   # 2.1
        return False
    _t()
    e, hops = elems[d], 0                                   # 2.2 chain of affiliations
    while e.affiliation is not None and e.affiliation != c and hops < 64:
        e, hops = elems[e.affiliation], hops + 1
    if e.affiliation != c:
        return False
    _t()
    chain = derivation_chain(g, elems[d].type, elems[c].type)          # 2.3
    if chain is None:
        return False
    methods = {m for _, m in chain}
    blocking = set(constraint)
    if g[elems[c].type].complex:
        blocking |= g[elems[c].type].block
    if intermediates:
        for name, _ in chain[1:]:
            if g[name].complex:
                blocking |= g[name].block
    return not (methods & blocking)


def substitution_group(elems, g, head, intermediates=True):
    """Actual substitution group of `head` (names), XSD 3.3.6: potential group closed under affiliation, members
    non-abstract and validly substitutable subject to head's {disallowed substitutions}."""
    potential = {head}
    grew = True
    while grew:
        grew = False
        for e in elems.values():
            if e.affiliation in potential and e.name not in potential:
                potential.add(e.name)
                grew = True
    out = set()
    for name in sorted(potential):
        _t()
        if not elems[name].abstract and subst_derived_ok(elems, g, name, head, elems[head].block, intermediates):
            out.add(name)
    return out


# --- lexical / value space -------------------------------------------------------------------

_DEC = re.compile(r'[+-]?(\d+(\.\d*)?|\.\d+)\Z')


def collapse_ws(text):
    return ' '.join((text or '').split())


def decimal_value(text):
    """Value of an xs:decimal literal after whiteSpace=collapse, or None."""
    lex = collapse_ws(text)
    if not _DEC.match(lex) or not lex.isascii():
        return None
    return Decimal(lex)


def boolean_value(text):
    lex = collapse_ws(text)
    if lex in ('true', '1'):
        return True
    if lex in ('false', '0'):
        return False
    return None


# --- type alternatives (XSD 1.1) -------------------------------------------------------------

def test_holds(test, attrs):
    """Tests of the alphabet: ('eq', name, literal) is @name='literal'; ('has', name) is @name."""
    _t()
    if test[0] == 'eq':
        return attrs.get(test[1]) == test[2]
    if test[0] == 'has':
        return test[1] in attrs
    raise ValueError(test)


def selected_type(decl, attrs):
    """The type conditionally selected by the type table: first alternative whose test is true, else the default
    type definition (a final alternative without test, or the declared type)."""
    for test, tname in decl.alternatives:
        if test is None or test_holds(test, attrs):
            return tname
    return decl.type


# --- content of the small alphabet -----------------------------------------------------------

def content_ok(g, tname, inst, nilled, text):
    """cvc-type / cvc-complex-type for the content languages of the alphabet.  `text` is the character content
    to judge (the fixed value when cvc-elt 5.1 applies)."""
    c = g[tname].content
    attrs = inst['attrs']
    _t()
    if c[0] == 'any':
        return True
    if c[0] == 'st':
        if attrs or inst['children']:                       # cvc-type 3.1.1, 3.1.2
            return False
        if nilled:
            return True
        v = decimal_value(text)                             # 3.1.3
        return v is not None and (c[1] is None or v >= c[1])
    if c[0] == 'sc':
        _, minincl, req, has_k = c
        allowed = set(req) | ({'k'} if has_k else set())
        if any(a not in allowed for a in attrs) or any(a not in attrs for a in req):
            return False                                    # cvc-complex-type 3, 4
        if nilled:
            return True                                     # clause 1 does not apply when nilled
        if inst['children']:                                # 2.2
            return False
        v = decimal_value(text)
        return v is not None and (minincl is None or v >= minincl)
    if c[0] == 'eo':
        _, omin, omax, exts, has_k = c
        if any(not (a == 'k' and has_k) for a in attrs):
            return False
        if nilled:
            return True
        if text and text.strip():                           # 2.3 element-only: no non-whitespace characters
            return False
        kids = list(inst['children'])
        k = 0
        while k < len(kids) and kids[k] == 'o':
            k += 1
        return omin <= k <= omax and kids[k:] == list(exts)
    raise ValueError(c)


def valid_default(g, tname, value):
    """cos-valid-default for the alphabet: the value must be valid for a simple type or a simple content."""
    c = g[tname].content
    if c[0] in ('st', 'sc'):
        v = decimal_value(value)
        return v is not None and (c[1] is None or v >= c[1])
    return False


# --- cvc-elt ---------------------------------------------------------------------------------

def resolve_type_name(lexical, nsmap, target_ns, g):
    """QName resolution (Instance): returns (type name | None, reason)."""
    lex = collapse_ws(lexical)
    if not re.match(r'([A-Za-z_][\w.-]*:)?[A-Za-z_][\w.-]*\Z', lex):
        return None, 'xsi:type-not-a-QName'
    prefix, _, local = lex.rpartition(':')
    if prefix not in nsmap:
        if prefix:
            return None, 'xsi:type-prefix-unbound'
        ns = ''
    else:
        ns = nsmap[prefix]
    if ns == target_ns and local in g:
        return local, ''
    if ns == 'http://www.w3.org/2001/XMLSchema' and 'xs:' + local in g:
        return 'xs:' + local, ''
    return None, 'xsi:type-unknown'


def cvc_elt(elems, g, decl, inst, nsmap, target_ns, version, extra_block=(), block_from_declared=False):
    """Element Locally Valid (Element).  inst = {'xsi_type': str|None, 'nil': str|None, 'attrs': {..},
    'children': [..], 'text': str}.  Returns (valid, reason).  `extra_block` adds blocking keywords to clause 4.3
    (used only to detect the contested reading in which a head's block also limits xsi:type on a member);
    `block_from_declared` is the other contested reading, for XSD 1.1 alternatives: derivation from the selected
    type, blocking judged on the whole chain up to the declared type."""
    _s()
    _t()
    if decl.abstract:                                       # clause 2
        return False, 'abstract-element'
    empty = not inst['children'] and not inst['text']
    nilled = False
    _t()
    if inst['nil'] is not None:                             # clause 3
        if not decl.nillable:
            return False, 'nil-on-non-nillable'             # 3.1
        b = boolean_value(inst['nil'])
        if b is None:
            return False, 'nil-not-boolean'
        if b:
            if not empty:
                return False, 'nil-with-content'            # 3.2.1
            if decl.fixed is not None:
                return False, 'nil-with-fixed'              # 3.2.2
            nilled = True
    _t()
    governing = selected_type(decl, inst['attrs']) if version == '1.1' else decl.type
    if governing == ERROR:
        # xs:error has an empty value space; a nilled element of that type is a corner the rules leave open
        return False, ('xs:error-selected-nilled' if nilled and inst['xsi_type'] is None else 'xs:error-selected')
    _t()
    if inst['xsi_type'] is not None:                        # clause 4
        t, why = resolve_type_name(inst['xsi_type'], nsmap, target_ns, g)
        if t is None:
            return False, why                               # 4.1 / 4.2
        keywords = set(decl.block) | set(extra_block)
        if block_from_declared:
            ok = derived_ok(g, t, governing, set()) and substitutable_type(g, t, decl.type, keywords)
        else:
            ok = substitutable_type(g, t, governing, keywords)
        if not ok:
            chain = derivation_chain(g, t, governing)
            return False, ('xsi:type-blocked' if chain is not None else 'xsi:type-not-derived')   # 4.3
        governing = t
    _t()
    if g[governing].abstract:                               # cvc-type 2 / cvc-complex-type: type not abstract
        return False, 'abstract-type'
    _t()
    if decl.fixed is not None and empty and not nilled:     # 5.1
        if inst['xsi_type'] is not None and not valid_default(g, governing, decl.fixed):
            return False, 'fixed-not-valid-for-xsi:type'    # 5.1.1
        if not content_ok(g, governing, inst, False, decl.fixed):
            return False, 'fixed-value-content-invalid'     # 5.1.2
        return True, 'valid-fixed-supplied'
    if not content_ok(g, governing, inst, nilled, inst['text']):   # 5.2.1
        return False, 'content-invalid-for-governing-type'
    _t()
    if decl.fixed is not None and not nilled:               # 5.2.2
        if inst['children']:
            return False, 'fixed-with-children'             # 5.2.2.1
        if decimal_value(inst['text']) != decimal_value(decl.fixed):
            return False, 'fixed-value-mismatch'            # 5.2.2.2.2 (value space)
        return True, 'valid-fixed-equal'
    return True, ('valid-nilled' if nilled else 'valid')


def assess(elems, g, position, name, inst, nsmap, target_ns, version, intermediates=True, head_block_on_member=False,
           block_from_declared=False):
    """position ('root',) : the element is validated against the global declaration of its name;
    position ('child', head): the element stands where the particle `head` is expected: it must be head itself or
    a member of head's actual substitution group, and is then validated against its own declaration."""
    extra = ()
    if position[0] == 'root':
        if name not in elems:
            return False, 'no-declaration'
    else:
        head = position[1]
        if name != head:
            if name not in elems or name not in substitution_group(elems, g, head, intermediates):
                return False, 'not-substitutable'
            if head_block_on_member:
                extra = set(elems[head].block) | (g[elems[head].type].block if g[elems[head].type].complex else set())
    return cvc_elt(elems, g, elems[name], inst, nsmap, target_ns, version, extra, block_from_declared)
