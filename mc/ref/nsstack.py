"""Reference model for C17: XML namespace scoping as a list of dicts.

One frame per open element (frame 0 is the user-supplied map).  A frame maps prefix -> URI,
the default namespace is the prefix '' and xmlns="" (un-declaration) is the entry '' -> ''.
No code is shared with xmlschema or elementpath.
"""


class NsStack:
    def __init__(self, base=None):
        self.frames = [dict(base or {})]

    def push(self, decls):
        """decls: iterable of (prefix, uri) pairs or a dict."""
        self.frames.append(dict(decls or ()))

    def pop(self):
        if len(self.frames) == 1:
            raise IndexError('pop of the base frame')
        return self.frames.pop()

    def depth(self):
        return len(self.frames) - 1

    def lookup(self, prefix):
        """URI bound to the prefix by the innermost frame declaring it; None when unbound."""
        for frame in reversed(self.frames):
            if prefix in frame:
                return frame[prefix] or None
        return None

    def in_scope(self):
        """The in-scope map; an un-declared default namespace is simply absent."""
        out = {}
        for frame in self.frames:
            out.update(frame)
        return {k: v for k, v in out.items() if v}

    def nameable(self, uri):
        """Can an element with namespace `uri` ('' = none) be written at this point?"""
        scope = self.in_scope()
        if not uri:
            return '' not in scope
        return uri in scope.values()

    def attr_nameable(self, uri):
        if not uri:
            return True
        return any(k and v == uri for k, v in self.in_scope().items())

    # --- resolution of a lexical name to an expanded name '{uri}local' / 'local' ---------

    def resolve(self, name, attribute=False, default_for_attributes=False):
        """Expanded name denoted by `name` in the current scope, or None if a prefix is unbound.

        Names already in the expanded form '{uri}local' denote themselves.  Unprefixed element
        names take the default namespace; unprefixed attribute names take none (Namespaces in
        XML, 6.2) unless default_for_attributes is set.
        """
        if name[:1] == '{':
            return name
        if ':' in name:
            prefix, local = name.split(':', 1)
            uri = self.lookup(prefix)
            if uri is None:
                return None
            return '{%s}%s' % (uri, local)
        if attribute and not default_for_attributes:
            return name
        uri = self.lookup('')
        return '{%s}%s' % (uri, name) if uri else name


def expanded(uri, local):
    return '{%s}%s' % (uri, local) if uri else local


def split(name):
    """'{uri}local' -> (uri, local); 'local' -> ('', local)."""
    if name[:1] == '{':
        uri, local = name[1:].split('}', 1)
        return uri, local
    return '', name
