"""Determinism of XSD content models by the position-automaton (Glushkov) construction.

Occurrence ranges are unrolled (p{m,n} -> p^m (p (p ...)?)? ; p{m,*} -> p^m p*), so counters are
explicit and `(a{1,2}){1,2}`-like cases follow from the definition.  Each position remembers the
original particle (its path in the model tree).  Unique Particle Attribution is violated iff some
`first` set or some `follow(q)` holds two positions of DIFFERENT original particles whose symbol
sets intersect ("two different particles": copies of one particle are that particle).
Under XSD 1.1 a conflict between an element particle and a wildcard is not an error.
Element Declarations Consistent: two element leaves that share a symbol must have the same type.
"""


class _Ctx:
    def __init__(self):
        self.pos = []          # position -> (particle id, kind, syms)
        self.follow = {}


def _leafpos(ctx, n, pid):
    ctx.pos.append((pid, n[0], n[3], n[4]))
    p = len(ctx.pos) - 1
    ctx.follow[p] = set()
    return p


def _once(ctx, n, pid):
    """(nullable, first, last) of one occurrence of node n; creates fresh positions."""
    kind = n[0]
    if kind in ('el', 'any'):
        p = _leafpos(ctx, n, pid)
        return False, {p}, {p}
    if kind == 'seq':
        nullable, first, last = True, set(), set()
        for i, c in enumerate(n[3]):
            cn, cf, cl = _node(ctx, c, pid + (i,))
            for q in last:
                ctx.follow[q] |= cf
            if nullable:
                first = first | cf
            last = (last | cl) if cn else set(cl)
            nullable = nullable and cn
        return nullable, first, last
    if kind == 'cho':
        nullable, first, last = False, set(), set()
        for i, c in enumerate(n[3]):
            cn, cf, cl = _node(ctx, c, pid + (i,))
            nullable = nullable or cn
            first |= cf
            last |= cl
        if not n[3]:
            nullable = True
        return nullable, first, last
    if kind == 'all':
        # every child may follow every child (including itself while under its maximum): over-approximated by
        # star-like follow among distinct children; children of a valid all group have pairwise disjoint symbols
        # unless the model is ambiguous, which is exactly what the conflict test then reports.
        infos = []
        for i, c in enumerate(n[3]):
            infos.append(_node(ctx, c, pid + (i,)))
        first, last = set(), set()
        for cn, cf, cl in infos:
            first |= cf
            last |= cl
        for i, (cn, cf, cl) in enumerate(infos):
            for j, (dn, df, dl) in enumerate(infos):
                if i != j:
                    for q in cl:
                        ctx.follow[q] |= df
        return all(c[1] == 0 for c in n[3]), first, last
    raise ValueError(kind)


def _node(ctx, n, pid):
    """(nullable, first, last) of node n with its occurrence range unrolled."""
    mn, mx = n[1], n[2]
    if mx == 0:
        return True, set(), set()
    nullable, first, last = True, set(), set()

    def cat(a, b):
        an, af, al = a
        bn, bf, bl = b
        for q in al:
            ctx.follow[q] |= bf
        return (an and bn, (af | bf) if an else set(af), (al | bl) if bn else set(bl))
    acc = (True, set(), set())
    for _ in range(mn):
        acc = cat(acc, _once(ctx, n, pid))
    if mx is None:
        sn, sf, sl = _once(ctx, n, pid)
        for q in sl:
            ctx.follow[q] |= sf
        acc = cat(acc, (True, sf, sl))
    else:
        # (p (p (p)?)?)?  built inside-out is awkward with fresh positions; build left to right:
        # optional tail T_k = (p T_{k+1})?  -> first(T_k) = first(p); last = last(p) U (last(T_{k+1}) ...)
        tail = None
        copies = [_once(ctx, n, pid) for _ in range(mx - mn)]
        for c in reversed(copies):
            if tail is None:
                t = c
            else:
                t = cat(c, tail)
            tail = (True, t[1], t[2])
        if tail is not None:
            acc = cat(acc, tail)
    return acc


def analyse(model):
    """Returns (ctx, first, nullable)."""
    ctx = _Ctx()
    nullable, first, _last = _node(ctx, model, ())
    return ctx, first, nullable


def conflicts(model, version='1.0'):
    """List of (reason, particle_a, particle_b, symbols) conflicts; empty list = deterministic and consistent."""
    ctx, first, _ = analyse(model)
    out = []
    seen = set()

    def check(cands, where):
        cands = sorted(cands)
        for i, p in enumerate(cands):
            for q in cands[i + 1:]:
                pa, ka, sa, la = ctx.pos[p]
                pb, kb, sb, lb = ctx.pos[q]
                if pa == pb:
                    continue
                common = sa & sb
                if not common:
                    continue
                if version == '1.1' and ka != kb:
                    continue                      # element vs wildcard: the element wins
                key = (min(pa, pb), max(pa, pb))
                if key in seen:
                    continue
                seen.add(key)
                out.append(('UPA', la, lb, sorted(common), where))
    check(first, 'first')
    for p, fs in ctx.follow.items():
        check(fs, 'follow')
    # EDC: same symbol, different declared type
    els = {}
    for pid, kind, syms, label in ctx.pos:
        if kind == 'el':
            for s in syms:
                els.setdefault(s, set()).add(label)
    for s, labels in els.items():
        # an element without a type attribute has the type xs:anyType
        types = set({'untyped': 'anyType'}.get(t, t) for t in (l.split(':', 1)[1] if ':' in l else '' for l in labels))
        if len(types) > 1:
            out.append(('EDC', s, sorted(labels), [s], 'model'))
    return out, len(ctx.pos), sum(len(v) for v in ctx.follow.values())


def is_deterministic(model, version='1.0'):
    return not conflicts(model, version)[0]
