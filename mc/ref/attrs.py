"""Reference semantics of attribute-set validation (property C03): the statement transcribed
with Python sets and dicts.  No xmlschema / elementpath code is used here.

Names are strings 'local' (no namespace) or 'NS:local' with NS one of the tokens
T (target namespace), N1 (imported namespace), N2 (namespace unknown to the schema),
XML (the xml namespace), XSI (the schema-instance namespace).

A declaration (one <xs:attribute> inside the complex type or inside a referenced
attribute group) is a dict
    {'local': 'p', 'form': None (attribute absent)|'unqualified'|'qualified', 'ref': None | global name,
     'use': 'optional'|'required'|'prohibited', 'con': None | ('default', lex) | ('fixed', lex),
     'type': 'string'|'int'|'boolean'|'lang' (ignored for refs)}
The wildcard is None or (constraint, processContents) with the constraint in the
representation of mc/ref/wild.py, whose ns_allowed() gives the set semantics of the
namespace constraint.  Global attribute declarations are a dict name -> (type, con).
afd is the attributeFormDefault of the schema document: None (absent), 'qualified' or
'unqualified'; a local declaration is qualified iff its form, else afd, is 'qualified'.
"""
import re

from mc.ref import wild

INT = re.compile(r'[+-]?[0-9]+\Z')
LANG = re.compile(r'[a-zA-Z]{1,8}(-[a-zA-Z0-9]{1,8})*\Z')
BOOL = {'true': True, '1': True, 'false': False, '0': False}
WS = ' \t\n\r'
XSI_BUILTIN = {'XSI:type', 'XSI:nil', 'XSI:schemaLocation', 'XSI:noNamespaceSchemaLocation'}
NOVALUE = ('no value demanded',)


def value_of(typ, lex):
    """(lexically valid, value in the value space)."""
    if typ == 'string':
        return True, lex
    s = ' '.join(lex.split())            # whiteSpace = collapse for every other type used here
    if typ == 'int':
        if INT.match(s) and -2 ** 31 <= int(s) < 2 ** 31:
            return True, int(s)
        return False, None
    if typ == 'boolean':
        return (True, BOOL[s]) if s in BOOL else (False, None)
    if typ == 'lang':                     # the type of xml:lang: xs:language or the empty string
        return (True, s) if s == '' or LANG.match(s) else (False, None)
    raise ValueError(typ)


def ns_token(name):
    return name.split(':')[0] if ':' in name else 'L'


def effective_name(d, afd=None):
    if d['ref']:
        return d['ref']
    form = d['form'] or afd or 'unqualified'
    return 'T:' + d['local'] if form == 'qualified' else d['local']


class Model:
    """The attribute uses, prohibitions and wildcard of one complex type."""

    def __init__(self, decls, wildcard, globals_, afd=None):
        self.uses = {}            # name -> (use, type, con)   use in optional|required
        self.prohibited = set()
        self.wildcard = wildcard
        self.globals = dict(globals_)
        self.judgements = 0       # individual attribute judgements made (evidence: transitions)
        for d in decls:
            name = effective_name(d, afd)
            if name in self.uses or name in self.prohibited:
                raise ValueError('duplicate declaration of %s' % name)
            if d['use'] == 'prohibited':
                self.prohibited.add(name)      # a prohibited declaration contributes no attribute use
                continue
            if d['ref']:
                typ, gcon = self.globals[d['ref']]
                con = d['con'] or gcon
            else:
                typ, con = d['type'], d['con']
            self.uses[name] = (d['use'], typ, con)

    # -- validity ---------------------------------------------------------------------------
    def wildcard_admits(self, name):
        return self.wildcard is not None and wild.ns_allowed(self.wildcard[0], ns_token(name))

    def _against(self, typ, con, lex):
        ok, val = value_of(typ, lex)
        if not ok:
            return False, 'bad-lexical', None
        if con is not None and con[0] == 'fixed' and val != value_of(typ, con[1])[1]:
            return False, 'fixed-mismatch', None
        return True, 'ok', val

    def judge(self, name, lex):
        """One present attribute: (valid, kind, decoded value or NOVALUE)."""
        self.judgements += 1
        if name in self.uses:
            _, typ, con = self.uses[name]
            ok, why, val = self._against(typ, con, lex)
            return ok, 'declared-' + why, val if ok else NOVALUE
        if name in XSI_BUILTIN:
            return True, 'xsi-builtin', NOVALUE
        if not self.wildcard_admits(name):
            if name in self.prohibited:
                return False, 'prohibited', NOVALUE
            return False, ('not-admitted' if self.wildcard else 'undeclared'), NOVALUE
        pc = self.wildcard[1]
        if pc == 'skip':
            return True, 'wild-skip', NOVALUE
        if name in self.globals:
            typ, con = self.globals[name]
            ok, why, val = self._against(typ, con, lex)
            return ok, 'wild-%s-global-%s' % (pc, why), val if ok else NOVALUE
        if pc == 'lax':
            return True, 'wild-lax-nodecl', lex
        return False, 'wild-strict-nodecl', NOVALUE

    def validate(self, present):
        """present: dict name -> lexical value.  Returns (valid, {name: (ok, kind, value)}, missing)."""
        missing = []
        for name, (use, _, _) in self.uses.items():
            if name not in present:
                self.judgements += 1
                if use == 'required':
                    missing.append(name)
        judged = {name: self.judge(name, lex) for name, lex in present.items()}
        return not missing and all(j[0] for j in judged.values()), judged, missing

    # -- decoded data -----------------------------------------------------------------------
    def expected_data(self, present, judged, use_defaults, fill_missing):
        """(must, may): must = dict name -> value that has to be reported (NOVALUE: any value),
        may = names that may additionally appear.  Everything else must not appear."""
        must, may = {}, set()
        for name in present:
            ok, kind, val = judged[name]
            if ok and kind not in ('wild-skip', 'xsi-builtin'):
                must[name] = val
            else:
                may.add(name)             # invalid, skipped or xsi attributes: the statement is silent
        for name, (_, typ, con) in self.uses.items():
            if name in present:
                continue
            self.judgements += 1
            if con is not None and con[0] == 'fixed':
                must[name] = value_of(typ, con[1])[1]
            elif con is not None and use_defaults:
                must[name] = value_of(typ, con[1])[1]
            elif fill_missing:
                must[name] = None
        if fill_missing:
            may |= self.prohibited - set(present)
        return must, may
