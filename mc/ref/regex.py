"""Reference semantics of XSD content models as regular languages.

A content model is a tree of nodes

    ('el',  mn, mx, syms, label)        element leaf; syms = frozenset of concrete symbols it matches
                                        (one name, or the members of a substitution group)
    ('any', mn, mx, syms, label)        wildcard leaf; syms = the symbols of the alphabet it admits
    ('seq', mn, mx, children)           children = tuple of nodes
    ('cho', mn, mx, children)
    ('all', mn, mx, children)           children are leaves (count-vector semantics, XSD 1.1 3.8.4.1)

mx is None for unbounded.  The language is defined by structures section 3.8.4: a Thompson
NFA with occurrence ranges unrolled, then subset construction.  Nothing here comes from
xmlschema or elementpath.
"""
from collections import deque
from itertools import product


def is_leaf(n):
    return n[0] in ('el', 'any')


def show(n):
    mn, mx = n[1], n[2]
    if (mn, mx) == (1, 1):
        occ = ''
    elif (mn, mx) == (0, 1):
        occ = '?'
    elif (mn, mx) == (0, None):
        occ = '*'
    elif (mn, mx) == (1, None):
        occ = '+'
    else:
        occ = '{%d,%s}' % (mn, '*' if mx is None else mx)
    if is_leaf(n):
        return n[4] + occ
    sep = {'seq': ',', 'cho': '|', 'all': '&'}[n[0]]
    lead = sep if len(n[3]) == 1 and n[0] != 'seq' else ''     # a one-child choice is written (|a)
    return '(' + lead + sep.join(show(c) for c in n[3]) + ')' + occ


def size(n):
    return 1 if is_leaf(n) else 1 + sum(size(c) for c in n[3])


def letters(n):
    """Concrete symbols mentioned by element leaves."""
    if n[0] == 'el':
        return set(n[3])
    if n[0] == 'any':
        return set()
    out = set()
    for c in n[3]:
        out |= letters(c)
    return out


class NFA:
    __slots__ = ('n', 'eps', 'delta', 'wild', 'start', 'final')

    def __init__(self):
        self.n = 0
        self.eps = {}
        self.delta = {}
        self.wild = set()         # (p, sym, q) transitions contributed by wildcard leaves
        self.start = self.final = None

    def new(self):
        self.n += 1
        return self.n - 1

    def add_eps(self, p, q):
        self.eps.setdefault(p, set()).add(q)

    def add(self, p, sym, q, wild=False):
        self.delta.setdefault((p, sym), set()).add(q)
        if wild:
            self.wild.add((p, sym, q))


def _once(nfa, n, s):
    """Builds one occurrence of node n starting at state s; returns the end state."""
    kind = n[0]
    if kind in ('el', 'any'):
        t = nfa.new()
        for sym in n[3]:
            nfa.add(s, sym, t, wild=(kind == 'any'))
        return t
    if kind == 'seq':
        cur = s
        for c in n[3]:
            cur = _build(nfa, c, cur)
        return cur
    if kind == 'cho':
        t = nfa.new()
        for c in n[3]:
            b = nfa.new()
            nfa.add_eps(s, b)
            nfa.add_eps(_build(nfa, c, b), t)
        return t
    if kind == 'all':
        # count-vector automaton: each child leaf occurs between its min and max times, in any order.
        kids = n[3]
        caps = [c[2] if c[2] is not None else max(c[1], 1) for c in kids]     # unbounded: saturate at max(min,1)
        states = {}
        t = nfa.new()

        def st(vec):
            if vec not in states:
                states[vec] = nfa.new()
            return states[vec]
        zero = tuple(0 for _ in kids)
        nfa.add_eps(s, st(zero))
        for vec in product(*[range(cap + 1) for cap in caps]):
            q = st(vec)
            if all(vec[k] >= kids[k][1] for k in range(len(kids))):
                nfa.add_eps(q, t)
            for k, c in enumerate(kids):
                if c[2] is None:
                    nxt = min(vec[k] + 1, caps[k])
                elif vec[k] < c[2]:
                    nxt = vec[k] + 1
                else:
                    continue
                v2 = vec[:k] + (nxt,) + vec[k + 1:]
                for sym in c[3]:
                    # an element leaf has priority over a wildcard leaf for the same symbol
                    if c[0] == 'any' and any(sym in o[3] for o in kids if o[0] == 'el'):
                        continue
                    nfa.add(q, sym, st(v2), wild=(c[0] == 'any'))
        return t
    raise ValueError(kind)


def _build(nfa, n, s):
    """Builds node n with its occurrence range from state s; returns the end state."""
    mn, mx = n[1], n[2]
    if n[0] == 'all':
        # the children's own ranges are handled by the count vector; the group itself has {0,1} or {1,1}
        t = _once(nfa, n, s)
        if mn == 0:
            nfa.add_eps(s, t)
        return t
    cur = s
    for _ in range(mn):
        cur = _once(nfa, n, cur)
    if mx is None:
        # p*  :  loop state
        loop = nfa.new()
        nfa.add_eps(cur, loop)
        e = _once(nfa, n, loop)
        nfa.add_eps(e, loop)
        return loop
    t = nfa.new()
    nfa.add_eps(cur, t)
    for _ in range(mx - mn):
        cur = _once(nfa, n, cur)
        nfa.add_eps(cur, t)
    return t


def nfa_of(n):
    nfa = NFA()
    s = nfa.new()
    nfa.start = s
    nfa.final = _build(nfa, n, s)
    return nfa


class DFA:
    """Partial DFA: missing transition = dead."""
    __slots__ = ('start', 'accept', 'trans', 'nstates')

    def __init__(self, start, accept, trans, nstates):
        self.start, self.accept, self.trans, self.nstates = start, accept, trans, nstates

    def run(self, word):
        """Returns the list of states visited (None once dead)."""
        q = self.start
        out = [q]
        for sym in word:
            q = self.trans.get((q, sym)) if q is not None else None
            out.append(q)
        return out

    def accepts(self, word):
        q = self.run(word)[-1]
        return q is not None and q in self.accept


def _closure(nfa, states):
    stack = list(states)
    seen = set(states)
    while stack:
        p = stack.pop()
        for q in nfa.eps.get(p, ()):
            if q not in seen:
                seen.add(q)
                stack.append(q)
    return frozenset(seen)


def dfa_of(n, sigma, prefer_elements=False):
    """Subset construction.  With prefer_elements a symbol that an element particle can consume in the current
    state set is never given to a wildcard (the XSD 1.1 'element wins over a competing wildcard' rule read as a
    validation-time choice); the plain construction is the existential reading."""
    nfa = nfa_of(n)
    start = _closure(nfa, {nfa.start})
    ids = {start: 0}
    trans = {}
    accept = set()
    todo = deque([start])
    while todo:
        S = todo.popleft()
        if nfa.final in S:
            accept.add(ids[S])
        for sym in sigma:
            T = set()
            Tel = set()
            for p in S:
                for q in nfa.delta.get((p, sym), ()):
                    T.add(q)
                    if (p, sym, q) not in nfa.wild:
                        Tel.add(q)
            if prefer_elements and Tel:
                T = Tel
            if not T:
                continue
            T = _closure(nfa, T)
            if T not in ids:
                ids[T] = len(ids)
                todo.append(T)
            trans[(ids[S], sym)] = ids[T]
    # trim states from which no accepting state is reachable (so "dead" is uniform)
    rev = {}
    for (p, _), q in trans.items():
        rev.setdefault(q, set()).add(p)
    live = set(accept)
    stack = list(accept)
    while stack:
        q = stack.pop()
        for p in rev.get(q, ()):
            if p not in live:
                live.add(p)
                stack.append(p)
    trans = {(p, s): q for (p, s), q in trans.items() if p in live and q in live}
    return DFA(0 if 0 in live else None, accept, trans, len(live))


def words(sigma, maxlen):
    sigma = list(sigma)
    for ln in range(maxlen + 1):
        for w in product(sigma, repeat=ln):
            yield w


def shortest_not_included(d1, d2, sigma):
    """A shortest word in L(d1) minus L(d2), or None when L(d1) is a subset of L(d2)."""
    if d1.start is None:
        return None
    start = (d1.start, d2.start)
    seen = {start}
    todo = deque([(start, ())])
    while todo:
        (p, q), w = todo.popleft()
        if p in d1.accept and (q is None or q not in d2.accept):
            return w
        for sym in sigma:
            p2 = d1.trans.get((p, sym))
            if p2 is None:
                continue
            q2 = d2.trans.get((q, sym)) if q is not None else None
            if (p2, q2) not in seen:
                seen.add((p2, q2))
                todo.append(((p2, q2), w + (sym,)))
    return None


def product_size(d1, d2, sigma):
    """Number of reachable product states / transitions (for evidence)."""
    if d1.start is None:
        return 0, 0
    start = (d1.start, d2.start)
    seen = {start}
    todo = [start]
    nt = 0
    while todo:
        p, q = todo.pop()
        for sym in sigma:
            p2 = d1.trans.get((p, sym))
            if p2 is None:
                continue
            nt += 1
            q2 = d2.trans.get((q, sym)) if q is not None else None
            if (p2, q2) not in seen:
                seen.add((p2, q2))
                todo.append((p2, q2))
    return len(seen), nt


# --- open content (XSD 1.1) --------------------------------------------------------------------

def open_interleave_verdicts(d, admitted, word):
    """(existential, model_first) readings of interleave open content for one word.

    existential: some choice of wildcard-admitted items can be deleted so that the rest is in L.
    model_first: an item that the content model can consume in the current state is consumed by it;
    otherwise it goes to the wildcard if admitted.
    """
    # existential: subset simulation with self loops
    cur = {d.start} if d.start is not None else set()
    for sym in word:
        nxt = set()
        for q in cur:
            q2 = d.trans.get((q, sym))
            if q2 is not None:
                nxt.add(q2)
            if sym in admitted:
                nxt.add(q)
        cur = nxt
    exist = any(q in d.accept for q in cur)
    q = d.start
    ok = q is not None
    if ok:
        for sym in word:
            q2 = d.trans.get((q, sym))
            if q2 is not None:
                q = q2
            elif sym in admitted:
                continue
            else:
                ok = False
                break
    first = ok and q in d.accept
    return exist, first


def open_suffix_verdicts(d, admitted, word):
    """(existential, model_first) readings of suffix open content."""
    exist = False
    for k in range(len(word) + 1):
        if d.accepts(word[:k]) and all(s in admitted for s in word[k:]):
            exist = True
            break
    # model first: run the model as long as it can consume, then the rest must be admitted
    q = d.start
    k = 0
    if q is None:
        return exist, False
    while k < len(word):
        q2 = d.trans.get((q, word[k]))
        if q2 is None:
            break
        q = q2
        k += 1
    first = q in d.accept and all(s in admitted for s in word[k:])
    return exist, first
