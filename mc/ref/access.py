"""Reference model for C12: classes of locations and what each access mode admits.

Plain Python on os.path / str only.  A *location class* is one of

    'inside'   a local file whose real path lies in the sandbox base directory (or below)
    'outside'  any other local file
    'remote'   anything that is not a local file (a URL with a non-file scheme)

Containment is decided on path *components* (realpath + commonpath), never on string prefixes.
"""
import os
import re
from urllib.parse import unquote          # percent-decoding only; no xmlschema code is shared

MODES = ('all', 'remote', 'local', 'sandbox', 'none')
CLASSES = ('inside', 'outside', 'remote')

_SCHEME = re.compile(r'^([A-Za-z][A-Za-z0-9+.\-]*):')


def allowed(cls, mode):
    """The statement: none - nothing; local - local files; remote - remote URLs; sandbox - files in the base."""
    if mode == 'all':
        return True
    if mode == 'none':
        return False
    if mode == 'local':
        return cls in ('inside', 'outside')
    if mode == 'remote':
        return cls == 'remote'
    if mode == 'sandbox':
        return cls == 'inside'
    raise ValueError(mode)


def path_class(path, base):
    """Class of a local filesystem path relative to the sandbox base directory (None: no base -> 'outside')."""
    if base is None:
        return 'outside'
    real = os.path.realpath(path)
    rbase = os.path.realpath(base)
    try:
        return 'inside' if os.path.commonpath([real, rbase]) == rbase else 'outside'
    except ValueError:                       # relative / absolute mix
        return 'outside'


def split_scheme(url):
    m = _SCHEME.match(url)
    return (m.group(1).lower(), url[m.end():]) if m else ('', url)


def url_target(url):
    """('remote', url) or ('local', filesystem path) for a URL that something tried to open."""
    scheme, rest = split_scheme(url.strip())
    if scheme in ('', 'file') or len(scheme) == 1:
        if scheme == 'file' and rest.startswith('//'):
            rest = rest[2:]
            rest = rest[rest.index('/'):] if '/' in rest else '/'       # drop the authority
        if len(scheme) == 1:
            rest = url.strip()
        return 'local', unquote(rest.split('?')[0].split('#')[0])
    return 'remote', url.strip()


def event_class(kind, arg, base):
    """Class of one observed access: kind 'open' (arg = path) or 'request' (arg = URL)."""
    if kind == 'open':
        return path_class(arg, base)
    where, target = url_target(arg)
    return 'remote' if where == 'remote' else path_class(target, base)


def resolve(spelling, base_dir, base_remote=None):
    """The location a catalogue spelling denotes when written in a document whose base is base_dir
    (a local directory) or base_remote (a remote URL prefix).  Returns (class-domain, target):
    ('local', absolute path) | ('remote', url) | ('open', None) when the reading is not forced by
    RFC 3986 alone (percent-encoded dots or slashes, backslashes, drive letters, network-path
    references, a host in a file URL, a rooted path against a remote base)."""
    s = spelling.strip()
    scheme, rest = split_scheme(s)
    if len(scheme) == 1 or '\\' in s or '%' in s:
        return 'open', None
    if scheme == 'file':
        if rest.startswith('//'):
            auth = rest[2:].split('/', 1)[0]
            if auth not in ('', 'localhost'):
                return 'open', None
            rest = rest[2 + len(auth):]
        if not rest.startswith('/'):
            return 'open', None
        return 'local', os.path.normpath(rest)
    if scheme:
        return 'remote', s
    if s.startswith('//'):
        return 'open', None
    if base_remote is not None:
        if s.startswith('/'):
            return 'open', None
        return 'remote', base_remote.rstrip('/') + '/' + s
    return 'local', os.path.normpath(os.path.join(base_dir, s))


def spelling_class(spelling, base_dir, sandbox_base, base_remote=None):
    """Location class denoted by a spelling, or None when its reading is open."""
    dom, target = resolve(spelling, base_dir, base_remote)
    if dom == 'open':
        return None
    if dom == 'remote':
        return 'remote'
    return path_class(target, sandbox_base)
