"""Alphabets, boundary catalogue and mutation seeds for C02 (plain data, no library code)."""

NBSP = '\u00a0'
FW1 = '\uff11'            # FULLWIDTH DIGIT ONE
INT_ALPHA = '+-019_.e ' + FW1
ALPHABETS = {
    'byte': '+-012789_ ', 'unsignedByte': '+-01256_ .', 'short': '+-032768 _', 'unsignedShort': '+-0653 _.' + FW1,
    'decimal': '+-019._e ' + FW1,
    'float': '+-01.eEINFa ', 'double': '+-01.eEINFa ',
    'boolean': 'truefals01 T',
    'duration': 'PT01YMDHS.-', 'yearMonthDuration': 'PT01YMDHS.-', 'dayTimeDuration': 'PT01YMDHS.-',
    'hexBinary': '09afAFg ', 'base64Binary': 'ABEQ= +/0g',
    'QName': 'ax:_1-. ', 'language': 'aZ1- _',
    'string': 'a \t\n\r' + NBSP, 'normalizedString': 'a \t\n\r' + NBSP, 'token': 'a \t\n\r' + NBSP,
    'anyURI': 'a:/%# \t',
}
for _n in ('integer', 'nonPositiveInteger', 'negativeInteger', 'long', 'int', 'nonNegativeInteger', 'unsignedLong',
           'unsignedInt', 'positiveInteger'):
    ALPHABETS[_n] = INT_ALPHA
for _n in ('NMTOKEN', 'Name', 'NCName', 'ID', 'IDREF', 'ENTITY'):
    ALPHABETS[_n] = 'a:_1-. \t\u00e9\u00b7'
for _n in ('dateTime', 'dateTimeStamp', 'date', 'time', 'gYearMonth', 'gYear', 'gMonthDay', 'gDay', 'gMonth'):
    ALPHABETS[_n] = '0129-:TZ+. '
ALPHABETS['NOTATION'] = ALPHABETS['QName']


def alphabet(name):
    return ALPHABETS[name]


INT_BOUNDS = {
    'long': (-2 ** 63, 2 ** 63 - 1), 'int': (-2 ** 31, 2 ** 31 - 1), 'short': (-2 ** 15, 2 ** 15 - 1),
    'byte': (-128, 127), 'unsignedLong': (0, 2 ** 64 - 1), 'unsignedInt': (0, 2 ** 32 - 1),
    'unsignedShort': (0, 65535), 'unsignedByte': (0, 255), 'nonPositiveInteger': (None, 0),
    'negativeInteger': (None, -1), 'nonNegativeInteger': (0, None), 'positiveInteger': (1, None),
    'integer': (None, None),
}
INT_FORMS = ['0', '-0', '+0', '00', '007', '-007', '1', '-1', '+1', '9', '10', '1_000', '1_0', '_1', '1_', FW1 + '2',
             '\u0661\u0662', '12 1', '1 2', '0x10', '0b1', '0o7', '1e3', '1E3', '1.0', '1.', '.0', '1,0', '', '+', '-',
             '--1', '+-1', '-+1', '1-', '1+', '++1', NBSP + '12', '12' + NBSP, '\u200312', '12\u0085', '\u202812',
             '123456789012345678901234567890', '-123456789012345678901234567890', 'one', 'NaN', 'INF', 'true',
             '0' * 40 + '1']

DT_DATES = (['2000-%02d-%02d' % (m, d) for m, dim in zip(range(1, 13), (31, 29, 31, 30, 31, 30, 31, 31, 30, 31, 30, 31))
             for d in (dim, dim + 1)] +
            ['1900-02-28', '1900-02-29', '2004-02-29', '2004-02-30', '2100-02-29', '2001-02-29', '2400-02-29',
             '0000-01-01', '0000-02-29', '-0000-01-01', '-0001-01-01', '-0001-12-31', '-0001-02-29', '-0004-02-29',
             '-0005-02-29', '0001-01-01', '0004-02-29', '9999-12-31', '10000-01-01', '-10000-01-01', '02000-01-01',
             '010000-01-01', '99999999999999999999-01-01', '-99999999999999999999-01-01', '2147483648-01-01',
             '2147483649-01-01', '-2147483649-01-01', '+2000-01-01', '200-01-01', '20000-01-01', '2000-00-01',
             '2000-13-01', '2000-01-00', '2000-01-32', '2000-1-01', '2000-01-1', '2000-001-01', '2000/01/01',
             '20000101', '2000-01', '2000', '2000-01-01-', '--01-01'])
DT_TIMES = ['00:00:00', '23:59:59', '23:59:60', '23:60:00', '24:00:00', '24:00:00.0', '24:00:00.000', '24:00:00.1',
            '24:00:01', '24:01:00', '25:00:00', '12:00:00.5', '12:00:00.', '12:00:00.123456', '12:00:00.1234567',
            '12:00:00.999999999', '12:00:00.0000001', '12:00:00.1239', '12:00', '12', '1:00:00', '12:0:00', '12:00:0',
            '120000', '12:00:00:00', '12-00-00', '-12:00:00', '12:00:00,5', '12:00:61']
DT_ZONES = ['', 'Z', '+00:00', '-00:00', '+14:00', '-14:00', '+14:01', '-14:01', '+13:59', '-13:59', '+13:60', '+15:00',
            '+1:00', '+01:0', '+0100', '+01', 'z', 'UTC', ' Z', '+24:00', '+99:99', '+14:00Z', 'ZZ', '+05:30', '-05:30']


def _zoned(forms, zones=DT_ZONES):
    return [f + z for f in forms[:3] for z in zones] + [f for f in forms[3:]] + [f + 'Z' for f in forms[3:]]


def _datetime_forms():
    out = []
    for d in DT_DATES:
        out.append(d + 'T00:00:00')
        out.append(d + 'T24:00:00')
    for t in DT_TIMES:
        out.append('2000-01-01T' + t)
        out.append('2000-12-31T' + t + 'Z')
    out += ['9999-12-31T24:00:00', '9999-12-31T23:59:59.999999', '-0001-12-31T24:00:00', '0000-12-31T24:00:00',
            '2000-02-28T24:00:00', '2001-02-28T24:00:00', '2000-02-29T24:00:00']
    for z in DT_ZONES:
        out.append('2000-01-01T00:00:00' + z)
        out.append('2000-12-31T23:59:59.5' + z)
    out += ['2000-01-01t00:00:00', '2000-01-01 00:00:00', '2000-01-0100:00:00', '2000-01-01T', 'T00:00:00',
            '2000-01-01TT00:00:00', '', 'now', '2000-01-01T00:00:00 Z', '2000-01-01 T00:00:00']
    return out


GD = ['---01', '---31', '---32', '---00', '---1', '---001', '--01', '----01', '01', '---01-', '---29', '---30']
GM = ['--01', '--12', '--13', '--00', '--1', '--001', '--01--', '--01-', '-01', '01', '---01', '--02', '--1 ']
GMD = (['--%02d-%02d' % (m, d) for m, dim in zip(range(1, 13), (31, 29, 31, 30, 31, 30, 31, 31, 30, 31, 30, 31))
        for d in (dim, dim + 1)] + ['--00-01', '--13-01', '--01-00', '--1-01', '--01-1', '-01-01', '01-01', '--0101',
                                    '--01--01', '---01-01', '--01-01-'])
GY = ['2000', '0001', '0000', '-0000', '-0001', '9999', '10000', '-10000', '02000', '010000', '200', '20', '2', '20000',
      '99999999999999999999', '-99999999999999999999', '2147483648', '2147483649', '-2147483649', '+2000', '2000-',
      '-2000', '--2000', '1_000', FW1 + '000', '2 000']
GYM = ['2000-01', '2000-12', '2000-13', '2000-00', '2000-1', '2000-001', '0000-01', '-0001-01', '-0000-01', '10000-01',
       '02000-01', '99999999999999999999-01', '200-01', '2000-01-', '2000-01-01', '2000/01', '200001', '--2000-01',
       '+2000-01', '2147483649-01']

DURATION = ['P1Y', 'P1M', 'P1D', 'PT1H', 'PT1M', 'PT1S', 'PT1.5S', 'P1Y2M3DT4H5M6.7S', '-P1Y', 'P0Y', 'PT0S', 'P0D',
            '-P0D', '-PT0S', 'P', 'PT', '-P', '-PT', 'P1YT', 'P1Y2MT', 'PT1.S', 'PT.5S', 'PT1.5M', 'PT1.5H', 'P1.5Y',
            'P1.5D', 'P-1Y', '+P1Y', 'P1S', 'P1H', 'PT1Y', 'PT1D', 'P1M1Y', 'P1D1M', 'P1D1Y', 'PT1M1H', 'PT1S1M',
            'PT1S1H', 'P1Y1Y', 'PT1S1S', 'P1W', 'p1y', 'P1y', 'P 1Y', 'P1 Y', 'P1YT1S', 'P1MT1M', 'P1DT1H', 'P12M',
            'P13M', 'PT60S', 'PT3600S', 'PT86400S', 'P119999M', 'P120000M', 'PT31622400S', 'PT31622401S', 'P9999Y11M',
            'P99999999999999999999Y', 'P99999999999999999999M', 'PT99999999999999999999S', 'P99999999999999999999D',
            'PT99999999999999999999H', 'P178956971Y', 'P2147483648M', 'P2147483649M', 'PT9223372036854775808S',
            'P1Y-1M', 'P1YT-1S', '-P1Y2M3DT4H5M6S', 'PT0.001S', 'PT0.000001S', 'PT0.0000001S', 'PT0.0009S',
            'PT1.1234567S', 'P0Y0M0DT0H0M0S', 'P0Y0M0DT0H0M0.0S', 'P1YT0S', 'P0Y1D', 'P0M1D', 'P1Y0D', 'P1_0Y',
            'P' + FW1 + 'Y', 'PT1e3S', 'P0x1Y', '', 'P1', '1Y', 'P1YM', 'PY', 'PTS', 'PT1', 'P1T1S', '--P1Y', 'P1Y P1M']
YM_DURATION = ['P1Y', 'P1M', 'P1Y2M', '-P1Y', '-P1M', 'P0Y', 'P0M', 'P0Y0M', 'P1D', 'PT1S', 'PT0S', 'P1YT0S', 'P1Y0D',
               'P1YT', 'P', '-P', 'P12M', 'P13M', 'P1M1Y', 'P1Y2M3D', 'P1Y2M0D', 'P1Y2MT0S', 'P99999999999999999999Y',
               'P119999M', 'P120000M', 'P2147483649M', 'P1.5Y', 'P1Y1.5M', '+P1Y', 'P-1Y', 'p1y', 'P1Y ', '', 'P1YM',
               'P0Y1D', 'P0D']
DT_DURATION = ['P1D', 'PT1H', 'PT1M', 'PT1S', 'P1DT1H', 'P1DT1H1M1.1S', '-P1D', '-PT1S', 'PT0S', 'P0D', 'P1Y', 'P1M',
               'P0Y1D', 'P0M1D', 'P0Y0M1D', 'P0Y', 'P0M', 'P0YT1S', 'P1DT', 'PT', 'P', '-P', 'PT1.5S', 'PT1.S', 'PT.5S',
               'PT1M1H', 'PT1S1M', 'P1D1D', 'PT99999999999999999999S', 'P99999999999999999999D', 'PT31622400S',
               'PT31622401S', 'PT9223372036854775808S', 'PT0.0000001S', 'P1.5D', '+P1D', 'P-1D', 'p1d', 'P1D ', '',
               'PT1', 'P1H', 'PT1D', 'P1Y1D', 'P1M1D', 'P1MT1M']

FLOATS = ['0', '-0', '+0', '0.0', '-0.0', '-0.0e0', '-0e0', '1', '-1', '+1', '1.5', '.5', '5.', '-.5', '+.5', '.', '1e5',
          '1E5', '1e+5', '1e-5', '1E+05', '1e', 'e5', '1e5.5', '.e5', '1.e5', '.5e5', '1ee5', '1e5e5', '1e+', '1e-',
          '1e++5', 'INF', '-INF', '+INF', 'NaN', '-NaN', '+NaN', 'nan', 'inf', '-inf', 'Infinity', 'infinity',
          '-Infinity', 'NAN', 'INFINITY', 'Inf', 'iNF', 'INFe1', 'INF.', '1INF', 'NaNNaN', '1e400', '-1e400', '1e-400',
          '-1e-400', '1e309', '1e308', '1.7976931348623157e308', '1.7976931348623158e308', '1.7976931348623159e308',
          '4.9e-324', '2.5e-324', '2.4e-324', '2e-324', '5e-324', '2.2250738585072014e-308', '3.4028235e38',
          '3.40282346638528859811704183484516925440e38', '3.4028235677973366e38', '3.4028236e38', '1e39', '-1e39',
          '1e38', '1e-45', '1.401298464324817e-45', '7.1e-46', '7e-46', '1e-46', '1.17549435e-38', '16777216',
          '16777217', '16777218', '16777219', '0.1', '0.2', '0.3', '1.1', '123456789', '1.23456789012345678',
          '9007199254740993', '9007199254740992', '1_0', '1_0.0', '1e1_0', '0x10', '0x1p3', '0X1P3', '1f', '1d', '1L',
          '1 e5', '1e 5', '1 .5', '12 1', FW1, FW1 + '.5', '1e' + FW1, '\u0661', '1,5', '1.5.5', '--1', '+-1', '', '+',
          '-', NBSP + '1', '1' + NBSP, '1e5000', '1e5001', '1e-5001', '1e99999999999999999999',
          '0.' + '0' * 400 + '1', '1' + '0' * 400, '1' + '0' * 400 + 'e-400']
BOOLEANS = ['true', 'false', '1', '0', 'TRUE', 'FALSE', 'True', 'False', 'tRUE', 'yes', 'no', 'on', 'off', 'y', 'n',
            't', 'f', 'T', 'F', '00', '01', '10', '11', '2', '-1', '+1', '+0', '-0', '1.0', '0.0', 'tru', 'truee',
            'ttrue', 'fals', 'falsee', 'true false', 'true1', '1true', '', FW1, '\uff10', 'null', 'None', 'nil',
            NBSP + 'true', 'true' + NBSP, 't rue', 'tr ue']
DECIMALS = ['0', '-0', '+0', '0.0', '+0.0', '-0.0', '.0', '0.', '.5', '5.', '-.5', '+.5', '-5.', '.', '+.', '-.', '1.5',
            '01.50', '001', '1.500', '1,5', '1e2', '1E2', '1e0', 'NaN', 'INF', '-INF', 'Infinity', 'sNaN', '12 1',
            '1 .5', '1. 5', '1 2.3', '- 1', '1_0.5', '1._5', '1_0', FW1 + '.5', '1.' + FW1, '\u0661.\u0662', '1.2.3',
            '1..2', '', '+', '-', '--1', '+-1', '1-', '0x1', '1d', '1f', '1L',
            '123456789012345678901234567890.123456789012345678901234567890',
            '-123456789012345678901234567890.123456789012345678901234567890',
            '0.' + '0' * 60 + '1', '1' + '0' * 60, '999999999999999999', '9999999999999999999', '0.1', '0.10', '1.0', '0.000001', '0.0000001', '-0.0000001', '1000000000000000000000',
            '100', '1.23', '12.3', '123', '0.123', '0.0123', '100.0', NBSP + '1.5', '1.5' + NBSP, '1.5\u2003']

HEX = ['', '0F', '0f', 'ff', 'FF', 'fF', '00', '0', '0F0', '0F0F', '0g', 'G0', '0F 0F', '0 F', '0x0F', 'x', '0F0f0F0f',
       'FF' * 20, 'FF' * 20 + 'F', '\uff46\uff46', '\u0660\u0660', FW1 + FW1, '0F,', '=', 'AA==', '+/', NBSP + '0F',
       '0F' + NBSP, '0_F', '0F_']
BASE64 = ['', 'AA==', 'AB==', 'AQ==', 'Ag==', 'Aw==', 'Ax==', 'A===', 'AAA=', 'AAE=', 'AAB=', 'AAI=', 'AA8=', 'AA9=',
          'AAAA', 'A', 'AA', 'AAA', 'AA=', 'A=', '=', '==', '====', 'AAAA=', 'AAAA==', 'AAAAA', 'AAAAAA', 'AAAAAA==',
          'AAAAAAA=', 'AAAAAAAA', 'AAAAAAAAA', 'A A A A', 'A AAA', 'AAA A', 'AA = =', 'AA= =', 'AA ==', 'A A==',
          'A A = =', 'AA  AA', 'AA\nAA', 'AAAA\n', 'AA==\n', '+/+/', '-_-_', 'AAA*', 'QUJD', 'QUJ D', 'QUJDRA==',
          'QUJDREU=', 'A=A=', '=AAA', 'AA==AAAA', 'AAAAAA==AAAA', 'AA=A', 'AAAA AA==', 'AAAA AAA=', 'AAAAA A==',
          '\uff21\uff21\uff21\uff21', 'AAA' + FW1, 'AAA\u00e9', 'AA==' + NBSP, NBSP + 'AAAA', 'AAAA.', 'AA.A', '////',
          '++++', 'Zg==', 'Zm8=', 'Zm9v', 'Zh==', 'Zm9=', 'Zm8', 'Zg=', 'Zg']
QNAMES = ['a', 'a:a', 'x:a', ':a', 'a:', 'a:a:a', 'a::a', ':', '1a', 'a1', 'a:1', '1:a', '_a', '_', 'a-b', 'a.b', '-a',
          '.a', 'a:-a', 'a:.a', 'a b', 'a :a', 'a: a', '\u00e9', '\u00b7', 'a\u00b7', 'a:\u00b7', '', 'a/b', 'a#', 'a,b',
          '{urn:a}a', 'a:a ', 'x', 'x:x', 'a:x', NBSP + 'a', 'a' + NBSP, 'a\u2003']
NAMES = ['a', ':', ':a', 'a:', 'a:b', 'a:b:c', '1', '1a', 'a1', '_', '_a', '-', '-a', 'a-', '.', '.a', 'a.', 'a.b',
         'a b', '\u00e9', '\u00b7', '\u00b7a', 'a\u00b7', '\u00e9a', '', 'a/b', 'a,b', 'a#', 'a@b', 'a!', '(a)', 'a\tb',
         '\u0300a', 'a\u0300', '\u203fa', 'a\u203f', '\u00d7', 'a\u00d7', '\u00f7', NBSP + 'a', 'a' + NBSP, 'a' + NBSP + 'b',
         'a\u2003b', 'a\u0085', '\u2028a', '1.5', '-1', '007', 'a' * 50]
LANGS = ['en', 'en-US', 'EN', 'e', 'abcdefgh', 'abcdefghi', 'en-abcdefgh', 'en-abcdefghi', 'en-1', 'en-12345678',
         'en-123456789', '1', '12', 'a1', 'en1', 'en-', '-en', 'en--US', 'en_US', 'x-a-b-c', 'en-US-', 'i-klingon',
         '\u00e9', 'en-\u00e9', 'en US', '', 'a-b-c-d-e-f-g-h-i-j', 'en-u-1', 'EN-us', 'en.US', 'en-US-x-abcdefgh',
         'en-US-x-abcdefghi', NBSP + 'en', 'en' + NBSP, '\uff45\uff4e', 'en-' + FW1]
STRINGS = ['', ' ', '  ', 'a', ' a', 'a ', ' a ', 'a b', 'a  b', ' a  b ', 'a\tb', 'a\nb', 'a\rb', 'a\r\nb', '\t', '\n',
           '\r', '\ta\n', 'a \t\n\r b', NBSP, NBSP + 'a' + NBSP, 'a' + NBSP + 'b', 'a ' + NBSP + ' b', 'a\u2003b',
           '\u2003a\u2003', 'a\u0085b', '\u0085a', 'a\u2028b', 'a\u2029', '\u3000a', 'a\u1680b', 'a\u200bb', 'a\u202fb',
           '\u00e9', '<&>"\'', 'a' * 100, '\U0001f600']
URIS = ['', 'a', 'http://a/b?c#d', 'a b', ' a ', 'a  b', 'a\tb', 'a\nb', '%', '%zz', '%20', '%2', '#a#b', '##', '::',
        ':a', 'http://[', 'http://]', '\\', '{', '}', '|', '^', '`', '<', '>', '"', '\u00e9', NBSP + 'a', 'a' + NBSP,
        'a\u2003b', 'mailto:a@b', 'urn:a:b', '../a', '//a', '?a', 'a' * 100, '1', '-', 'a%', 'http://a:b/']


def _ints(name):
    lo, hi = INT_BOUNDS[name]
    out = list(INT_FORMS)
    for b in (lo, hi):
        if b is not None:
            out += [str(b - 1), str(b), str(b + 1), '+%d' % b if b >= 0 else '-0%d' % -b, '000' + str(b) if b >= 0 else
                    '-000%d' % -b]
    for b in (-2 ** 63, 2 ** 63 - 1, -2 ** 31, 2 ** 31 - 1, -2 ** 15, 2 ** 15 - 1, -128, 127, 2 ** 64 - 1, 2 ** 32 - 1,
              65535, 255, 0, 1, -1):
        out += [str(b), str(b + 1), str(b - 1)]
    seen = set()
    return [x for x in out if not (x in seen or seen.add(x))]


def catalogue(version, name):
    if name in INT_BOUNDS:
        return _ints(name)
    if name == 'decimal':
        return DECIMALS
    if name in ('float', 'double'):
        return FLOATS
    if name == 'boolean':
        return BOOLEANS
    if name == 'duration':
        return DURATION
    if name == 'yearMonthDuration':
        return YM_DURATION + DURATION[:12]
    if name == 'dayTimeDuration':
        return DT_DURATION + DURATION[:12]
    if name in ('dateTime', 'dateTimeStamp'):
        return _datetime_forms()
    if name == 'date':
        return [d + z for d in DT_DATES[:4] for z in DT_ZONES] + DT_DATES + [d + 'Z' for d in DT_DATES] + \
               ['2000-01-01T00:00:00', '2000-01-01T', '', 'today', '2000-01-01 Z']
    if name == 'time':
        return [t + z for t in DT_TIMES[:5] for z in DT_ZONES] + DT_TIMES + [t + 'Z' for t in DT_TIMES] + \
               ['T12:00:00', '2000-01-01T12:00:00', '', '12:00:00 Z', 'noon']
    if name == 'gDay':
        return _zoned(GD) + ['']
    if name == 'gMonth':
        return _zoned(GM) + ['']
    if name == 'gMonthDay':
        return _zoned(GMD) + ['']
    if name == 'gYear':
        return _zoned(GY) + ['']
    if name == 'gYearMonth':
        return _zoned(GYM) + ['']
    if name == 'hexBinary':
        return HEX
    if name == 'base64Binary':
        return BASE64
    if name in ('QName', 'NOTATION'):
        return QNAMES
    if name in ('NMTOKEN', 'Name', 'NCName', 'ID', 'IDREF', 'ENTITY'):
        return NAMES
    if name == 'language':
        return LANGS
    if name in ('string', 'normalizedString', 'token'):
        return STRINGS
    if name == 'anyURI':
        return URIS
    raise KeyError(name)


SEEDS = {
    'decimal': ['-10.90', '+.5'], 'float': ['-1.0e+1', 'INF', 'NaN', '+INF'], 'double': ['-1.0e+1', 'INF', 'NaN', '+INF'],
    'boolean': ['true', 'false', '1'],
    'duration': ['-P1Y1M1DT1H1M1.1S', 'PT0S'], 'yearMonthDuration': ['-P1Y1M', 'P0M'],
    'dayTimeDuration': ['-P1DT1H1M1.1S', 'PT0S'],
    'dateTime': ['2000-02-29T23:59:59.5Z', '-0001-11-30T24:00:00+14:00', '0000-01-01T00:00:00'],
    'dateTimeStamp': ['2000-02-29T23:59:59.5Z', '-0001-11-30T24:00:00+14:00', '2000-01-01T00:00:00'],
    'date': ['2000-02-29Z', '-0001-12-31+14:00', '0000-01-01'], 'time': ['23:59:59.5Z', '24:00:00-14:00'],
    'gYearMonth': ['2000-12Z', '-0001-01+14:00'], 'gYear': ['2000Z', '-0001+14:00', '0000'],
    'gMonthDay': ['--02-29Z', '--12-31-14:00'], 'gDay': ['---31Z', '---01+14:00'], 'gMonth': ['--12Z', '--01-14:00'],
    'hexBinary': ['0fA9'], 'base64Binary': ['AA==', 'AAE=', 'A A A A', 'AAAAAQ=='],
    'QName': ['a:a1', 'a_'], 'language': ['aa-Z1', 'aaaaaaaa-11111111'],
    'string': ['a a'], 'normalizedString': ['a a'], 'token': ['a a'], 'anyURI': ['a:/a#a'],
}
for _n in INT_BOUNDS:
    lo, hi = INT_BOUNDS[_n]
    SEEDS[_n] = [str(b) for b in (lo, hi) if b is not None] + ['+10', '-0']
for _n in ('NMTOKEN', 'Name', 'NCName', 'ID', 'IDREF', 'ENTITY'):
    SEEDS[_n] = ['a1-.', '_\u00e9\u00b7']
SEEDS['NOTATION'] = SEEDS['QName']


def seeds(version, name):
    return SEEDS[name]


# ------------------------------------------------------------------------------------------
# facets: per base type a pool of facet values and the candidate texts they are applied to
# ------------------------------------------------------------------------------------------
_STR_C = ['', 'a', 'ab', 'abc', 'abcd', ' a', 'a ', 'a b', 'a  b', '\ta', 'é', 'éé', 'aaa', 'b', 'a\nb']
_DT_B = ['2000-01-01T00:00:00Z', '2000-01-01T00:00:00', '1999-12-31T23:00:00-05:00']
FACETS = {
    'string': ({'length': [0, 1, 3], 'minLength': [1, 2], 'maxLength': [0, 2], 'pattern': [('a*',), ('[a-c]+', '.{2}')],
                'enumeration': [('a',), ('a', 'ab'), ('',)], 'whiteSpace': ['replace', 'collapse']}, _STR_C),
    'token': ({'length': [0, 1, 3], 'minLength': [1, 2], 'maxLength': [0, 2], 'pattern': [('a*',), ('[a-c]+', 'a b')],
               'enumeration': [('a',), ('a b', 'ab')]}, _STR_C),
    'NMTOKEN': ({'length': [1, 2], 'maxLength': [1], 'pattern': [('a.*',)], 'enumeration': [('a', '1')]},
                ['a', '1', 'ab', 'a1', 'a b', '', ' a ', 'é']),
    'anyURI': ({'length': [1, 3], 'minLength': [2], 'maxLength': [2], 'pattern': [('a:.*',)], 'enumeration': [('a:b', 'a')]},
               ['', 'a', 'a:b', 'ab', ' a ', 'a:bc', 'ééé']),
    'QName': ({'length': [0, 1, 5], 'minLength': [4], 'maxLength': [1], 'pattern': [('a:.*',), ('[^:]*',)],
               'enumeration': [('a:b',), ('b', 'a:b')]}, ['a:b', 'b', 'a:bb', 'a:b ', 'x:b', ':b', 'bb']),
    'hexBinary': ({'length': [0, 1, 2], 'minLength': [1], 'maxLength': [1], 'pattern': [('[0-9A-F]*',), ('(0F)*',)],
                   'enumeration': [('0F',), ('0f', '')]},
                  ['', '0F', '0f', '0F0F', '0f0F', 'FF', '0', ' 0F ', '0F0F0F']),
    'base64Binary': ({'length': [0, 1, 2, 3], 'minLength': [2], 'maxLength': [1], 'pattern': [('[A-Z=]*',), ('.{4}',)],
                      'enumeration': [('AA==',), ('AAA=', '')]},
                     ['', 'AA==', 'AQ==', 'AAA=', 'AAAA', 'A A A A', 'AAAAAA==', 'AA= =', 'AAAAAAAA', 'A']),
    'decimal': ({'totalDigits': [1, 2, 3], 'fractionDigits': [0, 1, 2], 'minInclusive': ['-1', '0', '1.5'],
                 'minExclusive': ['-1', '0', '1.5'], 'maxInclusive': ['0', '1.5', '10'], 'maxExclusive': ['0', '1.5', '10'],
                 'enumeration': [('1.5',), ('0', '10.0')], 'pattern': [('[0-9]+',), ('-?[0-9]\\.[0-9]+', '10')]},
                ['-1.5', '-1', '-1.0', '-0.5', '0', '0.0', '-0', '0.5', '1', '1.5', '1.50', '1.51', '9.99', '10', '10.0',
                 '10.5', '100', '099', '1e1', ' 1.5 ', '.5', '5.', '0.05', '100.00']),
    'integer': ({'totalDigits': [1, 2], 'fractionDigits': [0], 'minInclusive': ['-1', '0', '10'],
                 'minExclusive': ['-1', '0', '10'], 'maxInclusive': ['-1', '0', '10'], 'maxExclusive': ['-1', '0', '10'],
                 'enumeration': [('1',), ('0', '+10')], 'pattern': [('[0-9]+',), ('-?[0-9]',)]},
                ['-2', '-1', '-0', '0', '+0', '1', '01', '9', '10', '+10', '11', '99', '100', '1.0', 'x', ' 1 ']),
    'short': ({'totalDigits': [4, 5], 'minInclusive': ['-32768', '0'], 'maxInclusive': ['32767', '0'],
               'maxExclusive': ['32767'], 'minExclusive': ['-32768'], 'enumeration': [('32767', '-32768')],
               'pattern': [('[0-9]+',)]},
              ['-32769', '-32768', '-32767', '-1', '0', '1', '9999', '10000', '32766', '32767', '32768', '032767']),
    'double': ({'minInclusive': ['-1.5', '0', 'INF', '-INF'], 'minExclusive': ['-1.5', '0', '-INF'],
                'maxInclusive': ['0', '1e2', 'INF', '-INF'], 'maxExclusive': ['0', '1e2', 'INF'],
                'enumeration': [('1.5',), ('0', 'NaN'), ('INF', '-0')], 'pattern': [('[^e]*',), ('-?INF|NaN',)]},
               ['-INF', '-1e2', '-1.5', '-0', '0', '+0', '1e-1', '0.1', '1.5', '15e-1', '1e2', '100', '100.0000001',
                'INF', 'NaN', '+INF', 'x', '1e400', '-1e400', '4.9e-324']),
    'float': ({'minInclusive': ['-1.5', '0', 'INF'], 'minExclusive': ['0', '-INF'], 'maxInclusive': ['0', '1e2', 'INF'],
               'maxExclusive': ['1e2', 'INF'], 'enumeration': [('1.5',), ('0', 'NaN')], 'pattern': [('[^e]*',)]},
              ['-INF', '-1e2', '-1.5', '-0', '0', '0.5', '1.5', '15e-1', '1e2', '100', '128', 'INF', 'NaN', '+INF', 'x']),
    'boolean': ({'pattern': [('true|false',), ('[01]',), ('t.*', '0')]}, ['true', 'false', '1', '0', ' true ', 'TRUE', 'x']),
    'dateTime': ({'minInclusive': _DT_B, 'minExclusive': _DT_B, 'maxInclusive': _DT_B, 'maxExclusive': _DT_B,
                  'enumeration': [('2000-01-01T00:00:00Z',), ('2000-01-01T00:00:00', '2000-01-01T12:00:00+12:00')],
                  'pattern': [('.*Z',), ('[^Z]*',)], 'explicitTimezone': ['required', 'prohibited', 'optional']},
                 ['1999-12-31T23:59:59Z', '2000-01-01T00:00:00Z', '2000-01-01T00:00:00', '2000-01-01T00:00:00.000Z',
                  '1999-12-31T19:00:00-05:00', '2000-01-01T14:00:00+14:00', '1999-12-31T10:00:00-14:00',
                  '2000-01-01T00:00:01Z', '2000-01-01T14:00:00', '2000-01-01T14:00:01', '1999-12-31T09:59:59',
                  '1999-12-31T10:00:00', '2000-01-02T00:00:00', '1999-12-31T24:00:00Z', '1999-12-31T24:00:00',
                  '2000-01-01T12:00:00+12:00', '1999-12-31T23:59:59.999Z', '2000-01-01', 'x',
                  '1999-12-31T23:30:00-00:30', '2000-01-01T00:30:00+00:30']),
    'date': ({'minInclusive': ['2000-01-01Z', '2000-01-01', '2000-03-01+14:00'], 'minExclusive': ['2000-01-01Z', '2000-01-01'],
              'maxInclusive': ['2000-01-01Z', '2000-01-01', '2000-03-01+14:00'], 'maxExclusive': ['2000-01-01Z', '2000-01-01'],
              'enumeration': [('2000-01-01Z',), ('2000-01-01', '2000-01-02+14:00')], 'pattern': [('.*Z',)],
              'explicitTimezone': ['required', 'prohibited']},
             ['1999-12-31Z', '2000-01-01Z', '2000-01-01', '2000-01-01+00:00', '2000-01-01-00:00', '2000-01-02+14:00',
              '1999-12-31-10:00', '2000-01-01+14:00', '2000-01-01-14:00', '2000-01-02', '1999-12-31', '2000-02-29',
              '2000-03-01', '2000-03-01+14:00', '2000-02-29-10:00', '2000-01-02Z', 'x']),
    'time': ({'minInclusive': ['12:00:00Z', '12:00:00', '00:00:00'], 'maxInclusive': ['12:00:00Z', '12:00:00', '00:00:00'],
              'minExclusive': ['12:00:00Z'], 'maxExclusive': ['12:00:00'],
              'enumeration': [('12:00:00Z',), ('12:00:00', '24:00:00')], 'explicitTimezone': ['required', 'prohibited']},
             ['00:00:00', '24:00:00', '12:00:00', '12:00:00Z', '12:00:00+00:00', '11:59:59Z', '12:00:01Z', '13:00:00+01:00',
              '11:00:00-01:00', '02:00:00+14:00', '22:00:00-14:00', '23:59:59', '12:00:00.000', '12:00:00.001Z', 'x']),
    'gYear': ({'minInclusive': ['2000', '2000Z', '-0001'], 'maxInclusive': ['2000', '2000Z', '-0001'],
               'minExclusive': ['2000'], 'maxExclusive': ['2000Z'], 'enumeration': [('2000',), ('2000Z', '0001')],
               'explicitTimezone': ['required', 'prohibited']},
              ['1999', '2000', '2001', '2000Z', '2000+14:00', '2000-14:00', '-0001', '0000', '0001', '1999Z', '2001Z',
               '-0002', 'x']),
    'gYearMonth': ({'minInclusive': ['2000-01', '2000-01Z'], 'maxInclusive': ['2000-01', '2000-12Z'],
                    'enumeration': [('2000-01',), ('2000-01Z', '2000-02')]},
                   ['1999-12', '2000-01', '2000-02', '2000-01Z', '2000-12Z', '2001-01Z', '2000-01+14:00', '1999-12-14:00', 'x']),
    'gMonthDay': ({'minInclusive': ['--02-29', '--01-01Z'], 'maxInclusive': ['--02-29', '--12-31Z'],
                   'enumeration': [('--02-29',), ('--12-31Z', '--01-01')]},
                  ['--01-01', '--02-28', '--02-29', '--03-01', '--12-31', '--12-31Z', '--01-01Z', '--02-29Z', '--02-30', 'x']),
    'gDay': ({'minInclusive': ['---15', '---15Z'], 'maxInclusive': ['---15', '---31Z'], 'enumeration': [('---15', '---31Z')]},
             ['---01', '---14', '---15', '---16', '---31', '---15Z', '---31Z', '---16+14:00', '---14-14:00', '---32']),
    'gMonth': ({'minInclusive': ['--06', '--06Z'], 'maxInclusive': ['--06', '--12Z'], 'enumeration': [('--06', '--12Z')]},
               ['--01', '--05', '--06', '--07', '--12', '--06Z', '--12Z', '--07+14:00', '--05-14:00', '--13']),
    'duration': ({'minInclusive': ['P1M', 'P30D', 'PT0S', '-P1D'], 'minExclusive': ['P1M', 'PT0S'],
                  'maxInclusive': ['P1M', 'P30D', 'P1Y'], 'maxExclusive': ['P1M', 'P1Y'],
                  'enumeration': [('P1M',), ('P30D', 'PT24H')], 'pattern': [('P[^T]*',), ('-?PT.*',)]},
                 ['P1M', 'P30D', 'P31D', 'P29D', 'P28D', 'P27D', 'P32D', 'P1Y', 'P12M', 'P365D', 'P366D', 'P367D', 'P364D',
                  'PT24H', 'P1D', 'PT0S', 'P0D', '-P1D', '-PT24H', '-P1M', 'P1MT1S', 'P28DT1S', 'P0Y', 'PT86400S',
                  'PT720H', 'P2M', 'x']),
    'yearMonthDuration': ({'minInclusive': ['P1Y', 'P0M'], 'maxInclusive': ['P1Y', 'P13M'], 'minExclusive': ['-P1M'],
                           'maxExclusive': ['P12M'], 'enumeration': [('P1Y', 'P0M')], 'pattern': [('P[0-9]+M',)]},
                          ['-P1Y', '-P1M', 'P0M', 'P0Y', 'P1M', 'P11M', 'P12M', 'P1Y', 'P13M', 'P1Y1M', 'P2Y', 'P1D']),
    'dayTimeDuration': ({'minInclusive': ['P1D', 'PT0S'], 'maxInclusive': ['P1D', 'PT36H'], 'minExclusive': ['-PT1S'],
                         'maxExclusive': ['PT24H'], 'enumeration': [('P1D', 'PT0S')], 'pattern': [('PT[0-9]+H',)]},
                        ['-P1D', '-PT1S', 'PT0S', 'P0D', 'PT1S', 'PT23H59M59S', 'PT24H', 'P1D', 'PT86400S', 'P1DT1S',
                         'PT36H', 'P2D', 'PT0.5S', 'P1M']),
}
FACET_ORDER = ['length', 'minLength', 'maxLength', 'totalDigits', 'fractionDigits', 'minInclusive', 'minExclusive',
               'maxInclusive', 'maxExclusive', 'explicitTimezone', 'whiteSpace', 'pattern', 'enumeration']
EXCLUSIVE = [{'length', 'minLength'}, {'length', 'maxLength'}, {'minInclusive', 'minExclusive'},
             {'maxInclusive', 'maxExclusive'}]


def facet_bases(version):
    return [n for n in FACETS if version == '1.1' or n not in ('yearMonthDuration', 'dayTimeDuration')]


def facet_kinds(version, base):
    return [k for k in FACET_ORDER if k in FACETS[base][0] and (version == '1.1' or k != 'explicitTimezone')]


LIST_ITEMS = {
    'integer': ['1', '-2', '007', 'x'], 'boolean': ['true', '0', '1', 'yes'], 'NMTOKEN': ['a', '1', 'a:b', '#'],
    'date': ['2000-01-01', '2000-02-29Z', '1999-12-31-10:00', '2000-02-30'], 'small': ['1', '5', '6', '05'],
    'intbool': ['1', 'true', '01', 'no'], 'decimal': ['1.50', '-0', '.5', '1e1'], 'QName': ['a:b', 'b', 'x:b', 'a:'],
}
UNION_CANDIDATES = ['1', '01', '+1', '1.0', '1.50', 'true', 'false', '0', '2000-01-01', 'a', 'b', '1 2', '', ' 1 ', 'NaN',
                    'x y', '1e1', 'INF', '-0', 'a b', ' true ', '2000-01-01Z', '1 true', 'true 1']
