"""Exhaustive enumeration of content-model trees M(N nodes, occurrence set O, D non-default occurrences)
and their rendering as XSD.

Shapes: a rooted ordered tree whose root is a group, groups have 1-3 children, N = leaves + groups.
Per shape: every assignment of sequence|choice to the groups, of an occurrence from O to every node with at
most D non-default ({1,1}) ones, and of letters to the leaves canonical up to renaming (restricted growth
strings over at most 3 letters: the first leaf is 'a', a new letter is always the next unused one).
"""
from itertools import product

from mc.ref import regex

O5 = ((1, 1), (0, 1), (0, None), (1, None), (2, 2))
O8 = O5 + ((0, 2), (1, 2), (2, None))
LETTERS = 'abc'


def shapes(n, root=True):
    """All shapes with exactly n nodes.  A shape is 'L' or a tuple of child shapes."""
    if n == 1:
        if not root:
            yield 'L'
        return
    # a group with k children whose sizes sum to n-1
    for k in (1, 2, 3):
        for sizes in _compositions(n - 1, k):
            for kids in product(*[list(shapes(s, False)) for s in sizes]):
                yield tuple(kids)


def _compositions(total, k):
    if k == 1:
        if total >= 1:
            yield (total,)
        return
    for first in range(1, total - k + 2):
        for rest in _compositions(total - first, k - 1):
            yield (first,) + rest


def count_nodes(shape):
    if shape == 'L':
        return 1, 1, 0
    n = lv = g = 0
    for c in shape:
        a, b, d = count_nodes(c)
        n += a
        lv += b
        g += d
    return n + 1, lv, g + 1


def rgs(n, k=3):
    """Restricted growth strings of length n over at most k letters."""
    def rec(prefix, mx):
        if len(prefix) == n:
            yield tuple(prefix)
            return
        for v in range(min(mx + 1, k - 1) + 1):
            yield from rec(prefix + [v], max(mx, v))
    if n == 0:
        yield ()
    else:
        yield from rec([0], 0)


def occ_assignments(n, occs, maxdev):
    """All assignments of occurrences to n nodes with at most maxdev non-default entries, fewest deviations first."""
    nd = [o for o in occs if o != (1, 1)]
    from itertools import combinations
    top = n if maxdev is None else min(maxdev, n)
    for d in range(top + 1):
        for idxs in combinations(range(n), d):
            for vals in product(nd, repeat=d):
                a = [(1, 1)] * n
                for i, v in zip(idxs, vals):
                    a[i] = v
                yield tuple(a)


def assemble(shape, kinds, occs, lets):
    """Builds the regex.py node tree from a shape and the three assignments (consumed in pre-order)."""
    ki, oi, li = iter(kinds), iter(occs), iter(lets)

    def rec(s):
        mn, mx = next(oi)
        if s == 'L':
            name = LETTERS[next(li)]
            return ('el', mn, mx, frozenset([name]), name)
        kind = next(ki)
        return (kind, mn, mx, tuple(rec(c) for c in s))
    return rec(shape)


def models_of_shape(shape, occs, maxdev, kinds_filter=None):
    n, lv, g = count_nodes(shape)
    for kinds in product(('seq', 'cho'), repeat=g):
        if kinds_filter is not None and kinds != kinds_filter:
            continue
        for oa in occ_assignments(n, occs, maxdev):
            for lets in rgs(lv):
                yield assemble(shape, kinds, oa, lets)


def shard_keys(n):
    """(shape index, kinds) pairs for sharding M(n, ...)."""
    out = []
    for si, shape in enumerate(shapes(n)):
        _, _, g = count_nodes(shape)
        for kinds in product(('seq', 'cho'), repeat=g):
            out.append((si, kinds))
    return out


def count_models(n, occs, maxdev):
    return sum(1 for shape in shapes(n) for _ in models_of_shape(shape, occs, maxdev))


# --- rendering ----------------------------------------------------------------------------------

def occ_attrs(mn, mx):
    s = ''
    if mn != 1:
        s += ' minOccurs="%d"' % mn
    if mx != 1:
        s += ' maxOccurs="%s"' % ('unbounded' if mx is None else mx)
    return s


def render(n, leaf=None):
    """XSD text of a model tree.  leaf(n) may override the rendering of a leaf."""
    kind, mn, mx = n[0], n[1], n[2]
    if kind in ('el', 'any'):
        if leaf is not None:
            r = leaf(n)
            if r is not None:
                return r
        if kind == 'el':
            return '<xs:element name="%s" type="xs:string"%s/>' % (n[4], occ_attrs(mn, mx))
        raise ValueError('wildcard leaf needs a leaf renderer')
    tag = {'seq': 'sequence', 'cho': 'choice', 'all': 'all'}[kind]
    return '<xs:%s%s>%s</xs:%s>' % (tag, occ_attrs(mn, mx), ''.join(render(c, leaf) for c in n[3]), tag)


def show(n):
    return regex.show(n)


# --- leaf variants and the schema frame -------------------------------------------------------------
# Concrete symbols (element names an instance may use):
#   a b c      elements of the target namespace used as leaves (local declarations, or refs to globals)
#   h m n      substitution groups: head h with member m; abstract head habs with member n (global)
#   y z        a deep substitution group: head y, abstract member ymid, member z of ymid (z substitutes y only
#              through the abstract ymid).  The letters sort after every other symbol, so that shortest-first,
#              alphabet-ordered witness searches are unchanged for models that do not use them.
#   x          an undeclared name of the target namespace
#   o          an element of another namespace (urn:o), globally declared there? no: undeclared
#   l          an element in no namespace, undeclared
TNS = 'urn:t'
SYMBOL_XML = {
    'a': 't:a', 'b': 't:b', 'c': 't:c', 'h': 't:h', 'm': 't:m', 'n': 't:n', 'x': 't:x', 'o': 'o:x', 'l': 'x',
    'y': 't:y', 'z': 't:z',
}
SYMBOL_TAG = {
    'a': '{urn:t}a', 'b': '{urn:t}b', 'c': '{urn:t}c', 'h': '{urn:t}h', 'm': '{urn:t}m', 'n': '{urn:t}n',
    'x': '{urn:t}x', 'o': '{urn:o}x', 'l': 'x', 'y': '{urn:t}y', 'z': '{urn:t}z',
}
ALL_SYMBOLS = 'abchmnxolyz'
WILD = {
    '~any': ('##any', frozenset('abchmnxolyz')),
    '~other': ('##other', frozenset('o')),
    '~tns': ('##targetNamespace', frozenset('abchmnxyz')),
    '~local': ('##local', frozenset('l')),
    # XSD 1.1 negative constraints (rendered as notNamespace; XSD 1.0 refuses them)
    '~notT': ('not:##targetNamespace', frozenset('ol')),
    '~notL': ('not:##local', frozenset('abchmnxoyz')),
    '~notTL': ('not:##targetNamespace ##local', frozenset('o')),
}


def el(name, mn=1, mx=1):
    return ('el', mn, mx, frozenset([name]), name)


def el_typed(name, typ, mn=1, mx=1):
    return ('el', mn, mx, frozenset([name]), '%s:%s' % (name, typ))


def el_ref(name, mn=1, mx=1):
    return ('el', mn, mx, frozenset([name]), '@' + name)


def head(mn=1, mx=1, abstract=False, deep=False):
    if deep:
        return ('el', mn, mx, frozenset('yz'), 'Hdeep')
    return ('el', mn, mx, frozenset('n') if abstract else frozenset('hm'), 'Habs' if abstract else 'H')


def wild(kind, mn=1, mx=1):
    return ('any', mn, mx, WILD[kind][1], kind)


def leaf_xsd(n):
    """Leaf renderer for render(): understands the labels above."""
    label, occ = n[4], occ_attrs(n[1], n[2])
    if n[0] == 'any':
        ns = WILD[label][0]
        if ns.startswith('not:'):
            return '<xs:any notNamespace="%s" processContents="lax"%s/>' % (ns[4:], occ)
        return '<xs:any namespace="%s" processContents="lax"%s/>' % (ns, occ)
    if label in ('H', 'Habs', 'Hdeep'):
        return '<xs:element ref="t:%s"%s/>' % ({'H': 'h', 'Habs': 'habs', 'Hdeep': 'y'}[label], occ)
    if label.startswith('@'):
        return '<xs:element ref="t:%s"%s/>' % (label[1:], occ)
    if ':' in label:
        name, typ = label.split(':')
        if typ.startswith('anon'):
            base = {'anon1': 'xs:string', 'anon2': 'xs:int', 'anon3': 'xs:string'}[typ]
            return ('<xs:element name="%s"%s><xs:simpleType><xs:restriction base="%s"/></xs:simpleType></xs:element>'
                    % (name, occ, base))
        if typ == 'untyped':
            return '<xs:element name="%s"%s/>' % (name, occ)
        return '<xs:element name="%s" type="xs:%s"%s/>' % (name, typ, occ)
    return None


SCHEMA_HEAD = ('<xs:schema xmlns:xs="http://www.w3.org/2001/XMLSchema" targetNamespace="urn:t" xmlns:t="urn:t" '
               'elementFormDefault="qualified">\n'
               '<xs:element name="a" type="xs:string"/>\n<xs:element name="b" type="xs:string"/>\n'
               '<xs:element name="c" type="xs:string"/>\n'
               '<xs:element name="h" type="xs:string"/>\n<xs:element name="habs" type="xs:string" abstract="true"/>\n'
               '<xs:element name="m" type="xs:string" substitutionGroup="t:h"/>\n'
               '<xs:element name="n" type="xs:string" substitutionGroup="t:habs"/>\n'
               '<xs:element name="y" type="xs:string"/>\n'
               '<xs:element name="ymid" type="xs:string" abstract="true" substitutionGroup="t:y"/>\n'
               '<xs:element name="z" type="xs:string" substitutionGroup="t:ymid"/>\n')
SCHEMA_TAIL = '</xs:schema>\n'


def element_decl(name, model, open_content=''):
    return '<xs:element name="%s"><xs:complexType>%s%s</xs:complexType></xs:element>\n' % (
        name, open_content, render(model, leaf_xsd))


def type_decl(name, model):
    return '<xs:complexType name="%s">%s</xs:complexType>\n' % (name, render(model, leaf_xsd))


def instance(root, word):
    """XML text of <t:root> with the children named by the symbols of word."""
    kids = ''.join('<%s>v</%s>' % (SYMBOL_XML[s], SYMBOL_XML[s]) for s in word)
    return '<t:%s xmlns:t="urn:t" xmlns:o="urn:o">%s</t:%s>' % (root, kids, root)


def replace_leaf(model, index, new_leaf_fn):
    """Returns the model with its index-th leaf (pre-order) replaced by new_leaf_fn(old_leaf)."""
    counter = [0]

    def rec(n):
        if is_leaf(n):
            i = counter[0]
            counter[0] += 1
            return new_leaf_fn(n) if i == index else n
        return (n[0], n[1], n[2], tuple(rec(c) for c in n[3]))
    return rec(model)


def is_leaf(n):
    return n[0] in ('el', 'any')


def leaves(model):
    if is_leaf(model):
        return [model]
    out = []
    for c in model[3]:
        out += leaves(c)
    return out


def model_symbols(model):
    s = set()
    for lf in leaves(model):
        s |= lf[3]
    return s
