"""Documents for C06 (lazy == eager): every ordered tree inside a (height, fan-out, nodes) bound over a
recursive schema, in five flavours, every placement of <= 2 faults; plus the paired corpus files.

A tree is a nested tuple of children: () is a leaf, ((), ((),)) a root with a leaf and a one-child node.
Nodes are numbered in document (pre-)order, the root is node 0 at level 0.  Nothing here imports xmlschema.
"""
import os
import re
import shlex
from functools import lru_cache

XS = 'http://www.w3.org/2001/XMLSchema'
FLAVOURS = ('plain', 'id', 'key', 'keyref', 'ns')
FANOUT = 3

# ---------------------------------------------------------------------------------------------
# shapes

@lru_cache(maxsize=None)
def _forests(n, height, k):
    """Ordered forests of exactly k trees with n nodes in total, each tree of height <= height."""
    if k == 0:
        return ((),) if n == 0 else ()
    out = []
    for first in range(1, n - (k - 1) + 1):
        heads = _trees(first, height)
        if not heads:
            continue
        tails = _forests(n - first, height, k - 1)
        for h in heads:
            for t in tails:
                out.append((h,) + t)
    return tuple(out)


@lru_cache(maxsize=None)
def _trees(n, height):
    """Ordered trees with exactly n nodes, height (edges) <= height, fan-out <= FANOUT."""
    if n == 1:
        return ((),)
    if height == 0:
        return ()
    out = []
    for k in range(1, FANOUT + 1):
        out.extend(_forests(n - 1, height - 1, k))
    return tuple(out)


def trees(height, nodes):
    """Every tree with <= nodes nodes and height <= height, smallest first."""
    out = []
    for n in range(1, nodes + 1):
        out.extend(_trees(n, height))
    return out


def show(tree):
    """Canonical text of a shape: '(()(()))'."""
    return '(' + ''.join(show(c) for c in tree) + ')'


def parse_shape(text):
    stack = [[]]
    for ch in text:
        if ch == '(':
            stack.append([])
        else:
            done = tuple(stack.pop())
            stack[-1].append(done)
    return stack[0][0]


def nodes_of(tree):
    """[(index, level, parent index or None, number of children, child position)] in document order."""
    out = []

    def walk(t, level, parent, pos):
        i = len(out)
        out.append([i, level, parent, len(t), pos])
        for p, c in enumerate(t):
            walk(c, level + 1, i, p)
    walk(tree, 0, None, 0)
    return [tuple(x) for x in out]


def level_counts(tree):
    counts = {}
    for _i, level, _p, _k, _pos in nodes_of(tree):
        counts[level] = counts.get(level, 0) + 1
    return counts


# ---------------------------------------------------------------------------------------------
# schemas

_TYPE = ('<xs:complexType name="N"><xs:sequence><xs:element name="t" type="xs:int" minOccurs="0"/>%s'
         '</xs:sequence><xs:attribute name="v" type="xs:int" use="required"/>%s</xs:complexType>')
_NREF = '<xs:element name="n" type="N" minOccurs="0" maxOccurs="3"/>'
_HEAD = '<xs:schema xmlns:xs="%s">' % XS

SCHEMAS = {
    'plain': _HEAD + '<xs:element name="r" type="N"/>' + _TYPE % (_NREF, '') + '</xs:schema>',
    'id': _HEAD + '<xs:element name="r" type="N"/>' + _TYPE % (
        _NREF, '<xs:attribute name="id" type="xs:ID"/><xs:attribute name="ref" type="xs:IDREF"/>') + '</xs:schema>',
    'key': _HEAD + '<xs:element name="r" type="N"><xs:key name="K"><xs:selector xpath="n/n"/><xs:field xpath="@k"/>'
                   '</xs:key></xs:element>' + _TYPE % (_NREF, '<xs:attribute name="k" type="xs:int"/>') + '</xs:schema>',
    'keyref': _HEAD + '<xs:element name="r" type="N">'
                      '<xs:key name="RK"><xs:selector xpath=".//n"/><xs:field xpath="@k"/></xs:key>'
                      '<xs:keyref name="RR" refer="RK"><xs:selector xpath=".//n"/><xs:field xpath="@g"/></xs:keyref>'
                      '</xs:element>' + _TYPE % (
        '<xs:element name="n" type="N" minOccurs="0" maxOccurs="3">'
        '<xs:key name="NK"><xs:selector xpath="n"/><xs:field xpath="@k"/></xs:key>'
        '<xs:keyref name="NR" refer="NK"><xs:selector xpath="n"/><xs:field xpath="@s"/></xs:keyref></xs:element>',
        '<xs:attribute name="k" type="xs:int"/><xs:attribute name="g" type="xs:int"/>'
        '<xs:attribute name="s" type="xs:int"/>') + '</xs:schema>',
    'ns': '<xs:schema xmlns:xs="%s" xmlns="urn:t" targetNamespace="urn:t" elementFormDefault="qualified">' % XS +
          '<xs:element name="r" type="N"/>' + _TYPE % (_NREF, '<xs:attribute name="q" type="xs:QName"/>') +
          '</xs:schema>',
}

# fault kinds per flavour (a fault that is not applicable to a node is not placed there)
FAULTS = {
    'plain': ('A', 'X', 'T'),
    'id': ('A', 'D', 'R'),
    'key': ('A', 'D', 'M'),
    'keyref': ('D', 'R', 'S'),
    'ns': ('A', 'X', 'Q'),
}
FAULT_TEXT = {
    'A': 'attribute v is not an integer', 'X': 'an undeclared child element z is appended',
    'T': 'non-integer text in t (leaf) / character data in element-only content (inner node)',
    'D': 'duplicated ID / key value', 'R': 'dangling IDREF / root-scope keyref', 'M': 'key field missing',
    'S': 'dangling keyref in the nested scope', 'Q': 'QName with an undeclared prefix',
}


def applicable(flavour, tree, index, kind):
    info = nodes_of(tree)
    _i, level, parent, _nch, _pos = info[index]
    if flavour == 'key' and kind in 'DM':
        if level != 2:
            return False
        if kind == 'D':
            return sum(1 for x in info if x[1] == 2) >= 2
        return True
    if flavour == 'keyref':
        if index == 0:
            return False                      # the selectors select n elements only
        if kind == 'D':
            return len(info) >= 3             # needs another n to collide with
        if kind == 'S':
            return level >= 2                 # NK/NR scopes are the n elements (level >= 1), members their children
    if flavour == 'id' and kind == 'D':
        return len(info) >= 2
    return True


def fault_sets(flavour, tree, maxfaults):
    """Every assignment {node index: kind} with <= maxfaults faults, fewest faults first."""
    info = nodes_of(tree)
    slots = [(i, k) for i in range(len(info)) for k in FAULTS[flavour] if applicable(flavour, tree, i, k)]
    out = [()]
    if maxfaults >= 1:
        out.extend((s,) for s in slots)
    if maxfaults >= 2:
        for a in range(len(slots)):
            for b in range(a + 1, len(slots)):
                if slots[a][0] != slots[b][0]:
                    out.append((slots[a], slots[b]))
    return out


def show_faults(faults):
    return ','.join('%d%s' % (i, k) for i, k in faults) or '-'


def parse_faults(text):
    if text == '-':
        return ()
    return tuple((int(x[:-1]), x[-1]) for x in text.split(','))


# ---------------------------------------------------------------------------------------------
# rendering; returns the text and the reference element stream in document order

def render(flavour, tree, faults):
    """-> (xml text, stream); stream = [(level, tag, text, attrib dict, in-scope nsmap dict)] in document order."""
    info = nodes_of(tree)
    fault = dict(faults)
    n = len(info)
    level2 = [x[0] for x in info if x[1] == 2]
    children = {}
    for i, _l, p, _k, _pos in info:
        children.setdefault(p, []).append(i)
    ns_t = '{urn:t}' if flavour == 'ns' else ''

    def attrs_of(i, level, parent, pos):
        f = fault.get(i)
        a = [('v', 'x' if f == 'A' else str(i))]
        if flavour == 'id':
            other = (i - 1) if i else 1
            a.append(('id', 'i%d' % (other if f == 'D' else i)))
            a.append(('ref', 'nope%d' % i if f == 'R' else 'i%d' % ((i + 1) % n)))
        elif flavour == 'key':
            if f == 'D':
                k = level2.index(i)
                a.append(('k', str(level2[k - 1] if k else level2[1])))
            elif f != 'M':
                a.append(('k', str(i)))
        elif flavour == 'keyref' and i:
            other = 2 if i == 1 else 1
            a.append(('k', str(other if f == 'D' else i)))
            a.append(('g', '99' if f == 'R' else str(n - 1 if i < n - 1 else 1)))
            if level >= 2:
                sibs = children[parent]
                a.append(('s', '98' if f == 'S' else str(sibs[(pos + 1) % len(sibs)])))
        elif flavour == 'ns':
            a.append(('q', 'u:a' if f == 'Q' else 'x:a'))
        return a

    counter = [0]

    def build(t, level, parent, pos, scope):
        """The document as plain nodes: [qname, tag, declarations, attrs, own text, kids, scope, level]."""
        i = counter[0]
        counter[0] += 1
        f = fault.get(i)
        name = 'n' if i else 'r'
        decl = []
        if flavour == 'ns':
            style = 0 if i == 0 else i % 3
            if style == 0:
                decl = [('', 'urn:t'), ('x', 'urn:x%d' % i)] + ([('y', 'urn:y')] if i == 0 else [])
            elif style == 1:
                decl = [('p', 'urn:t'), ('', 'urn:o%d' % i), ('x', 'urn:x%d' % i)]
            scope = dict(scope)
            scope.update(decl)
        pfx = '' if flavour != 'ns' or scope.get('') == 'urn:t' else 'p:'
        node = [pfx + name, ns_t + name, decl, attrs_of(i, level, parent, pos), None, [], scope, level]
        if not t:
            node[5].append([pfx + 't', ns_t + 't', [], [], 'x' if f == 'T' else str(i), [], scope, level + 1])
        elif f == 'T':
            node[4] = 'oops'
        for p, c in enumerate(t):
            node[5].append(build(c, level + 1, i, p, scope))
        if f == 'X':
            node[5].append([pfx + 'z', ns_t + 'z', [], [], None, [], scope, level + 1])
        return node

    out, stream = [], []

    def write(node):
        qname, tag, decl, attrs, text, kids, scope, level = node
        out.append('<' + qname)
        for p, u in decl:
            out.append(' xmlns%s="%s"' % (':' + p if p else '', u))
        for k, v in attrs:
            out.append(' %s="%s"' % (k, v))
        if kids:
            text = (text or '') + '\n' + '  ' * (level + 1)
        stream.append((level, tag, text, dict(attrs), dict(scope)))
        if text is None:
            out.append('/>')
            return
        out.append('>' + text)
        for k, kid in enumerate(kids):
            write(kid)
            out.append('\n' + '  ' * (level + (k < len(kids) - 1)))
        out.append('</%s>' % qname)

    write(build(tree, 0, None, 0, {}))
    return ''.join(out), stream


# ---------------------------------------------------------------------------------------------
# wide documents: a root with N leaf children, serialised just below / just above one read of the pull parser
# (16 KiB) and at about 2.5 and 4 reads, so that the streamed children arrive in several parser chunks

PARSER_READ = 16 * 1024
WIDE_FLAVOURS = ('plain', 'id', 'key', 'keyref', 'ns')
WIDE_SIZES = ('below1', 'above1', 'x2.5', 'x4')
WIDE_FAULT = {'plain': 'A', 'id': 'R', 'key': 'D', 'keyref': 'R', 'ns': 'X'}
WIDE_VARIANTS = ('-', 'first', 'last')
_PAD = '\n' + ' ' * 96                  # ignorable white space after every child

_WIDE_KEY = '<xs:key name="K"><xs:selector xpath="n"/><xs:field xpath="@k"/></xs:key>'
WIDE_SCHEMAS = {f: SCHEMAS[f].replace('maxOccurs="3"', 'maxOccurs="unbounded"') for f in ('plain', 'id', 'ns')}
_WNREF = _NREF.replace('maxOccurs="3"', 'maxOccurs="unbounded"')
WIDE_SCHEMAS['key'] = _HEAD + '<xs:element name="r" type="N">' + _WIDE_KEY + '</xs:element>' + _TYPE % (
    _WNREF, '<xs:attribute name="k" type="xs:int"/>') + '</xs:schema>'
WIDE_SCHEMAS['keyref'] = _HEAD + '<xs:element name="r" type="N">' + _WIDE_KEY + (
    '<xs:keyref name="KR" refer="K"><xs:selector xpath="n"/><xs:field xpath="@g"/></xs:keyref></xs:element>') + _TYPE % (
    _WNREF, '<xs:attribute name="k" type="xs:int"/><xs:attribute name="g" type="xs:int"/>') + '</xs:schema>'


def render_wide(flavour, n, variant):
    """-> (xml text, stream) for a root with n leaf children (numbered 1..n); variant '-' is valid, 'first' / 'last'
    put the fault of the flavour on child 2 / child n (the duplicate key and the dangling references are made
    against a child that lies in another parser chunk whenever there is more than one)."""
    bad = {'-': 0, 'first': 2, 'last': n}[variant]
    kind = WIDE_FAULT[flavour]
    ns_t = '{urn:t}' if flavour == 'ns' else ''
    root_scope = {'': 'urn:t', 'x': 'urn:x0', 'y': 'urn:y'} if flavour == 'ns' else {}
    out, stream = [], []
    rattrs = [('v', '0')] + ([('id', 'i0'), ('ref', 'i%d' % n)] if flavour == 'id' else []) + (
        [('q', 'x:a')] if flavour == 'ns' else [])
    out.append('<r' + ''.join(' xmlns%s="%s"' % (':' + p if p else '', u) for p, u in root_scope.items()) +
               ''.join(' %s="%s"' % kv for kv in rattrs) + '>' + _PAD)
    stream.append((0, ns_t + 'r', _PAD, dict(rattrs), dict(root_scope)))
    far = lambda i: (i + n // 2 - 1) % n + 1            # a child about half the document away
    for i in range(1, n + 1):
        f = kind if i == bad else None
        attrs = [('v', 'x' if f == 'A' else str(i))]
        if flavour == 'id':
            attrs += [('id', 'i%d' % i), ('ref', 'nope' if f == 'R' else 'i%d' % far(i))]
        elif flavour == 'key':
            attrs += [('k', str(n if i == 2 else 1) if f == 'D' else str(i))]
        elif flavour == 'keyref':
            attrs += [('k', str(i)), ('g', '0' if f == 'R' else str(far(i)))]
        elif flavour == 'ns':
            attrs += [('q', 'x:a')]
        decl, scope = [], root_scope
        if flavour == 'ns' and i % 3 != 2:
            decl = [('', 'urn:t'), ('x', 'urn:x%d' % i)] if i % 3 == 0 else \
                [('p', 'urn:t'), ('', 'urn:o%d' % i), ('x', 'urn:x%d' % i)]
            scope = dict(root_scope)
            scope.update(decl)
        pfx = '' if flavour != 'ns' or scope.get('') == 'urn:t' else 'p:'
        out.append('<%sn' % pfx + ''.join(' xmlns%s="%s"' % (':' + p if p else '', u) for p, u in decl) +
                   ''.join(' %s="%s"' % kv for kv in attrs) + '><%st>%d</%st>' % (pfx, i, pfx))
        stream.append((1, ns_t + 'n', None, dict(attrs), dict(scope)))
        stream.append((2, ns_t + 't', str(i), {}, dict(scope)))
        if f == 'X':
            out.append('<%sz/>' % pfx)
            stream.append((2, ns_t + 'z', None, {}, dict(scope)))
        out.append('</%sn>' % pfx + _PAD)
    out.append('</r>')
    return ''.join(out), stream


def wide_children(flavour, size):
    """Number of children for which the valid document is just below one parser read, just above it, ~2.5 or ~4 reads."""
    below = 1
    while len(render_wide(flavour, below + 1, '-')[0]) < PARSER_READ:
        below += 1
    per = len(render_wide(flavour, below, '-')[0]) / below
    return {'below1': below, 'above1': below + 2, 'x2.5': int(2.5 * PARSER_READ / per), 'x4': int(4 * PARSER_READ / per)}[size]


# ---------------------------------------------------------------------------------------------
# corpus: pair the XML files of /repo/tests/test_cases as the test suite does (tests/test_cases/testfiles lines),
# the remaining XML files are paired through their own schema location hints

def corpus(repo):
    """-> list of dicts {xml, version, locations, listed, expected_errors} sorted by path."""
    base = os.path.join(repo, 'tests', 'test_cases')
    listed = {}
    index = os.path.join(base, 'testfiles')
    if os.path.isfile(index):
        buf = ''
        with open(index, encoding='utf-8') as f:
            for raw in f:
                line = raw.split('#', 1)[0].strip()
                if not line:
                    continue
                if line.endswith('\\'):
                    buf += line[:-1] + ' '
                    continue
                line, buf = buf + line, ''
                parts = shlex.split(line)
                name = parts[0]
                if not name.lower().endswith('.xml'):
                    continue
                rec = {'xml': os.path.join(base, name), 'version': '1.0', 'locations': None, 'listed': True,
                       'expected_errors': 0}
                k = 1
                while k < len(parts):
                    p = parts[k]
                    if p == '-L' and k + 2 < len(parts) + 1:
                        rec['locations'] = rec['locations'] or {}
                        rec['locations'][parts[k + 1]] = parts[k + 2]
                        k += 3
                        continue
                    m = re.match(r'--(version|errors)(?:=(.*))?$', p)
                    if m:
                        val = m.group(2)
                        if val is None:
                            val = parts[k + 1]
                            k += 1
                        if m.group(1) == 'version':
                            rec['version'] = val
                        else:
                            rec['expected_errors'] = int(val)
                    k += 1
                if os.path.isfile(rec['xml']):
                    listed.setdefault((rec['xml'], rec['version']), rec)
    out = list(listed.values())
    seen = {r['xml'] for r in out}
    for d, _dirs, files in sorted(os.walk(base)):
        for fn in sorted(files):
            path = os.path.join(d, fn)
            if fn.lower().endswith('.xml') and path not in seen:
                out.append({'xml': path, 'version': '1.0', 'locations': None, 'listed': False, 'expected_errors': None})
    out.sort(key=lambda r: (r['xml'], r['version']))
    return out
