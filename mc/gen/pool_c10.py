"""Schema, document pool and operation menu for the history (C10) and schedule (C18) explorers.

The pool is built to collide on the shared mutable state found by reading the code: XsdElement.xsi_types and
the identity-selector widening it triggers, the per-schema scratch validation context, the SchemaCache lru
caches, cached_property slots, XPath node trees.
"""
import re

import xmlschema
from xmlschema import XMLSchema10, XMLSchema11, XMLResource
from xmlschema.validators.exceptions import XMLSchemaValidationError, XMLSchemaStopValidation

VERSIONS = {'1.0': XMLSchema10, '1.1': XMLSchema11}

SCHEMA = '''<xs:schema xmlns:xs="http://www.w3.org/2001/XMLSchema" elementFormDefault="qualified">
 <xs:element name="root">
  <xs:complexType>
   <xs:sequence>
    <xs:element name="item" type="Item" maxOccurs="unbounded"/>
    <xs:element name="ref" type="xs:IDREF" minOccurs="0" maxOccurs="unbounded"/>
    <xs:element name="fx" type="xs:decimal" fixed="1.0" minOccurs="0"/>
    <xs:element name="val" type="Val" minOccurs="0" maxOccurs="unbounded"/>
    <xs:element name="bitem" type="Item" block="extension" minOccurs="0" maxOccurs="unbounded"/>
    <xs:element ref="sh" minOccurs="0" maxOccurs="unbounded"/>
    <xs:element name="s1" minOccurs="0">
     <xs:complexType><xs:sequence><xs:element ref="gl" maxOccurs="unbounded"/></xs:sequence></xs:complexType>
     <xs:unique name="US1"><xs:selector xpath=".//sub"/><xs:field xpath="@n"/></xs:unique>
    </xs:element>
    <xs:element name="s2" minOccurs="0">
     <xs:complexType><xs:sequence><xs:element ref="gl" maxOccurs="unbounded"/></xs:sequence></xs:complexType>
     <xs:unique name="US2"><xs:selector xpath=".//sub"/><xs:field xpath="@n"/></xs:unique>
    </xs:element>
    %(avelem)s
    <xs:any namespace="##other" processContents="lax" minOccurs="0" maxOccurs="unbounded"/>
   </xs:sequence>
   <xs:anyAttribute namespace="##other" processContents="lax"%(notq)s/>
   %(assert)s
  </xs:complexType>
  <xs:key name="K"><xs:selector xpath="item"/><xs:field xpath="@k"/></xs:key>
  <xs:unique name="U"><xs:selector xpath="item/sub"/><xs:field xpath="@n"/></xs:unique>
  <xs:unique name="UC"><xs:selector xpath="item"/><xs:field xpath="@code"/></xs:unique>
  <xs:keyref name="R" refer="K"><xs:selector xpath="item/link"/><xs:field xpath="@to"/></xs:keyref>
 </xs:element>
 <xs:complexType name="Item">
  <xs:sequence>
   <xs:element name="link" type="LinkT" minOccurs="0" maxOccurs="unbounded"/>
  </xs:sequence>
  <xs:attribute name="k" type="xs:int" use="required"/>
  <xs:attribute name="id" type="xs:ID"/>
  <xs:attribute name="code" type="xs:string"/>
 </xs:complexType>
 <xs:complexType name="LinkT"><xs:attribute name="to" type="xs:int" use="required"/></xs:complexType>
 <xs:complexType name="ItemTok">
  <xs:complexContent>
   <xs:restriction base="Item">
    <xs:sequence>
     <xs:element name="link" type="LinkT" minOccurs="0" maxOccurs="unbounded"/>
    </xs:sequence>
    <xs:attribute name="code" type="xs:token"/>
   </xs:restriction>
  </xs:complexContent>
 </xs:complexType>
 <xs:complexType name="ItemExt">
  <xs:complexContent>
   <xs:extension base="Item">
    <xs:sequence>
     <xs:element name="sub" maxOccurs="unbounded">
      <xs:complexType><xs:attribute name="n" type="xs:int"/></xs:complexType>
     </xs:element>
    </xs:sequence>
   </xs:extension>
  </xs:complexContent>
 </xs:complexType>
 <xs:simpleType name="Val"><xs:restriction base="xs:integer"><xs:maxInclusive value="10"/></xs:restriction></xs:simpleType>
 <xs:element name="gl" type="Item">
  <xs:unique name="UG"><xs:selector xpath="."/><xs:field xpath="@k"/></xs:unique>
 </xs:element>
 <xs:element name="sh" type="xs:string"/>
 <xs:element name="sm" type="xs:string" substitutionGroup="sh"/>
 %(avtype)s
 <xs:simpleType name="MyId"><xs:restriction base="xs:ID"/></xs:simpleType>
 <xs:simpleType name="ValSmall"><xs:restriction base="Val"><xs:maxInclusive value="5"/></xs:restriction></xs:simpleType>
</xs:schema>
'''
ASSERT11 = '<xs:assert test="count(item) le 3"/>'
AVELEM11 = '<xs:element name="av" type="AssertVal" minOccurs="0" maxOccurs="unbounded"/>'
AVTYPE11 = ('<xs:simpleType name="AssertVal"><xs:restriction base="xs:integer"><xs:assertion test="$value lt 10"/>'
            '</xs:restriction></xs:simpleType>')


def schema_text(version):
    v11 = version == '1.1'
    return SCHEMA % {'assert': ASSERT11 if v11 else '', 'avelem': AVELEM11 if v11 else '', 'avtype': AVTYPE11 if v11 else '',
                     'notq': ' notQName="##defined"' if v11 else ''}

XSI = 'xmlns:xsi="http://www.w3.org/2001/XMLSchema-instance"'

DOCS = {
    'plain': '<root><item k="1"/><item k="2"><link to="1"/></item></root>',
    'dupkey': '<root><item k="1"/><item k="01"/></root>',
    'ext-ok': '<root %s><item k="1" xsi:type="ItemExt"><sub n="1"/><sub n="2"/></item></root>' % XSI,
    'ext-dup': '<root %s><item k="1" xsi:type="ItemExt"><sub n="1"/><sub n="01"/></item></root>' % XSI,
    'dangling': '<root><item k="1"><link to="9"/></item></root>',
    'ids': '<root><item k="1" id="a"/><item k="2" id="a"/><ref>zz</ref></root>',
    'wild-fixed': '<root><item k="1" id="a"/><ref>a</ref><fx>1.00</fx><o:x xmlns:o="urn:o" a="1">t</o:x></root>',
    'fixed-bad': '<root><item k="1"/><fx>2</fx></root>',
    'four': '<root><item k="1"/><item k="2"/><item k="3"/><item k="4"/></root>',
    'broken': '<root><item>junk</item><bogus/></root>',
    'blocked': '<root %s><item k="1"/><bitem k="2" xsi:type="ItemExt"><sub n="1"/></bitem></root>' % XSI,
    'tok-type': '<root %s><item k="1" xsi:type="ItemTok" code="a  b"/><item k="2" code="c"/></root>' % XSI,
    'codes': '<root><item k="1" code="a  b"/><item k="2" code="a b"/></root>',
    'g1-ext': '<root %s><item k="1"/><s1><gl k="1" xsi:type="ItemExt"><sub n="1"/><sub n="2"/></gl></s1></root>' % XSI,
    'g1-dup': '<root %s><item k="1"/><s1><gl k="1" xsi:type="ItemExt"><sub n="1"/><sub n="01"/></gl></s1></root>' % XSI,
    'g2-dup': '<root %s><item k="1"/><s2><gl k="1" xsi:type="ItemExt"><sub n="1"/><sub n="01"/></gl></s2></root>' % XSI,
    'xlink-type': ('<root %s><item k="1"/><x:foo xmlns:x="http://www.w3.org/1999/xlink" xsi:type="x:typeType">simple</x:foo></root>' % XSI),
    'xlink-attr': '<root xmlns:xl="http://www.w3.org/1999/xlink" xl:type="bogus"><item k="1"/></root>',
    'subst': '<root><item k="1"/><sh>x</sh><sm>y</sm></root>',
    'assert-lo': '<root><item k="1"/><av>5</av></root>',
    'assert-hi': '<root><item k="1"/><av>50</av></root>',
    'val-type': '<root %s><item k="1"/><val xsi:type="ValSmall">7</val><val>7</val></root>' % XSI,
}
DOC_NAMES = sorted(DOCS)
ST_TEXTS = ('7', '11', 'a')
OPS = ('is_valid', 'iter_errors', 'validate', 'decode', 'to_objects', 'hook-stop', 'lazy', 'encode')


def build(version):
    return VERSIONS[version](schema_text(version))


_ADDR = re.compile(r' at 0x[0-9a-fA-F]+')


def norm_error(e):
    reason = _ADDR.sub('', str(getattr(e, 'reason', None) or e))
    return (type(e).__name__, getattr(e, 'path', None), reason[:200])


def norm_errors(errs):
    return sorted(norm_error(e) for e in errs)


def norm_data(obj):
    return _ADDR.sub('', repr(obj))


def run_event(schema, event, encode_inputs=None):
    """Executes one (op, doc) event on the schema and returns a canonical, comparable result."""
    op, name = event
    try:
        if op == 'st-valid':
            # XsdSimpleType.text_is_valid()/text_decode() without a context go through the schema's scratch context
            return ('st-valid', schema.types['Val'].text_is_valid(name), schema.types['MyId'].text_is_valid(name),
                    schema.types['Val'].is_valid(name))
        if op == 'st-decode':
            out = []
            for tn in ('Val', 'MyId'):
                try:
                    out.append(norm_data(schema.types[tn].text_decode(name, 'lax')))
                except XMLSchemaValidationError as e:
                    out.append(norm_error(e))
                v, errs = schema.types[tn].decode(name, validation='lax')
                out.append((norm_data(v), norm_errors(errs)))
            return ('st-decode', out)
        doc = DOCS[name]
        if op == 'is_valid':
            return ('is_valid', schema.is_valid(doc))
        if op == 'iter_errors':
            return ('errors', norm_errors(schema.iter_errors(doc)))
        if op == 'validate':
            try:
                schema.validate(doc)
                return ('validate', 'ok')
            except XMLSchemaValidationError as e:
                return ('validate', norm_error(e))
        if op == 'decode':
            data, errs = schema.decode(doc, validation='lax')
            return ('decode', norm_data(data), norm_errors(errs))
        if op == 'to_objects':
            try:
                obj = schema.to_objects(doc, validation='lax')
                if isinstance(obj, tuple):
                    obj, errs = obj
                else:
                    errs = []
                return ('objects', _dump_obj(obj), norm_errors(errs))
            except XMLSchemaValidationError as e:
                return ('objects-raise', norm_error(e))
        if op == 'hook-stop':
            seen = []

            def hook(element, xsd_element):
                seen.append(element.tag)
                if len(seen) >= 2:
                    raise XMLSchemaStopValidation()
                return False
            errs = list(schema.iter_errors(doc, validation_hook=hook))
            return ('hook', norm_errors(errs), len(seen))
        if op == 'lazy':
            res = XMLResource(doc, lazy=True)
            return ('lazy-errors', norm_errors(schema.iter_errors(res)))
        if op == 'encode':
            data = (encode_inputs or {}).get(name)
            if data is None:
                return ('encode', 'no-input')
            out = schema.encode(data, path='root', validation='lax')
            elem, errs = out if isinstance(out, tuple) else (out, [])
            text = xmlschema.etree_tostring(elem) if elem is not None else None
            return ('encode', text, norm_errors(errs))
    except Exception as e:                                                  # noqa
        return ('EXC', type(e).__name__, _ADDR.sub('', str(e))[:200])
    raise ValueError(op)


def _dump_obj(obj):
    if obj is None:
        return None
    kids = [_dump_obj(c) for c in obj] if hasattr(obj, '__iter__') else []
    return (getattr(obj, 'tag', None), norm_data(getattr(obj, 'value', None)),
            sorted((getattr(obj, 'attrib', None) or {}).items()), kids)


def encode_inputs(version):
    """Decoded data of each document from a fresh schema (the inputs of the encode events)."""
    out = {}
    for name in DOC_NAMES:
        s = build(version)
        try:
            data, errs = s.decode(DOCS[name], validation='lax')
            out[name] = data
        except Exception:                                                   # noqa
            out[name] = None
    return out


def events(version):
    return [(op, name) for name in DOC_NAMES for op in OPS] + [(op, t) for t in ST_TEXTS for op in ('st-valid', 'st-decode')]
