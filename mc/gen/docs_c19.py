"""C19 generators: a tiny schema DSL with XSD rendering, the exhaustive list of valid instances of
each schema up to a node bound, a reference validator for the DSL (plain Python, decides whether a
damaged document is really invalid and where a child sequence first fails), the fault catalogue
(generic over ElementTree / lxml trees) and the pairing of the repository corpus files.
"""
import copy
import glob
import os
import re
import shlex
import xml.etree.ElementTree as ET

NS0, NS1 = 'urn:c19:a', 'urn:c19:b'
XS = 'http://www.w3.org/2001/XMLSchema'
XSI = 'http://www.w3.org/2001/XMLSchema-instance'
BAD = 'x!y'                       # not a literal of any non-string type of the catalogue
TEXT = 'txt'
UNKNOWN = 'c19zz'                 # local name of the inserted child (in the namespace of its parent)
UNKNOWN_ATTR = 'c19zz'
UNBOUNDED_CAP = 3                 # instances repeat an unbounded particle at most 3 times


# --- value catalogue ------------------------------------------------------------------------

def _is_int(v):
    v = v.strip(' \t\r\n')
    return bool(re.fullmatch(r'[+-]?[0-9]+', v)) and -2 ** 31 <= int(v) < 2 ** 31


def _is_date(v):
    m = re.fullmatch(r'-?([0-9]{4,})-([0-9]{2})-([0-9]{2})(Z|[+-][0-9]{2}:[0-9]{2})?', v.strip(' \t\r\n'))
    if not m:
        return False
    y, mo, d = int(m.group(1)), int(m.group(2)), int(m.group(3))
    if not 1 <= mo <= 12 or y == 0:
        return False
    dim = [31, 29 if (y % 4 == 0 and (y % 100 or y % 400 == 0)) else 28, 31, 30, 31, 30, 31, 31, 30, 31, 30, 31]
    return 1 <= d <= dim[mo - 1]


def _is_posint(v):
    return bool(re.fullmatch(r'\+?[0-9]+', v)) and int(v) > 0


SIMPLE = {      # name -> (XSD type, valid literals used by the enumerator, membership predicate)
    'int': ('xs:int', ('7', '42'), _is_int),
    'date': ('xs:date', ('2020-02-29',), _is_date),
    'bool': ('xs:boolean', ('true',), lambda v: v.strip(' \t\r\n') in ('true', 'false', '1', '0')),
    'colour': ('colour', ('red', 'blue'), lambda v: ' '.join(v.split()) in ('red', 'blue')),
    'dec': ('xs:decimal', ('9.50',), lambda v: bool(re.fullmatch(r'[+-]?([0-9]+(\.[0-9]*)?|\.[0-9]+)',
                                                                   v.strip(' \t\r\n')))),
    'str': ('xs:string', ('s',), lambda v: True),
    'id1': ('xs:int', ('1', '2'), _is_int),          # key / keyref fields
    'int1': ('xs:int', ('7',), _is_int),             # single literal: keeps the recursive schema small
    # union of xs:positiveInteger and an enumeration; the same restricted by a pattern; a pattern-restricted
    # token; a pattern-restricted list of xs:int (the predicates only ever see catalogue literals, BAD and '')
    'uw': ('uw', ('12500', 'large'), lambda v: _is_posint(v) or v in ('small', 'large')),
    'usz': ('usz', ('42', 'small'), lambda v: bool(re.fullmatch(r'[0-9]{1,3}|[a-z]+', v))
            and (_is_posint(v) or v in ('small', 'large'))),
    'pcode': ('pcode', ('AB1',), lambda v: bool(re.fullmatch(r'[A-Z]{2}[0-9]', v))),
    'plist': ('plist', ('1 2',), lambda v: bool(re.fullmatch(r'[0-9]+( [0-9]+)*', v))
              and all(_is_int(x) for x in v.split(' '))),
    # union(xs:int, xs:date) whose members both fail to *decode* BAD; the same restricted by a pattern; a union
    # with xs:NCName; the literals of 'nd' and 'ion' do not match the pattern of 'stamp'
    'nd': ('nd', ('2020-02-29Z',), lambda v: _is_int(v) or _is_date(v)),
    'stamp': ('stamp', ('2020-02-29',), lambda v: bool(re.fullmatch(r'[0-9\-]+', v)) and (_is_int(v) or _is_date(v))),
    'ion': ('ion', ('abc',), lambda v: _is_int(v) or bool(re.fullmatch(r'[A-Za-z_][A-Za-z0-9_.\-]*', v))),
}
LEAK_XSD = ('<xs:simpleType name="nd"><xs:union memberTypes="xs:int xs:date"/></xs:simpleType>'
            '<xs:simpleType name="stamp"><xs:restriction base="nd"><xs:pattern value="[0-9\\-]+"/></xs:restriction>'
            '</xs:simpleType>'
            '<xs:simpleType name="ion"><xs:union memberTypes="xs:int xs:NCName"/></xs:simpleType>')
UNION_XSD = ('<xs:simpleType name="sizeName"><xs:restriction base="xs:token"><xs:enumeration value="small"/>'
             '<xs:enumeration value="large"/></xs:restriction></xs:simpleType>'
             '<xs:simpleType name="uw"><xs:union memberTypes="xs:positiveInteger sizeName"/></xs:simpleType>'
             '<xs:simpleType name="usz"><xs:restriction base="uw"><xs:pattern value="[0-9]{1,3}|[a-z]+"/>'
             '</xs:restriction></xs:simpleType>'
             '<xs:simpleType name="pcode"><xs:restriction base="xs:token"><xs:pattern value="[A-Z]{2}[0-9]"/>'
             '</xs:restriction></xs:simpleType>'
             '<xs:simpleType name="ilist"><xs:list itemType="xs:int"/></xs:simpleType>'
             '<xs:simpleType name="plist"><xs:restriction base="ilist"><xs:pattern value="[0-9]+( [0-9]+)*"/>'
             '</xs:restriction></xs:simpleType>')
COLOUR_XSD = ('<xs:simpleType name="colour"><xs:restriction base="xs:token"><xs:enumeration value="red"/>'
              '<xs:enumeration value="blue"/></xs:restriction></xs:simpleType>')


# --- DSL ------------------------------------------------------------------------------------

class S:
    def __init__(self, name):
        self.name = name


class A:
    def __init__(self, name, stype, use='optional', fixed=None, ns=None, inheritable=False):
        self.name, self.stype, self.use, self.fixed, self.ns = name, stype, use, fixed, ns
        self.inheritable = inheritable               # XSD 1.1 only
        self.tag = '{%s}%s' % (ns, name) if ns else name


class E:
    def __init__(self, name, type, lo=1, hi=1, ns=None):
        self.name, self.type, self.lo, self.hi, self.ns = name, type, lo, hi, ns
        self.tag = '{%s}%s' % (ns, name) if ns else name


class R(E):
    """A reference to a global element of the same schema (allows recursive declarations)."""
    def __init__(self, target, lo=1, hi=1):
        self.target, self.lo, self.hi = target, lo, hi
        self.name, self.ns, self.tag = target.name, target.ns, target.tag

    @property
    def type(self):
        return self.target.type


class G:
    def __init__(self, kind, items, lo=1, hi=1):
        self.kind, self.items, self.lo, self.hi = kind, items, lo, hi


class CT:
    def __init__(self, content=None, attrs=(), mixed=False):
        self.content, self.attrs, self.mixed = content, tuple(attrs), mixed


def seq(*items, **kw):
    return G('seq', items, **kw)


def choice(*items, **kw):
    return G('choice', items, **kw)


INT, DATE, BOOL, COLOUR, DEC, STR, ID1 = (S(n) for n in ('int', 'date', 'bool', 'colour', 'dec', 'str', 'id1'))
UW, USZ, PCODE, PLIST, INT1 = (S(n) for n in ('uw', 'usz', 'pcode', 'plist', 'int1'))


def _specs():
    out = []

    def add(sid, root, target=None, others=(), identity=None, spellings=('prefixed',), note='', globals_=(),
            types='', version='1.0'):
        out.append({'id': sid, 'root': root, 'target': target, 'others': tuple(others), 'identity': identity,
                    'spellings': spellings, 'note': note, 'globals': tuple(globals_), 'types': types,
                    'version': version})

    # G1: three levels of nested anonymous complex types
    add('G01-nested3', E('r', CT(seq(
        E('a', CT(seq(E('b', CT(seq(E('c', INT), E('c2', BOOL, 0, 1)))), E('d', STR, 0, 1)))),
        E('e', DATE)))), note='nested complex types, 3 levels')
    # G2: required / optional / fixed attributes, empty content
    add('G02-attrs', E('r', CT(seq(E('item', CT(None, [A('k', INT, 'required'), A('o', COLOUR)]), 1, 2)),
                               [A('id', INT, 'required'), A('opt', COLOUR), A('fx', STR, fixed='F')])),
        note='attributes required/optional/fixed, empty content')
    # G3: simple content with attributes
    add('G03-simplecontent', E('r', CT(seq(
        E('price', CT(DEC, [A('cur', COLOUR, 'required'), A('rate', INT)]), 1, 2), E('note', STR, 0, 1)))),
        note='simple content with attributes')
    # G4: repeated same-named children, at two levels
    add('G04-repeated', E('r', CT(seq(E('x', INT, 1, 3), E('g', CT(seq(E('x', INT, 2, 2))), 0, 1),
                                      E('y', BOOL, 0, 2)))), note='repeated same-named children')
    # G5: two namespaces (import + ref), qualified attribute, two spellings of the documents
    yb = E('y', CT(seq(E('z', DATE, ns=NS1), E('w', INT, 0, 2, ns=NS1)), [A('q', INT, ns=NS1)]), ns=NS1)
    add('G05-twons', E('r', CT(seq(E('h', INT, ns=NS0), E('y', yb.type, 1, 2, ns=NS1), E('t', STR, 0, 1, ns=NS0)),
                               [A('v', INT, 'required')]), ns=NS0),
        target=NS0, others=[yb], spellings=('prefixed', 'default'), note='two namespaces')
    # G6: a choice between leaves and a nested branch
    add('G06-choice', E('r', CT(seq(choice(E('a', INT), E('b', DATE), E('c', CT(seq(E('d', BOOL, 1, 2))))),
                                    E('e', INT, 0, 1)))), note='choice')
    # G7: an optional group
    add('G07-optgroup', E('r', CT(seq(E('h', INT), seq(E('c', INT), E('d', DATE), lo=0, hi=1), E('t', BOOL)))),
        note='optional group')
    # G8: a repeated choice (moves inside it are not faults)
    add('G08-choicestar', E('r', CT(seq(choice(E('a', INT), E('b', BOOL), lo=0, hi=3), E('z', INT)))),
        note='choice{0,3}')
    # G9: unqualified local elements under a namespaced root, qualified attribute
    add('G09-unqualified', E('r', CT(seq(E('u', CT(seq(E('v', INT, 1, 2)), [A('k', INT, ns=NS0)])),
                                         E('w', COLOUR, 0, 1))), ns=NS0),
        target=NS0, spellings=('prefixed', 'default'), note='unqualified locals in a target namespace')
    # G10: key / keyref (faults on the fields are exempt from the outside-the-zone clause)
    add('G10-identity', E('r', CT(seq(E('item', CT(seq(E('n', STR, 0, 1)), [A('id', ID1, 'required')]), 1, 2),
                                      E('ref', CT(None, [A('to', ID1, 'required')]), 0, 1)))),
        identity={'key': ('item', 'id'), 'keyref': ('ref', 'to')}, note='key and keyref')
    # G11: mixed content beside element-only content
    add('G11-mixed', E('r', CT(seq(E('m', CT(seq(E('a', INT), E('b', COLOUR, 0, 1)), mixed=True)),
                                   E('p', CT(seq(E('a', INT, 1, 2))))))), note='mixed content')
    # G12: a recursive element: the tag recurs at several depths, under a parent of the same tag, below an
    # earlier sibling, and as repeated siblings at each level
    sec = E('s', None)
    sec.type = CT(seq(E('n', INT1), R(sec, 0, 2)), [A('k', INT1)])
    add('G12-recursive', E('r', CT(seq(R(sec, 1, 3)))), globals_=[sec], note='recursive element, same tag at several depths')
    # G13: pattern-restricted union values followed by other union values; pattern-restricted token and list
    add('G13-unions', E('r', CT(seq(E('a', USZ), E('b', USZ, 0, 1), E('w', UW), E('c', PCODE, 0, 1),
                                    E('l', PLIST, 0, 1), E('w2', UW, 0, 1)), [A('u', USZ)])),
        types=UNION_XSD, note='unions and lists restricted by patterns')
    # G14 (XSD 1.1 only): inheritable attributes on a simple-content element, on its element-only parent and on
    # the root (three nested scopes); every such attribute is present and absent in the instances
    m = E('m', CT(INT1, [A('unit', INT1, inheritable=True), A('n', INT1)]), 1, 2)
    g = E('g', CT(seq(m, E('note', INT1, 0, 1)), [A('lang', INT1, inheritable=True)]))
    add('G14-inheritable', E('r', CT(seq(g, E('z', INT1, 0, 1)), [A('top', INT1, inheritable=True)])), version='1.1',
        note='XSD 1.1 inheritable attributes, nested scopes')
    # G15: a pattern-restricted union whose members all fail to decode a bad value, used by repeated sibling
    # elements and attributes and followed by other union-typed values that do not match its pattern
    ND, STAMP, ION = S('nd'), S('stamp'), S('ion')
    rec = E('rec', CT(seq(E('when', STAMP), E('ref', ION), E('cnt', INT1, 0, 1)), [A('by', ION), A('at', STAMP)]), 1, 2)
    add('G15-unionleak', E('r', CT(seq(rec, E('last', ND, 0, 1)))), types=LEAK_XSD,
        note='pattern-restricted union(int, date) followed by other unions')
    return out


SPECS = _specs()
SPEC = {s['id']: s for s in SPECS}


# --- XSD rendering --------------------------------------------------------------------------

def _occ(p):
    s = ''
    if p.lo != 1:
        s += ' minOccurs="%d"' % p.lo
    if p.hi != 1:
        s += ' maxOccurs="%s"' % ('unbounded' if p.hi is None else p.hi)
    return s


def _render_type(t, target):
    if isinstance(t, S):
        return None
    parts = ['<xs:complexType%s>' % (' mixed="true"' if t.mixed else '')]
    attrs = ''.join('<xs:attribute name="%s" type="%s"%s%s%s%s/>' % (
        a.name, SIMPLE[a.stype.name][0], ' form="qualified"' if a.ns else '',
        ' use="required"' if a.use == 'required' else '', ' fixed="%s"' % a.fixed if a.fixed is not None else '',
        ' inheritable="true"' if a.inheritable else '')
        for a in t.attrs)
    if isinstance(t.content, S):
        parts.append('<xs:simpleContent><xs:extension base="%s">%s</xs:extension></xs:simpleContent>'
                     % (SIMPLE[t.content.name][0], attrs))
    else:
        if t.content is not None:
            parts.append(_render_particle(t.content, target))
        parts.append(attrs)
    parts.append('</xs:complexType>')
    return ''.join(parts)


def _render_particle(p, target):
    if isinstance(p, G):
        tag = 'sequence' if p.kind == 'seq' else 'choice'
        return '<xs:%s%s>%s</xs:%s>' % (tag, _occ(p), ''.join(_render_particle(i, target) for i in p.items), tag)
    if isinstance(p, R):
        return '<xs:element ref="%s"%s/>' % (p.name, _occ(p))
    if p.ns and p.ns != target:
        return '<xs:element ref="o:%s"%s/>' % (p.name, _occ(p))
    return _render_element(p, target, ' form="%s"' % ('qualified' if p.ns else 'unqualified') + _occ(p))


def _render_element(e, target, extra='', ident=''):
    if isinstance(e.type, S):
        return '<xs:element name="%s" type="%s"%s/>' % (e.name, SIMPLE[e.type.name][0], extra)
    return '<xs:element name="%s"%s>%s%s</xs:element>' % (e.name, extra, _render_type(e.type, target), ident)


def render(spec):
    """Returns the list of XSD texts of a spec (main schema first)."""
    def doc(target, other, globals_, identity=None):
        head = '<xs:schema xmlns:xs="%s"' % XS
        if target:
            head += ' targetNamespace="%s" xmlns="%s"' % (target, target)
        if other:
            head += ' xmlns:o="%s"' % other
        head += '>'
        if other:
            head += '<xs:import namespace="%s"/>' % other
        ident = ''
        if identity:
            (ksel, kf), (rsel, rf) = identity['key'], identity['keyref']
            ident = ('<xs:key name="k"><xs:selector xpath="%s"/><xs:field xpath="@%s"/></xs:key>'
                     '<xs:keyref name="kr" refer="k"><xs:selector xpath="%s"/><xs:field xpath="@%s"/></xs:keyref>'
                     % (ksel, kf, rsel, rf))
        body = ''.join(_render_element(g, target, ident=ident if g is spec['root'] else '') for g in globals_)
        return head + COLOUR_XSD + spec['types'] + body + '</xs:schema>'

    target = spec['target']
    texts = [doc(target, NS1 if spec['others'] else None, [spec['root']] + list(spec['globals']), spec['identity'])]
    if spec['others']:
        texts.append(doc(NS1, None, list(spec['others'])))
    return texts


# --- documents: tuple trees (tag, attrs, text, children) -----------------------------------

def _gen_attrs(attrs, budget):
    """Yields (tuple of (tag, value), count)."""
    if not attrs:
        yield (), 0
        return
    a, rest = attrs[0], attrs[1:]
    for tail, n in _gen_attrs(rest, budget):
        if a.use != 'required':
            yield tail, n
        if n + 1 <= budget:
            for v in ((a.fixed,) if a.fixed is not None else SIMPLE[a.stype.name][1]):
                yield ((a.tag, v),) + tail, n + 1


def _gen_elem(e, budget):
    """Yields (node, size) for every valid instance of the declaration with size <= budget."""
    if budget < 1:
        return
    t = e.type
    if isinstance(t, S):
        for v in SIMPLE[t.name][1]:
            yield (e.tag, (), v, ()), 1
        return
    for attrs, na in _gen_attrs(t.attrs, budget - 1):
        if isinstance(t.content, S):
            for v in SIMPLE[t.content.name][1]:
                yield (e.tag, attrs, v, ()), 1 + na
        elif t.content is None:
            yield (e.tag, attrs, None, ()), 1 + na
        else:
            for kids, nk in _gen_particle(t.content, budget - 1 - na):
                yield (e.tag, attrs, None, kids), 1 + na + nk


def _gen_once(p, budget):
    if isinstance(p, E):
        for node, n in _gen_elem(p, budget):
            yield (node,), n
    elif p.kind == 'choice':
        for item in p.items:
            yield from _gen_particle(item, budget)
    else:
        def rec(items, budget):
            if not items:
                yield (), 0
                return
            for head, n in _gen_particle(items[0], budget):
                for tail, m in rec(items[1:], budget - n):
                    yield head + tail, n + m
        yield from rec(p.items, budget)


def _gen_particle(p, budget):
    hi = UNBOUNDED_CAP if p.hi is None else p.hi

    def rec(k, budget):
        if k == 0:
            yield (), 0
            return
        for head, n in _gen_once(p, budget):
            if not head and k > 1:
                continue
            for tail, m in rec(k - 1, budget - n):
                yield head + tail, n + m
    for k in range(p.lo, hi + 1):
        yield from rec(k, budget)


_INST = {}


def instances(spec, max_nodes):
    """All valid instances (deduplicated, in a canonical order) with elements + attributes <= max_nodes."""
    key = (spec['id'], max_nodes)
    if key not in _INST:
        seen, out = set(), []
        for node, n in _gen_elem(spec['root'], max_nodes):
            if node in seen:
                continue
            seen.add(node)
            if ref_valid(spec, to_tree(node)):
                out.append((n, node))
        out.sort(key=lambda x: (x[0], repr(x[1])))
        _INST[key] = [node for _, node in out]
    return _INST[key]


def to_tree(node, maker=ET.Element):
    tag, attrs, text, kids = node
    el = maker(tag, dict(attrs))
    el.text = text
    for k in kids:
        el.append(to_tree(k, maker))
    return el


def kids(el):
    return [c for c in el if isinstance(c.tag, str)]


def size(root):
    return sum(1 + len(e.attrib) for e in root.iter() if isinstance(e.tag, str))


def _esc(v, attr=False):
    v = v.replace('&', '&amp;').replace('<', '&lt;').replace('>', '&gt;')
    return v.replace('"', '&quot;') if attr else v


def serialize(root, spelling='prefixed'):
    """Own serializer (Clark tags in, text out).  'prefixed': every namespace has a prefix declared on
    the root.  'default': element namespaces are spelled with xmlns= (re)declarations, attributes with prefixes."""
    uris = []
    for e in root.iter():
        for name in [e.tag] + list(e.attrib):
            if name[0] == '{':
                u = name[1:].split('}')[0]
                if u not in uris:
                    uris.append(u)
    known = {NS0: 'p', NS1: 'q', XSI: 'xsi'}
    prefix = {u: known.get(u, 'n%d' % i) for i, u in enumerate(uris)}

    def split(name):
        return (name[1:].split('}')[0], name.split('}')[1]) if name[0] == '{' else ('', name)

    def rec(e, default, top):
        u, local = split(e.tag)
        decl = ''
        if top:
            decl = ''.join(' xmlns:%s="%s"' % (prefix[x], x) for x in uris)
        if spelling == 'default':
            name = local
            if u != default:
                decl += ' xmlns="%s"' % u
                default = u
        else:
            name = '%s:%s' % (prefix[u], local) if u else local
        attrs = ''
        for k, v in e.attrib.items():
            au, al = split(k)
            attrs += ' %s="%s"' % ('%s:%s' % (prefix[au], al) if au else al, _esc(v, True))
        inner = _esc(e.text or '') + ''.join(rec(c, default, False) + _esc(c.tail or '') for c in kids(e))
        return '<%s%s%s>%s</%s>' % (name, decl, attrs, inner, name) if inner else '<%s%s%s/>' % (name, decl, attrs)

    return rec(root, '', True)


# --- reference validator for the DSL ---------------------------------------------------------

def _pm(p, tags, i):
    """(set of j with tags[i:j] in L(p), True if all of tags[i:] is a prefix of a word of L(p))."""
    n = len(tags)
    if i == n and p.lo == 0:
        return {i}, True
    if p.lo != 1 or p.hi != 1:
        base = copy.copy(p)
        base.lo = base.hi = 1
        ends, partial, cur, k = set(), i == n, {i}, 0
        hi = p.hi
        while cur and (hi is None or k <= hi):
            partial |= n in cur
            if k >= p.lo:
                ends |= cur
            if hi is not None and k == hi:
                break
            nxt = set()
            for j in cur:
                e, pt = _pm(base, tags, j)
                partial |= pt
                nxt |= {x for x in e if x > j}
            cur, k = nxt, k + 1
        return ends, partial
    if isinstance(p, E):
        if i == n:
            return set(), True
        return ({i + 1}, i + 1 == n) if tags[i] == p.tag else (set(), False)
    if p.kind == 'choice':
        ends, partial = set(), False
        for item in p.items:
            e, pt = _pm(item, tags, i)
            ends |= e
            partial |= pt
        return ends, partial
    cur, partial = {i}, False
    for item in p.items:
        nxt = set()
        for j in cur:
            e, pt = _pm(item, tags, j)
            nxt |= e
            partial |= pt
        cur = nxt
    return cur, partial


def first_failure(group, tags):
    """None if the tag sequence is a word of the group; else the index of the first child that cannot
    continue any word (len(tags) when the sequence is only incomplete)."""
    tags = list(tags)
    if len(tags) in _pm(group, tags, 0)[0]:
        return None
    for n in range(len(tags), -1, -1):
        if _pm(group, tags[:n], 0)[1]:
            return n
    return 0


def _decls(p, out):
    if isinstance(p, E):
        out[p.tag] = p
    else:
        for i in p.items:
            _decls(i, out)
    return out


def _blank(s):
    return not (s or '').strip(' \t\r\n')


def _valid_elem(e, el, others):
    t = e.type
    ch = kids(el)
    if isinstance(t, S):
        return not ch and not el.attrib and SIMPLE[t.name][2](el.text or '')
    declared = {a.tag: a for a in t.attrs}
    for k, v in el.attrib.items():
        a = declared.get(k)
        if a is None or not SIMPLE[a.stype.name][2](v) or (a.fixed is not None and v != a.fixed):
            return False
    if any(a.use == 'required' and a.tag not in el.attrib for a in t.attrs):
        return False
    if isinstance(t.content, S):
        return not ch and SIMPLE[t.content.name][2](el.text or '')
    if not t.mixed and not (_blank(el.text) and all(_blank(c.tail) for c in ch)):
        return False
    if t.content is None:
        return not ch
    if first_failure(t.content, [c.tag for c in ch]) is not None:
        return False
    decls = _decls(t.content, {})
    return all(_valid_elem(decls[c.tag], c, others) for c in ch)


def ref_valid(spec, root, identity=True):
    others = {o.tag: o for o in spec['others']}
    if root.tag != spec['root'].tag or not _valid_elem(spec['root'], root, others):
        return False
    ident = spec['identity']
    if ident and identity:
        (ksel, kf), (rsel, rf) = ident['key'], ident['keyref']
        keys = [c.get(kf) for c in kids(root) if c.tag == ksel]
        if None in keys or len(set(int(k) for k in keys)) != len(keys):
            return False
        refs = [c.get(rf) for c in kids(root) if c.tag == rsel]
        if any(r is not None and int(r) not in set(int(k) for k in keys) for r in refs):
            return False
    return True


def group_of(spec, root, addr):
    """The content group governing the children of the element at addr (None if it has no group or the
    element is not reachable through declared names)."""
    others = {o.tag: o for o in spec['others']}
    e, el = spec['root'], root
    if el.tag != e.tag:
        return None
    for i in addr:
        t = e.type
        if isinstance(t, S) or not isinstance(t.content, G):
            return None
        el = kids(el)[i]
        e = others.get(el.tag) or _decls(t.content, {}).get(el.tag)
        if e is None:
            return None
    t = e.type
    return t.content if isinstance(t, CT) and isinstance(t.content, G) else None


def touches_identity(spec, fault):
    """True if the fault adds, removes, moves or changes a selected element or a field of the identity
    constraints of the spec (such documents are exempt from the outside-the-zone clause)."""
    ident = spec['identity']
    if not ident:
        return False
    names = {ident['key'][0], ident['keyref'][0]}
    return bool(names & set(fault.get('tags', ())))


# --- fault catalogue --------------------------------------------------------------------------

KINDS = ('bad_value', 'empty_value', 'del_child', 'dup_child', 'ins_unknown', 'move_child', 'del_attr',
         'add_attr', 'bad_attr', 'fixed_attr', 'text_in', 'swap_sibs')


def node_at(root, addr):
    el = root
    for i in addr:
        el = kids(el)[i]
    return el


def addresses(root, limit=None):
    """Element addresses in document order (first `limit` nodes, attributes counted as nodes)."""
    out, count = [], 0
    stack = [((), root)]
    while stack:
        addr, el = stack.pop()
        out.append(addr)
        count += 1 + len(el.attrib)
        if limit is not None and count >= limit:
            break
        ch = kids(el)
        for i in range(len(ch) - 1, -1, -1):
            stack.append((addr + (i,), ch[i]))
    return out


def _skip_attr(name):
    return name.startswith('{%s}' % XSI) or name.startswith('{http://www.w3.org/XML/1998/namespace}')


def enumerate_faults(root, limit=None, all_swaps=True):
    """Every fault of the catalogue at every node: list of JSON-able descriptors."""
    out = []
    for addr in addresses(root, limit):
        el = node_at(root, addr)
        ch = kids(el)
        a = list(addr)
        if not ch:
            out.append({'kind': 'bad_value', 'addr': a})
            if not _blank(el.text):
                out.append({'kind': 'empty_value', 'addr': a})
        for i in range(len(ch)):
            out.append({'kind': 'del_child', 'addr': a, 'i': i})
            out.append({'kind': 'dup_child', 'addr': a, 'i': i})
            if i + 1 < len(ch):
                out.append({'kind': 'move_child', 'addr': a, 'i': i})
            for j in range(i + 2, len(ch) if all_swaps else min(len(ch), i + 3)):
                out.append({'kind': 'swap_sibs', 'addr': a, 'i': i, 'j': j})
        for i in range(len(ch) + 1):
            out.append({'kind': 'ins_unknown', 'addr': a, 'i': i})
            if _blank(el.text) or ch:
                out.append({'kind': 'text_in', 'addr': a, 'i': i})
        for name in el.attrib:
            if _skip_attr(name):
                continue
            out.append({'kind': 'del_attr', 'addr': a, 'name': name})
            out.append({'kind': 'bad_attr', 'addr': a, 'name': name})
            out.append({'kind': 'fixed_attr', 'addr': a, 'name': name})
        out.append({'kind': 'add_attr', 'addr': a})
    return out


def _same(a, b):
    return (a.tag == b.tag and dict(a.attrib) == dict(b.attrib) and (a.text or '') == (b.text or '')
            and len(kids(a)) == len(kids(b)) and all(_same(x, y) for x, y in zip(kids(a), kids(b))))


def apply_fault(root, f):
    """Mutates root (a private copy) in place.  Returns None when the application is void (it cannot change
    the document), else a dict: near (addresses an error must sit on, one of them), chain (address whose
    ancestors-or-self are allowed), subtrees (addresses whose subtrees are allowed), parent (address of the
    element whose child sequence was edited, or None), tags (tags of the elements touched)."""
    kind, addr = f['kind'], tuple(f['addr'])
    el = node_at(root, addr)
    ch = kids(el)
    up = addr[:-1] if addr else None

    def info(near, chain, subtrees, parent=None, tags=()):
        return {'near': [list(x) for x in near if x is not None], 'chain': list(chain),
                'subtrees': [list(x) for x in subtrees], 'parent': None if parent is None else list(parent),
                'tags': list(tags)}

    if kind == 'bad_value':
        if el.text == BAD:
            return None
        el.text = BAD
        return info([addr, up], addr, [addr], tags=[el.tag])
    if kind == 'empty_value':
        el.text = None
        return info([addr, up], addr, [addr], tags=[el.tag])
    if kind == 'del_child':
        c = ch[f['i']]
        prev_tail = c.tail
        el.remove(c)
        if not _blank(prev_tail):          # keep mixed text that ElementTree ties to the removed node
            rest = kids(el)
            if f['i'] > 0:
                rest[f['i'] - 1].tail = (rest[f['i'] - 1].tail or '') + prev_tail
            else:
                el.text = (el.text or '') + prev_tail
        return info([addr], addr, [], addr, [c.tag])
    if kind == 'dup_child':
        c = ch[f['i']]
        dup = copy.deepcopy(c)
        dup.tail = None
        el.insert(list(el).index(c) + 1, dup)
        new = addr + (f['i'] + 1,)
        return info([new, addr], new, [new], addr, [c.tag])
    if kind == 'ins_unknown':
        new_el = el.makeelement(el.tag[:el.tag.index('}') + 1] + UNKNOWN if el.tag[0] == '{' else UNKNOWN, {})
        pos = list(el).index(ch[f['i']]) if f['i'] < len(ch) else len(el)
        el.insert(pos, new_el)
        new = addr + (f['i'],)
        return info([new, addr], new, [new], addr, [el.tag])
    if kind in ('move_child', 'swap_sibs'):
        i, j = f['i'], f.get('j', f['i'] + 1)
        a, b = ch[i], ch[j]
        if _same(a, b):
            return None
        pa, pb = list(el).index(a), list(el).index(b)
        ta, tb = a.tail, b.tail
        el.remove(b)
        el.remove(a)
        el.insert(pa, b)
        el.insert(pb, a)
        b.tail, a.tail = ta, tb
        return info([addr, addr + (i,), addr + (j,)], addr, [addr + (i,), addr + (j,)], addr, [a.tag, b.tag])
    if kind == 'del_attr':
        del el.attrib[f['name']]
        return info([addr], addr, [addr], tags=[el.tag])
    if kind == 'add_attr':
        el.set(UNKNOWN_ATTR, 'v')
        return info([addr], addr, [addr], tags=[el.tag])
    if kind == 'bad_attr':
        if el.get(f['name']) == BAD:
            return None
        el.set(f['name'], BAD)
        return info([addr], addr, [addr], tags=[el.tag])
    if kind == 'fixed_attr':
        el.set(f['name'], el.get(f['name']) * 2 or 'v')
        return info([addr], addr, [addr], tags=[el.tag])
    if kind == 'text_in':
        if f['i'] == 0:
            el.text = (el.text or '') + TEXT
        else:
            ch[f['i'] - 1].tail = (ch[f['i'] - 1].tail or '') + TEXT
        return info([addr], addr, [], tags=[el.tag])
    raise ValueError(kind)


# --- repository corpus -------------------------------------------------------------------------

def _index(test_cases):
    idx = {}
    path = os.path.join(test_cases, 'testfiles')
    if not os.path.exists(path):
        return idx
    with open(path, encoding='utf-8') as f:
        lines = f.read().replace('\\\n', ' ').splitlines()
    for ln in lines:
        ln = ln.split('#')[0].strip()
        if not ln:
            continue
        parts = shlex.split(ln)
        if not parts[0].endswith('.xml'):
            continue
        ver, errs, locs, i = '1.0', 0, [], 1
        while i < len(parts):
            p = parts[i]
            if p.startswith('--version'):
                ver = p.split('=')[1] if '=' in p else parts[i + 1]
                i += '=' not in p
            elif p.startswith('--errors'):
                errs = int(p.split('=')[1] if '=' in p else parts[i + 1])
                i += '=' not in p
            elif p == '-L':
                locs.append((parts[i + 1], parts[i + 2]))
                i += 2
            i += 1
        idx.setdefault(parts[0], []).append((ver, errs, locs))
    return idx


def build_pair(pair):
    """Builds the schema of a corpus pair the way the test suite does (lax build, local files only)."""
    import xmlschema
    cls = xmlschema.XMLSchema11 if pair['version'] == '1.1' else xmlschema.XMLSchema10
    if pair['xsd']:
        return cls(pair['xsd'], validation='lax', allow='local')
    source, locations = xmlschema.fetch_schema_locations(pair['xml'], pair['locations'] or None, allow='local')
    return cls(source, validation='lax', locations=locations, allow='local')


def _scan_schema(schema):
    """(has element wildcard, has identity constraint or xs:assert, list of XSD files) by reading the XSD files."""
    wild = ident = False
    files = []
    for schemas in schema.maps.namespaces.values():
        for s in schemas:
            url = getattr(s, 'url', None)
            if not url or not url.startswith('file:') or url in files or 'xmlschema/schemas' in url:
                continue
            files.append(url)
            for e in s.root.iter():
                if e.tag == '{%s}any' % XS:
                    wild = True
                if e.tag in ('{%s}key' % XS, '{%s}keyref' % XS, '{%s}unique' % XS, '{%s}assert' % XS):
                    ident = True              # constraints evaluated on an ancestor of the nodes they read
    return wild, ident, sorted(files)


def corpus_pairs(repo):
    """Valid (XML, schema) pairs of tests/test_cases: index entries expecting no error, files with schema
    location hints, and hint-less files that are valid under an XSD of their own directory."""
    import warnings
    import xmlschema
    test_cases = os.path.join(repo, 'tests', 'test_cases')
    idx = _index(test_cases)
    out, skipped = [], {}

    def skip(why):
        skipped[why] = skipped.get(why, 0) + 1

    with warnings.catch_warnings():
        warnings.simplefilter('ignore')
        for f in sorted(glob.glob(os.path.join(test_cases, '**', '*.xml'), recursive=True)):
            rel = os.path.relpath(f, test_cases)
            for ver, errs, locs in idx.get(rel, [('1.0', None, [])]):
                if errs:
                    skip('index expects errors')
                    continue
                cands = [{'xml': f, 'rel': rel, 'version': ver, 'locations': locs, 'xsd': None, 'xsd_rel': None}]
                try:
                    ET.parse(f)
                except (ET.ParseError, OSError, ValueError):
                    skip('not well-formed for the default parser')
                    continue
                try:
                    xmlschema.fetch_schema_locations(f, locs or None, allow='local')
                except Exception:                                                     # noqa
                    cands = [{'xml': f, 'rel': rel, 'version': v, 'locations': [], 'xsd': x,
                              'xsd_rel': os.path.relpath(x, test_cases)}
                             for x in sorted(glob.glob(os.path.join(os.path.dirname(f), '*.xsd')))
                             for v in ('1.0', '1.1')]
                for pair in cands:
                    try:
                        schema = build_pair(pair)
                        ok = not schema.all_errors and schema.is_valid(f)
                    except Exception:                                                 # noqa
                        ok = False
                    if ok:
                        pair['wildcard'], pair['identity'], pair['files'] = _scan_schema(schema)
                        out.append(pair)
                        break
                else:
                    skip('not valid, no local schema, or needs the network')
    return out, skipped
