"""Single-edit catalogue turning a base content model into candidate restrictions (C14).

Every edit is applied at every position where it applies; the result is a list of
(edit name, derived model), deduplicated by the model's text.
"""
from mc.gen import models as M

O8 = M.O8


def _paths(n, prefix=()):
    """All (path, node) pairs in pre-order; the root has path ()."""
    yield prefix, n
    if not M.is_leaf(n):
        for i, c in enumerate(n[3]):
            yield from _paths(c, prefix + (i,))


def _replace(n, path, fn):
    """Returns n with the node at path replaced by fn(node); fn may return None to delete it
    or a list to splice several nodes into the parent."""
    if not path:
        return fn(n)
    i = path[0]
    kids = list(n[3])
    r = _replace(kids[i], path[1:], fn)
    if r is None:
        del kids[i]
    elif isinstance(r, list):
        kids[i:i + 1] = r
    else:
        kids[i] = r
    return (n[0], n[1], n[2], tuple(kids))


def _with_occ(n, mn, mx):
    return (n[0], mn, mx) + tuple(n[3:])


def single_edits(base, new_letters='abc'):
    out = []
    seen = {M.show(base)}

    def add(name, m):
        if m is None or M.is_leaf(m):
            return
        s = M.show(m)
        if s not in seen:
            seen.add(s)
            out.append((name, m))

    for path, node in _paths(base):
        # 1. move the occurrence range to every other value
        for mn, mx in O8:
            if (mn, mx) != (node[1], node[2]):
                add('occurs', _replace(base, path, lambda n, mn=mn, mx=mx: _with_occ(n, mn, mx)))
        if path:
            # 2. drop the particle
            add('drop', _replace(base, path, lambda n: None))
            # 6a. wrap the particle in a pointless sequence / choice
            add('wrap-seq', _replace(base, path, lambda n: ('seq', 1, 1, (n,))))
            add('wrap-cho', _replace(base, path, lambda n: ('cho', 1, 1, (n,))))
        if M.is_leaf(node):
            # 10. replace an element particle by a group of two copies of it (the counts multiply)
            if node[0] == 'el':
                for gk in ('seq', 'cho'):
                    for gocc in ((1, 1), (1, 2), (0, 2)):
                        add('leaf-to-group', _replace(base, path, lambda n, gk=gk, gocc=gocc: (
                            gk, gocc[0], gocc[1], (M.el(n[4], 1, 1), M.el(n[4], 1, 1)))))
            # 9. rename / retarget the leaf
            if node[0] == 'el':
                for c in new_letters:
                    if c != node[4]:
                        add('rename', _replace(base, path, lambda n, c=c: M.el(c, n[1], n[2])))
                for w in ('~any', '~tns', '~other'):
                    add('el-to-wild', _replace(base, path, lambda n, w=w: M.wild(w, n[1], n[2])))
            else:
                # 5. wildcard replaced by an element it admits / does not admit, or by another wildcard
                for c in ('a', 'c'):
                    add('wild-to-el', _replace(base, path, lambda n, c=c: M.el(c, n[1], n[2])))
                for w in ('~any', '~tns', '~other', '~local', '~notT', '~notL', '~notTL'):
                    if w != node[4]:
                        add('wild-to-wild', _replace(base, path, lambda n, w=w: M.wild(w, n[1], n[2])))
        else:
            kids = node[3]
            # 3. add a leaf at every position
            for pos in range(len(kids) + 1):
                for c in new_letters:
                    for occ in ((1, 1), (0, 1)):
                        def ins(n, pos=pos, c=c, occ=occ):
                            k = list(n[3])
                            k.insert(pos, M.el(c, occ[0], occ[1]))
                            return (n[0], n[1], n[2], tuple(k))
                        if len(kids) < 4:
                            add('add', _replace(base, path, ins))
            # 4. keep one branch of a choice (the branch takes the place of the choice)
            if node[0] == 'cho' and len(kids) > 1:
                for i in range(len(kids)):
                    add('keep-branch', _replace(base, path, lambda n, i=i: (n[0], n[1], n[2], (n[3][i],))))
                    if path:
                        add('branch-inline', _replace(base, path, lambda n, i=i: n[3][i]))
                        # the branch takes the place of the choice AND gets another occurrence range
                        if M.is_leaf(kids[i]):
                            for mn, mx in O8:
                                add('branch-inline+occurs', _replace(base, path, lambda n, i=i, mn=mn, mx=mx: _with_occ(n[3][i], mn, mx)))
            # 6b. unwrap a single-child group with default occurrence
            if path and len(kids) == 1 and (node[1], node[2]) == (1, 1):
                add('unwrap', _replace(base, path, lambda n: n[3][0]))
            # 7. swap adjacent children
            for i in range(len(kids) - 1):
                def swap(n, i=i):
                    k = list(n[3])
                    k[i], k[i + 1] = k[i + 1], k[i]
                    return (n[0], n[1], n[2], tuple(k))
                add('swap', _replace(base, path, swap))
            # 8. switch the group kind
            add('kind', _replace(base, path, lambda n: ({'seq': 'cho', 'cho': 'seq'}[n[0]], n[1], n[2], n[3])))
    return out
