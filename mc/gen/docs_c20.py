"""C20 generators: a tiny schema DSL in which every element declaration carries a unique id (rendered as
the XSD `id` attribute), the exhaustive list of valid instance trees of each schema up to a node bound
(every generated element remembers the declaration that produced it = its governing declaration *by
construction*), single-fault variants, serialisation in prefixed / default-namespace / no-namespace
forms, the path forms of an element and a plain path walker over the instance tree.

Nothing here imports xmlschema or elementpath.
"""
import itertools
import os
import xml.etree.ElementTree as ET

TNS = 'urn:t'
TNS2 = 'urn:t2'                # twin target namespace (variant q2): same prefix, same default-namespace spelling
XS = 'http://www.w3.org/2001/XMLSchema'
BAD = 'b@d'                  # not a literal of any non-string type of the catalogue
UNKNOWN = 'zz'               # local name of the inserted child / attribute
EXAMPLES = '/repo/tests/test_cases/examples'

SIMPLE = {                   # key -> (XSD type, literals; leaf number i of a document takes literal (i + rot) % len)
    'int': ('xs:int', ('7', '-3', '12')),
    'date': ('xs:date', ('2001-01-01', '1999-12-31')),
    'str': ('xs:string', ('x', 'yz')),
    'bool': ('xs:boolean', ('true', '0')),
    'dec': ('xs:decimal', ('1.50', '2')),
    'any': ('xs:anyType', ()),
}


# --- DSL --------------------------------------------------------------------------------------

class C:
    """complex type: model particle (or None), attributes [(name, simple key, required)], simple content key"""
    def __init__(self, model=None, attrs=(), simple=None):
        self.model, self.attrs, self.simple = model, tuple(attrs), simple


def E(name, typ, lo=1, hi=1, extra='', default=None):
    return {'k': 'elem', 'name': name, 'type': typ, 'lo': lo, 'hi': hi, 'extra': extra, 'default': default,
            'global': False}


def R(name, lo=1, hi=1):
    return {'k': 'ref', 'name': name, 'lo': lo, 'hi': hi}


def SEQ(*parts, lo=1, hi=1):
    return {'k': 'seq', 'parts': parts, 'lo': lo, 'hi': hi}


def CHO(*parts, lo=1, hi=1):
    return {'k': 'choice', 'parts': parts, 'lo': lo, 'hi': hi}


def G(name, typ, subst=None, abstract=False, extra=''):
    return {'k': 'elem', 'name': name, 'type': typ, 'subst': subst, 'abstract': abstract, 'extra': extra,
            'global': True, 'default': None}


class Template:
    def __init__(self, name, globals_, types=None, roots=('root',), variants=('n', 'q'), note='', identities=()):
        self.name, self.globals, self.types, self.roots = name, list(globals_), dict(types or {}), tuple(roots)
        self.variants, self.note = tuple(variants), note
        # identity constraints the check may judge: {'name', 'owner' (element name), 'target' (child name the
        # selector reaches; the fields are '.' or an attribute of it)}; templates with such metadata also get
        # 'dup' faults (a target repeats the value of its preceding sibling) at every size
        self.identities = tuple(identities)
        self.decls = {}
        self._number()

    def _number(self):
        counter = itertools.count()

        def walk_type(typ):
            if isinstance(typ, C) and typ.model is not None:
                walk_particle(typ.model)

        def walk_particle(p):
            if p['k'] in ('elem', 'ref'):
                p['id'] = 'd%d' % next(counter)
                self.decls[p['id']] = p
                if p['k'] == 'elem':
                    walk_type(p['type'])
            else:
                for q in p['parts']:
                    walk_particle(q)

        for g in self.globals:
            g['id'] = 'd%d' % next(counter)
            self.decls[g['id']] = g
            walk_type(g['type'])
        for name in sorted(self.types):
            walk_type(self.types[name])

    def global_(self, name):
        for g in self.globals:
            if g['name'] == name:
                return g
        raise KeyError(name)

    def members(self, head):
        """the head (unless abstract) followed by its transitive substitution members, declaration order"""
        out = []
        todo = [head]
        while todo:
            h = todo.pop(0)
            g = self.global_(h)
            if not g['abstract']:
                out.append(g)
            todo.extend(m['name'] for m in self.globals if m.get('subst') == h)
        return out

    def resolve(self, typ):
        return self.types[typ[2:]] if isinstance(typ, str) and typ.startswith('T:') else typ


# --- XSD rendering ----------------------------------------------------------------------------

def _occ(p):
    s = ''
    if p['lo'] != 1:
        s += ' minOccurs="%d"' % p['lo']
    if p['hi'] != 1:
        s += ' maxOccurs="%s"' % ('unbounded' if p['hi'] is None else p['hi'])
    return s


def render_xsd(tpl, variant):
    if variant == 'nd':
        # the no-namespace schema written in a document that ALSO binds the default namespace (to the XSD namespace):
        # nothing in it is unprefixed, so it denotes the same schema; only templates without QName references use it
        return render_xsd(tpl, 'n').replace('<xs:schema ', '<xs:schema xmlns="%s" ' % XS, 1)
    pfx = 't:' if variant != 'n' else ''

    def type_attr_or_body(typ):
        if isinstance(typ, str):
            if typ.startswith('T:'):
                return ' type="%s%s"' % (pfx, typ[2:]), ''
            return ' type="%s"' % SIMPLE[typ][0], ''
        return '', ctype(typ, None)

    def ctype(typ, name):
        head = '<xs:complexType%s>' % (' name="%s"' % name if name else '')
        attrs = ''.join('<xs:attribute name="%s" type="%s"%s/>' % (a, SIMPLE[t][0], ' use="required"' if req else '')
                        for a, t, req in typ.attrs)
        if typ.simple:
            return '%s<xs:simpleContent><xs:extension base="%s">%s</xs:extension></xs:simpleContent></xs:complexType>' \
                   % (head, SIMPLE[typ.simple][0], attrs)
        body = particle(typ.model, top=True) if typ.model is not None else ''
        return head + body + attrs + '</xs:complexType>'

    def particle(p, top=False):
        if p['k'] == 'ref':
            return '<xs:element ref="%s%s" id="%s"%s/>' % (pfx, p['name'], p['id'], _occ(p))
        if p['k'] == 'elem':
            assert not top, 'the content of a complex type of the DSL is always a model group'
            return element(p, _occ(p))
        return '<xs:%s%s>%s</xs:%s>' % ({'seq': 'sequence', 'choice': 'choice'}[p['k']], _occ(p),
                                        ''.join(particle(q) for q in p['parts']), {'seq': 'sequence', 'choice': 'choice'}[p['k']])

    def element(d, occ):
        tattr, body = type_attr_or_body(d['type'])
        more = ''
        if d.get('subst'):
            more += ' substitutionGroup="%s%s"' % (pfx, d['subst'])
        if d.get('abstract'):
            more += ' abstract="true"'
        if d.get('default') is not None:
            more += ' default="%s"' % d['default']
        inner = body + d['extra'].replace('{p}', pfx)
        if inner:
            return '<xs:element name="%s" id="%s"%s%s%s>%s</xs:element>' % (d['name'], d['id'], tattr, occ, more, inner)
        return '<xs:element name="%s" id="%s"%s%s%s/>' % (d['name'], d['id'], tattr, occ, more)

    head = '<xs:schema xmlns:xs="%s"' % XS
    if variant != 'n':
        ns = TNS2 if variant == 'q2' else TNS
        head += ' targetNamespace="%s" xmlns:t="%s"' % (ns, ns)
        if variant in ('q', 'q2'):
            head += ' elementFormDefault="qualified"'
    out = [head + '>']
    for g in tpl.globals:
        out.append(element(g, ''))
    for name in sorted(tpl.types):
        out.append(ctype(tpl.types[name], name))
    out.append('</xs:schema>')
    return '\n'.join(out)


# --- instance enumeration ----------------------------------------------------------------------
# blueprint of an element: (gov id, name, is global, simple key or None, attrs ((name, key),...), kids (...))

def bsize(t):
    return 1 + sum(bsize(k) for k in t[5])


def _attr_variants(attrs):
    opts = []
    for a, t, req in attrs:
        opts.append([((a, t),)] if req else [(), ((a, t),)])
    for combo in itertools.product(*opts):
        yield tuple(x for part in combo for x in part)


def elem_trees(tpl, gov, name, glob, typ, budget):
    if budget < 1:
        return
    typ = tpl.resolve(typ)
    if isinstance(typ, str):
        yield (gov, name, glob, typ, (), ())
        return
    for attrs in _attr_variants(typ.attrs):
        if typ.simple:
            yield (gov, name, glob, typ.simple, attrs, ())
        elif typ.model is None:
            yield (gov, name, glob, None, attrs, ())
        else:
            for kids in seqs(tpl, typ.model, budget - 1):
                yield (gov, name, glob, None, attrs, kids)


def _once(tpl, p, budget):
    k = p['k']
    if k == 'elem':
        for t in elem_trees(tpl, p['id'], p['name'], False, p['type'], budget):
            yield (t,)
    elif k == 'ref':
        for m in tpl.members(p['name']):
            gov = p['id'] if m['name'] == p['name'] else m['id']
            for t in elem_trees(tpl, gov, m['name'], True, m['type'], budget):
                yield (t,)
    elif k == 'choice':
        for q in p['parts']:
            yield from seqs(tpl, q, budget)
    else:
        def go(i, left):
            if i == len(p['parts']):
                yield ()
                return
            for first in seqs(tpl, p['parts'][i], left):
                for rest in go(i + 1, left - sum(bsize(t) for t in first)):
                    yield first + rest
        yield from go(0, budget)


def seqs(tpl, p, budget):
    """every child sequence (tuple of blueprints, total size <= budget) accepted by particle p"""
    lo, hi = p['lo'], p['hi']
    singles = sorted(set(_once(tpl, p, budget)), key=repr)
    if () in singles:
        lo = 0
        singles = [s for s in singles if s != ()]
    seen = set()

    def rep(n, left):
        if n >= lo:
            yield ()
        if hi is not None and n >= hi:
            return
        for first in singles:
            sz = sum(bsize(t) for t in first)
            if sz <= left:
                for rest in rep(n + 1, left - sz):
                    yield first + rest

    for s in rep(0, budget):
        if s not in seen:
            seen.add(s)
            yield s


def shapes(tpl, max_nodes):
    """all valid instance blueprints of the template with at most max_nodes elements, by size then text"""
    out = set()
    for r in tpl.roots:
        g = tpl.global_(r)
        out.update(elem_trees(tpl, g['id'], g['name'], True, g['type'], max_nodes))
    return sorted(out, key=lambda t: (bsize(t), shape_text(t)))


def shape_text(t):
    s = t[1]
    if t[4]:
        s += '@' + '@'.join(a for a, _ in t[4])
    if t[5]:
        s += '(' + ','.join(shape_text(k) for k in t[5]) + ')'
    return s


# --- concrete documents ------------------------------------------------------------------------

class Node:
    __slots__ = ('gov', 'name', 'glob', 'text', 'attrs', 'kids', 'simple')

    def __init__(self, gov, name, glob, simple, text, attrs, kids):
        self.gov, self.name, self.glob, self.simple, self.text, self.attrs, self.kids = \
            gov, name, glob, simple, text, attrs, kids


def instantiate(bp, rot):
    """blueprint -> Node tree; leaf / attribute values rotate through the catalogue in document order"""
    counter = itertools.count(rot)

    def val(key):
        lits = SIMPLE[key][1]
        return lits[next(counter) % len(lits)] if lits else None

    def build(t):
        gov, name, glob, simple, attrs, kids = t
        a = [(n, val(k), k) for n, k in attrs]
        text = val(simple) if simple else None
        return Node(gov, name, glob, simple, text, a, [build(k) for k in kids])
    return build(bp)


def preorder(node):
    yield node
    for k in node.kids:
        yield from preorder(k)


def dup_faults(root, targets):
    """identity faults: a target element takes the value (text and first attribute) of its preceding
    same-named sibling; descriptors ('dup', pre-order index)"""
    nodes = list(preorder(root))
    out = []
    for p in nodes:
        prev = {}
        for k in p.kids:
            if k.name in targets and k.name in prev:
                out.append(('dup', nodes.index(k)))
            prev[k.name] = k
    return out


def faults(root):
    """single-fault descriptors (kind, pre-order index) applicable to the tree"""
    out = []
    for i, n in enumerate(preorder(root)):
        if n.simple and n.simple not in ('str', 'any') and not n.kids:
            out.append(('badval', i))
        if n.attrs and n.attrs[0][2] != 'str':
            out.append(('badattr', i))
        if not n.simple:
            out.append(('extra', i))
        out.append(('unkattr', i))
        if i and not n.kids:
            out.append(('drop', i))
    return out


def apply_fault(root, fault):
    """returns a damaged deep copy of the tree (governing ids of touched nodes become None)"""
    kind, idx = fault

    def copy(n):
        return Node(n.gov, n.name, n.glob, n.simple, n.text, list(n.attrs), [copy(k) for k in n.kids])
    new = copy(root)
    nodes = list(preorder(new))
    n = nodes[idx]
    if kind == 'badval':
        n.text = BAD
    elif kind == 'badattr':
        n.attrs[0] = (n.attrs[0][0], BAD, n.attrs[0][2])
    elif kind == 'extra':
        n.kids.append(Node(None, UNKNOWN, True, None, None, [], []))
    elif kind == 'unkattr':
        n.attrs.append((UNKNOWN, '1', 'str'))
    elif kind == 'drop':
        for p in nodes:
            if n in p.kids:
                p.kids.remove(n)
    elif kind == 'dup':
        for p in nodes:
            if n in p.kids:
                prev = [k for k in p.kids[:p.kids.index(n)] if k.name == n.name][-1]
                n.text = prev.text
                if n.attrs and prev.attrs:
                    n.attrs[0] = (n.attrs[0][0], prev.attrs[0][1], n.attrs[0][2])
    return new


def node_ns(n, variant):
    if variant in ('n', 'nd'):
        return ''
    if variant == 'q2':
        return TNS2
    if variant == 'q' or n.glob:
        return TNS
    return ''


def serialise(root, variant, form):
    """variant n: no namespace; q: all elements in TNS; u: only global elements in TNS.
    form 'pre': prefix t; 'def': default namespace declaration (variant q only)."""
    def tag(n):
        return ('t:' if node_ns(n, variant) and form == 'pre' else '') + n.name

    def out(n, top):
        s = '<' + tag(n)
        if top and variant not in ('n', 'nd'):
            ns = TNS2 if variant == 'q2' else TNS
            s += ' xmlns:t="%s"' % ns if form == 'pre' else ' xmlns="%s"' % ns
        for a, v, _ in n.attrs:
            s += ' %s="%s"' % (a, v)
        if not n.kids and n.text is None:
            return s + '/>'
        return s + '>' + (n.text or '') + ''.join(out(k, False) for k in n.kids) + '</' + tag(n) + '>'
    return out(root, True)


# --- reference instance tree (from the serialised text, stdlib parser) and the path walker ------------

class RNode:
    __slots__ = ('i', 'ns', 'local', 'parent', 'kids', 'depth', 'pos', 'attrs', 'text', 'gov', 'end')


def ref_tree(xml_text):
    """list of RNode in document order from XML text (comments and PIs ignored)"""
    root = ET.fromstring(xml_text)
    nodes = []

    def walk(e, parent, depth):
        n = RNode()
        n.i = len(nodes)
        tag = e.tag
        n.ns, n.local = (tag[1:].split('}') if tag[0] == '{' else ('', tag))
        n.parent, n.depth, n.kids, n.gov = parent, depth, [], None
        n.attrs = dict(e.attrib)
        n.text = e.text
        nodes.append(n)
        if parent is not None:
            n.pos = 1 + sum(1 for s in parent.kids if (s.ns, s.local) == (n.ns, n.local))
            parent.kids.append(n)
        else:
            n.pos = 1
        for c in e:
            if isinstance(c.tag, str):
                walk(c, n, depth + 1)
        n.end = len(nodes)          # subtree = nodes[n.i:n.end]
    walk(root, None, 1)
    return nodes


def chain(n):
    out = []
    while n is not None:
        out.append(n)
        n = n.parent
    return out[::-1]


# a path is a tuple of steps (axis, test, pos): axis 'c' child or 'd' descendant-or-self::node()/child,
# test = (ns, local) or '*', pos = int or None. The first step is evaluated from the document node.

def walk_path(nodes, steps):
    """plain evaluation over the reference tree; returns selected node indexes in document order and the
    number of (context node, step) evaluations performed"""
    work = 0
    current = [None]                     # None = the document node
    for axis, test, pos in steps:
        nxt, seen = [], set()
        for ctx in current:
            work += 1
            if axis == 'c':
                cands = [nodes[0]] if ctx is None else ctx.kids
                groups = [cands]
            else:
                if ctx is None:
                    pool = nodes
                else:
                    pool = nodes[ctx.i + 1:ctx.end]
                # //x == /descendant-or-self::node()/child::x : positional predicates count per parent
                by_parent = {}
                for c in pool:
                    by_parent.setdefault(c.parent.i if c.parent is not None else -1, []).append(c)
                groups = list(by_parent.values())
            for cands in groups:
                matched = [c for c in cands if test == '*' or (c.ns, c.local) == test]
                if pos is not None:
                    matched = matched[pos - 1:pos]
                for c in matched:
                    if c.i not in seen:
                        seen.add(c.i)
                        nxt.append(c)
        current = sorted(nxt, key=lambda c: c.i)
    return [c.i for c in current], work


def render_path(steps, prefixes, absolute=True):
    """prefixes: {namespace: prefix}; prefix '' = the namespace is passed as default namespace of the path.
    Names in no namespace are written unprefixed (only meaningful when no default namespace is passed)."""
    s = ''
    for k, (axis, test, pos) in enumerate(steps):
        s += '//' if axis == 'd' else ('/' if (k or absolute) else '')
        if test == '*':
            s += '*'
        else:
            pfx = prefixes[test[0]] if test[0] else ''
            s += (pfx + ':' if pfx else '') + test[1]
        if pos is not None:
            s += '[%d]' % pos
    return s


def path_forms(n):
    """path forms of element n: {label: steps}; labels are stable names used in keys and counters"""
    ch = chain(n)
    named = tuple(('c', (c.ns, c.local), None) for c in ch)
    forms = {'pos': tuple(('c', (c.ns, c.local), c.pos) for c in ch), 'nopos': named}
    for j in range(len(ch)):
        forms['star%d' % j] = named[:j] + (('c', '*', None),) + named[j + 1:]
    forms['desc'] = (('d', (n.ns, n.local), None),)
    if len(ch) >= 3:
        forms['rootdesc'] = (named[0], ('d', (n.ns, n.local), None))
    if len(ch) >= 2:
        forms['posdesc'] = (('d', (ch[-2].ns, ch[-2].local), None), ('c', (n.ns, n.local), n.pos))
    return forms


# --- the templates ------------------------------------------------------------------------------

def templates():
    key = ('<xs:key name="k"><xs:selector xpath="{p}p"/><xs:field xpath="@id"/></xs:key>'
           '<xs:keyref name="kr" refer="{p}k"><xs:selector xpath="{p}q/{p}r"/><xs:field xpath="."/></xs:keyref>')
    return [
        Template('twov', [G('root', C(SEQ(
            E('p', C(SEQ(E('v', 'int', 1, 2)), attrs=[('a', 'int', False)]), 1, 2),
            E('q', C(SEQ(E('v', 'date'), E('w', 'str', 0, 1))), 0, 1))))],
            variants=('n', 'q', 'nd'), note='v is xs:int under p and xs:date under q'),
        Template('refs', [G('root', C(SEQ(R('g', 1, 2), E('p', C(SEQ(R('g'), E('x', 'int', 0, 1))), 0, 2),
                                          E('s', C(SEQ(E('g', 'int', 1, 2))), 0, 1)))),
                          G('g', 'str')], roots=('root', 'g'),
                 note='references to one global under two parents; a local g (xs:int) named like the global g (xs:string)'),
        Template('subst', [G('root', C(SEQ(R('h', 1, 3), E('p', C(SEQ(R('h', 0, 1), E('v', 'bool'))), 0, 1)))),
                           G('h', 'any'), G('m', 'int', subst='h'),
                           G('n', C(SEQ(E('v', 'date'), E('w', 'int', 0, 1))), subst='h')],
                 note='substitution members m (simple) and n (complex with a local v) of head h'),
        Template('heads', [G('root', C(SEQ(R('h', 1, 2)))), G('h', 'any'), G('m', 'int', subst='h')],
                 note='the only child particle of root is a substitution head: /root/* denotes one declaration'),
        Template('named', [G('root', C(SEQ(E('p', 'T:T'), E('q', 'T:T', 0, 2), E('r', C(SEQ(E('v', 'bool', 1, 2))), 0, 1))))],
                 types={'T': C(SEQ(E('v', 'int'), E('w', 'str', 0, 1)))},
                 note='one named type (one local v) under p and q, another v under r'),
        Template('deep', [G('root', C(SEQ(
            E('a', C(SEQ(E('b', C(SEQ(E('c', C(SEQ(E('v', 'int', 1, 2)), attrs=[('k', 'str', True)])), E('v', 'dec', 0, 1))), 0, 2),
                         E('v', 'date', 0, 1)))),
            E('v', 'str', 0, 1))))], note='v with four types at four depths'),
        Template('choice', [G('root', C(CHO(E('p', C(SEQ(E('v', 'int')))), E('q', C(SEQ(E('v', 'date'), E('u', 'str', 0, 1)))),
                                            lo=1, hi=3)))], note='repeated choice: p and q interleave'),
        Template('dup', [G('root', C(SEQ(E('v', 'int'), E('w', C(SEQ(E('v', 'date', 1, 2))), 0, 1),
                                         E('v', 'int', 0, 1, default='9'), E('u', 'str', 0, 1))))],
                 note='v declared twice in one model (second with a default) and once more, as date, under w'),
        Template('attrs', [G('root', C(SEQ(
            E('p', C(simple='int', attrs=[('a', 'date', True)]), 1, 3),
            E('q', C(SEQ(E('p', C(simple='str', attrs=[('a', 'bool', False)]))), attrs=[('b', 'dec', True)]), 0, 1)),
            attrs=[('r', 'str', True)]))], note='simple content with attributes; p differs under root and q'),
        Template('ident', [G('root', C(SEQ(
            E('p', C(SEQ(E('v', 'int', 0, 1)), attrs=[('id', 'int', True)]), 1, 3),
            E('q', C(SEQ(E('r', 'int', 1, 2))), 0, 1))), extra=key)],
            note='key on p/@id and keyref from q/r (values are made consistent by the instantiation below)'),
        Template('nest', [G('root', C(SEQ(E('p', C(SEQ(E('p', C(SEQ(E('v', 'int'))), 0, 2), E('v', 'date'))), 1, 2))))],
                 note='p inside p with different types: //p selects nested subtrees'),
        Template('mix', [G('root', C(SEQ(E('p', C(SEQ(E('v', 'int', 1, 2), R('g', 0, 1)))), E('q', C(SEQ(E('v', 'date'))), 0, 1),
                                         R('g', 0, 1)))), G('g', 'str')],
                 variants=('u',), note='target namespace with unqualified local elements'),
        Template('two', [G('other', C(SEQ(E('p', C(SEQ(E('v', 'date'))), 1, 2), E('x', 'str', 0, 1)))),
                         G('root', C(SEQ(E('p', C(SEQ(E('v', 'int', 1, 2))), 1, 2), E('q', C(SEQ(E('v', 'date'))), 0, 1))))],
                 roots=('root', 'other'),
                 note='two global root candidates: other (declared first) and root share the child path p/v with other types'),
        Template('uniq', [G('root', C(SEQ(E('g', C(SEQ(E('item', 'int', 1, 2))), 1, 3, extra=(
            '<xs:unique name="u"><xs:selector xpath="{p}item"/><xs:field xpath="."/></xs:unique>')))))],
                 identities=[{'name': 'u', 'owner': 'g', 'target': 'item'}],
                 note='xs:unique owned by g (up to 3 instances) over its item children'),
        Template('keyd', [G('root', C(SEQ(E('g', C(SEQ(E('k', C(attrs=[('id', 'int', True)]), 1, 2))), 1, 3, extra=(
            '<xs:key name="ky"><xs:selector xpath="{p}k"/><xs:field xpath="@id"/></xs:key>')))))],
                 identities=[{'name': 'ky', 'owner': 'g', 'target': 'k'}],
                 note='xs:key owned by g (up to 3 instances) over the id attribute of its k children'),
    ]


def fix_identity_values(root):
    """template 'ident': p/@id become 1, 2, 3 and q/r refer to existing ids (a valid document)"""
    ids = []
    for n in preorder(root):
        if n.name == 'p' and n.attrs and n.attrs[0][0] == 'id':
            ids.append(str(len(ids) + 1))
            n.attrs[0] = ('id', ids[-1], 'int')
    k = 0
    for n in preorder(root):
        if n.name == 'r':
            n.text = ids[k % len(ids)]
            k += 1


TEMPLATES = {t.name: t for t in templates()}


def schema_keys():
    """(template name, variant) for every generated schema"""
    return [(t.name, v) for t in templates() for v in t.variants]


def doc_forms(variant):
    return {'n': ('n',), 'nd': ('n',), 'q': ('pre', 'def'), 'u': ('pre',)}[variant]


# --- corpus ---------------------------------------------------------------------------------------

CORPUS = {       # key -> (schema file, [instance files], {prefix: namespace} used for the prefixed path form)
    'vehicles': ('vehicles/vehicles.xsd',
                 ['vehicles/vehicles.xml', 'vehicles/vehicles-1_error.xml', 'vehicles/vehicles-2_errors.xml',
                  'vehicles/vehicles-3_errors.xml'], {'vh': 'http://example.com/vehicles'}),
    'collection': ('collection/collection.xsd',
                   ['collection/collection.xml', 'collection/collection-1_error.xml'],
                   {'col': 'http://example.com/ns/collection'}),
    'collection5': ('collection/collection5.xsd', ['collection/collection-default.xml'],
                    {'col': 'http://example.com/ns/collection'}),
}


def corpus_path(rel):
    return os.path.join(EXAMPLES, rel)
