"""C05 generators: schema templates from a small grammar, their reference description, and the complete
enumeration of valid instances (every word of length <= 4 of each content model x leaf values).

Nothing here imports xmlschema: the instance set is derived from the reference automaton of mc/ref/regex.py
and a plain-Python value catalogue; the value-space comparison is written with int/Decimal/float/datetime.

Grammar
    type   := S(leaf)                                   simple leaf type of the catalogue LEAF
            | C(model, kids, attrs, mixed, simple)      complex type: element-only / mixed model over one-letter
                                                        symbols (regex.py tuples), or simple content `simple`
    kid    := K(local, type, ns, nillable)              ns: 't' qualified in the target namespace, '' unqualified
                                                        local, 'o' reference to a global element of urn:o
    attr   := (name, leaf, required)
A template is {'name', 'tns', 'root': K(...)}.  Same-named leaves of a model share one declaration (and one
named global type), so Element Declarations Consistent holds by construction.
"""
import re
from datetime import datetime, timedelta
from decimal import Decimal
from itertools import combinations, product

from mc.ref import regex

XSI = 'http://www.w3.org/2001/XMLSchema-instance'
TNS, ONS = 'urn:t', 'urn:o'
NIL = '#nil'
ABSENT = '#absent'

# leaf -> (XSD type QName, three lexical values; index 0 is the default)
LEAF = {
    'string': ('xs:string', ('v', 'x y', '')),
    'int': ('xs:int', ('0', '+7', '-3')),
    'decimal': ('xs:decimal', ('1.0', '-0.50', '12')),
    'boolean': ('xs:boolean', ('true', '0', 'false')),
    'double': ('xs:double', ('1e3', '-0.5', 'INF')),
    'date': ('xs:date', ('2020-02-29', '2000-01-01Z', '1999-12-31+02:00')),
    'dateTime': ('xs:dateTime', ('2020-02-29T12:00:00', '2000-01-01T00:00:00Z', '1999-12-31T23:59:59.5+02:00')),
    'ints': ('t:ints', ('1 0', '', '5')),
    'toks': ('t:toks', ('a b', 'c', '')),
    'decs': ('t:decs', ('1.0 0', '', '3')),
    'ints3': ('t:ints', ('1 2 3', '', '5')),                 # the same list type, three items by default
    'someints': ('t:someints', ('1 2', '7', '1 2 3 4')),     # list restricted by minLength 1 / maxLength 4
    'code': ('t:code', ('AB', 'x y z', 'ABCDEFGH')),         # string restricted by minLength 2 / maxLength 8
    'colour': ('t:colour', ('red', 'blue', 'red')),          # string restricted by enumeration
}
LIST_ITEM = {'ints': 'int', 'toks': 'string', 'decs': 'decimal', 'ints3': 'int', 'someints': 'int'}
STRING_LIKE = ('string', 'code', 'colour')
SIMPLE_TYPES = (
    '<xs:simpleType name="ints"><xs:list itemType="xs:int"/></xs:simpleType>\n'
    '<xs:simpleType name="toks"><xs:list itemType="xs:NMTOKEN"/></xs:simpleType>\n'
    '<xs:simpleType name="decs"><xs:list itemType="xs:decimal"/></xs:simpleType>\n'
    '<xs:simpleType name="someints"><xs:restriction base="%(p)sints"><xs:minLength value="1"/>'
    '<xs:maxLength value="4"/></xs:restriction></xs:simpleType>\n'
    '<xs:simpleType name="code"><xs:restriction base="xs:string"><xs:minLength value="2"/>'
    '<xs:maxLength value="8"/></xs:restriction></xs:simpleType>\n'
    '<xs:simpleType name="colour"><xs:restriction base="xs:string"><xs:enumeration value="red"/>'
    '<xs:enumeration value="blue"/></xs:restriction></xs:simpleType>\n')


# --- value space (plain Python) ----------------------------------------------------------------------

_DT = re.compile(r'^(-?\d{4,})-(\d\d)-(\d\d)(?:T(\d\d):(\d\d):(\d\d)(\.\d+)?)?(Z|[+-]\d\d:\d\d)?$')


def _tz(s):
    if s is None:
        return None
    if s == 'Z':
        return 0
    sign = -1 if s[0] == '-' else 1
    return sign * (int(s[1:3]) * 60 + int(s[4:6]))


def value_of(leaf, text):
    """The value denoted by a lexical form, as a comparable Python object (None = not in the lexical space)."""
    text = (text or '')
    if leaf in STRING_LIKE:
        return text
    t = text.strip(' \t\r\n')
    try:
        if leaf == 'int':
            return int(t) if re.match(r'^[+-]?\d+$', t) else None
        if leaf == 'decimal':
            return Decimal(t) if re.match(r'^[+-]?(\d+(\.\d*)?|\.\d+)$', t) else None
        if leaf == 'boolean':
            return {'true': True, '1': True, 'false': False, '0': False}.get(t)
        if leaf == 'double':
            if t in ('INF', '+INF', '-INF'):
                return float(t.replace('INF', 'inf'))
            return float(t) if re.match(r'^[+-]?(\d+(\.\d*)?|\.\d+)([eE][+-]?\d+)?$', t) else None
        if leaf in ('date', 'dateTime'):
            m = _DT.match(t)
            if not m or (leaf == 'date') != (m.group(4) is None):
                return None
            y, mo, d = int(m.group(1)), int(m.group(2)), int(m.group(3))
            tz = _tz(m.group(8))
            if leaf == 'date':
                return ('date', y, mo, d, tz)
            frac = Decimal(m.group(7)) if m.group(7) else Decimal(0)
            dt = datetime(y, mo, d, int(m.group(4)), int(m.group(5)), int(m.group(6)))
            if tz is not None:
                dt -= timedelta(minutes=tz)
            return ('dateTime', dt, frac, tz is not None)
        if leaf in LIST_ITEM:
            items = [value_of(LIST_ITEM[leaf], x) for x in t.split()]
            return None if any(x is None for x in items) else tuple(items)
    except (ValueError, ArithmeticError):
        return None
    raise ValueError(leaf)


def same_value(leaf, a, b):
    va, vb = value_of(leaf, a), value_of(leaf, b)
    return va is not None and vb is not None and va == vb


# --- grammar constructors ----------------------------------------------------------------------------

def S(leaf):
    return ('S', leaf)


def C(model=None, kids=None, attrs=(), mixed=False, simple=None):
    return ('C', model, kids or {}, tuple(attrs), mixed, simple)


def K(local, typ, ns='t', nillable=False):
    return (local, typ, ns, nillable)


def el(sym, mn=1, mx=1):
    return ('el', mn, mx, frozenset([sym]), sym)


def seq(*kids, mn=1, mx=1):
    return ('seq', mn, mx, tuple(kids))


def cho(*kids, mn=1, mx=1):
    return ('cho', mn, mx, tuple(kids))


def allg(*kids, mn=1, mx=1):
    return ('all', mn, mx, tuple(kids))


OPT, STAR, PLUS = (0, 1), (0, None), (1, None)


def _templates():
    a_s, b_i, c_d = K('a', S('string')), K('b', S('int')), K('c', S('decimal'))
    sc_dec = C(simple='decimal', attrs=[('u', 'string', False)])
    sc_ints = C(simple='ints', attrs=[('n', 'int', True)])
    inner_ab = C(seq(el('a'), el('b', *STAR)), {'a': a_s, 'b': b_i})
    inner_cho = C(cho(el('a'), el('b')), {'a': a_s, 'b': b_i})
    T = []

    def add(name, root_type, tns=TNS, root_ns='t'):
        T.append({'name': name, 'tns': tns, 'root': K('root', root_type, root_ns)})

    add('flat', C(seq(el('a'), el('b', *OPT), el('c', *STAR)), {'a': a_s, 'b': b_i, 'c': c_d}))
    add('attrs', C(seq(el('a'), el('b', *OPT)), {'a': a_s, 'b': b_i},
                   attrs=[('id', 'int', True), ('flag', 'boolean', False), ('d', 'date', False)]))
    add('simplecontent', C(seq(el('a', *PLUS), el('b', *OPT)), {'a': K('a', sc_dec), 'b': K('b', sc_ints)}))
    add('nested2', C(seq(el('p'), el('q', *OPT)), {'p': K('p', inner_ab), 'q': K('q', inner_cho)}))
    add('nested3', C(seq(el('p', *PLUS)), {'p': K('p', C(seq(el('q', *OPT), el('a')), {
        'q': K('q', C(seq(el('a', *OPT), el('b', *OPT)), {'a': a_s, 'b': b_i}, attrs=[('k', 'string', False)])),
        'a': a_s}))}))
    add('mixed', C(seq(el('a', *OPT), el('b', *OPT)), {'a': a_s, 'b': b_i}, mixed=True))
    add('mixedrep', C(seq(el('a', *STAR)), {'a': a_s}, mixed=True))
    add('mixednested', C(seq(el('p'), el('a', *OPT)), {
        'p': K('p', C(cho(el('a'), el('b'), mn=0, mx=2), {'a': a_s, 'b': b_i}, mixed=True)), 'a': a_s}))
    add('mixedtext', C(seq(el('p', *STAR), el('a', *OPT)), {
        'p': K('p', C(None, {}, attrs=[('k', 'int', False)], mixed=True)), 'a': a_s}))
    add('mixedattrs', C(seq(el('a'), el('b', *OPT)), {'a': a_s, 'b': K('b', sc_dec)}, mixed=True,
                        attrs=[('id', 'int', False)]))
    add('lists', C(seq(el('l'), el('m', *OPT), el('n', *STAR)),
                   {'l': K('l', S('ints')), 'm': K('m', S('toks')), 'n': K('n', S('decs'))}))
    add('listgroup', C(cho(seq(el('l')), mn=1, mx=3), {'l': K('l', S('ints'))}))
    add('listattr', C(seq(el('a', *OPT)), {'a': a_s}, attrs=[('v', 'ints', False), ('w', 'toks', True)]))
    add('unqualified', C(seq(el('a'), el('b', *STAR)), {'a': K('a', S('string'), ''), 'b': K('b', S('int'), '')}))
    add('unqualnested', C(seq(el('p', *PLUS)), {'p': K('p', C(seq(el('a'), el('b', *OPT)), {
        'a': K('a', S('string'), ''), 'b': K('b', S('int'), 't')}, attrs=[('k', 'int', False)]), '')}))
    add('twons', C(seq(el('a'), el('x', *OPT), el('b', *STAR)), {'a': a_s, 'x': K('x', S('string'), 'o'), 'b': b_i}))
    add('twonsnested', C(seq(el('y'), el('a', *OPT)), {
        'y': K('y', C(seq(el('x', *STAR), el('z', *OPT)), {'x': K('x', S('string'), 'o'), 'z': K('z', S('int'), 'o')},
                      attrs=[('k', 'string', False)]), 'o'), 'a': a_s}))
    add('nons', C(seq(el('a'), el('b', *OPT)), {'a': K('a', S('string'), ''), 'b': K('b', sc_dec, '')},
                  attrs=[('id', 'int', False)]), tns=None, root_ns='')
    add('contig', C(seq(el('a'), el('a', *OPT), el('b')), {'a': a_s, 'b': b_i}))
    add('contigocc', C(seq(el('a', 2, 3), el('b', *OPT)), {'a': K('a', S('int')), 'b': K('b', S('string'))}))
    add('contigcomplex', C(seq(el('p', 1, 3), el('a', *OPT)), {
        'p': K('p', C(seq(el('a')), {'a': a_s}, attrs=[('k', 'int', False)])), 'a': a_s}))
    add('noncontig', C(seq(el('a'), el('b'), el('a', *OPT)), {'a': a_s, 'b': b_i}))
    add('noncontigstar', C(cho(el('a'), el('b'), mn=0, mx=None), {'a': a_s, 'b': b_i}))
    add('noncontigcomplex', C(seq(el('p'), el('a'), el('p', *OPT)), {
        'p': K('p', C(seq(el('b', *OPT)), {'b': b_i}, attrs=[('k', 'string', False)])), 'a': a_s}))
    add('nillable', C(seq(el('a', *OPT), el('b'), el('c', *OPT)), {
        'a': K('a', S('string'), 't', True), 'b': K('b', S('int'), 't', True),
        'c': K('c', C(simple='decimal', attrs=[('u', 'string', False)]), 't', True)}))
    add('choice', C(cho(el('a'), seq(el('b'), el('c', *OPT))), {'a': a_s, 'b': b_i, 'c': c_d}))
    add('allgroup', C(allg(el('a'), el('b', *OPT), el('c', *OPT)), {'a': a_s, 'b': b_i, 'c': c_d}))
    add('empties', C(seq(el('e', *STAR), el('a', *OPT)), {
        'e': K('e', C(None, {}, attrs=[('x', 'int', False)])), 'a': a_s}))
    add('scalars', C(seq(el('a'), el('b', *OPT), el('c', *OPT), el('d', *OPT)), {
        'a': K('a', S('boolean')), 'b': K('b', S('double')), 'c': K('c', S('date')), 'd': K('d', S('dateTime'))},
        attrs=[('t', 'dateTime', False), ('f', 'double', False)]))
    # simple content over a LIST type, optional attribute absent by default: single and repeated particle
    sc_list = C(simple='ints3', attrs=[('unit', 'string', False)])
    add('sclist', C(seq(el('o'), el('m', *STAR), el('a', *OPT)), {
        'o': K('o', sc_list), 'm': K('m', C(simple='ints3', attrs=[('unit', 'string', False)])), 'a': a_s}))
    # a non-repeatable element inside a repeated group with an optional sibling, then another name
    add('collapse', C(seq(seq(el('i'), el('n', *OPT), mn=0, mx=None), el('t')), {
        'i': K('i', S('int')), 'n': K('n', S('string')), 't': K('t', S('decimal'))}))
    add('collapsecomplex', C(seq(seq(el('i'), el('n', *OPT), mn=0, mx=3), el('t')), {
        'i': K('i', C(simple='string', attrs=[('q', 'int', True)])), 'n': K('n', S('string')),
        't': K('t', S('decimal'))}, attrs=[('id', 'string', True)]))
    # restricted simple types whose facets refuse the empty value: element type, simple content, attribute
    add('facets', C(seq(el('s'), el('c', *OPT), el('p', *STAR)), {
        's': K('s', S('someints')), 'c': K('c', S('code')),
        'p': K('p', C(simple='someints', attrs=[('colour', 'colour', True), ('slots', 'someints', False)]))},
        attrs=[('k', 'code', False)]))
    return T


TEMPLATES = _templates()
BY_NAME = {t['name']: t for t in TEMPLATES}


# --- declarations: numbering the complex types -----------------------------------------------------------

class Decls:
    """Flattens a template: complex types numbered in pre-order; per type its DFA, words and contiguity."""

    def __init__(self, tpl, maxlen=4):
        self.tpl = tpl
        self.ctypes = []            # cid -> ('C', ...)
        self.cid_of = {}
        self._number(tpl['root'][1])
        self.words, self.dfa, self.contig, self.sigma, self.unique = {}, {}, {}, {}, {}
        for cid, ct in enumerate(self.ctypes):
            model = ct[1]
            if model is None:
                self.words[cid], self.dfa[cid], self.contig[cid], self.sigma[cid] = [()], None, True, ()
                self.unique[cid] = {()}
                continue
            sigma = sorted(regex.letters(model))
            d = regex.dfa_of(model, sigma)
            self.sigma[cid], self.dfa[cid] = sigma, d
            self.words[cid] = [w for w in regex.words(sigma, maxlen) if d.accepts(w)]
            self.contig[cid] = contiguous(d, sigma)
            by_sig = {}
            for w in self.words[cid]:
                by_sig.setdefault(keyed_signature(w), []).append(w)
            self.unique[cid] = {ws[0] for ws in by_sig.values() if len(ws) == 1}

    def _number(self, typ):
        if typ[0] != 'C' or id(typ) in self.cid_of:
            return
        self.cid_of[id(typ)] = len(self.ctypes)
        self.ctypes.append(typ)
        for sym in sorted(typ[2]):
            self._number(typ[2][sym][1])

    def cid(self, typ):
        return self.cid_of[id(typ)]


def keyed_signature(word):
    """What a keyed-dict convention retains of a child sequence: names in first-occurrence order and counts."""
    order = []
    for sym in word:
        if sym not in order:
            order.append(sym)
    return tuple((sym, word.count(sym)) for sym in order)


def contiguous(dfa, sigma):
    """True iff no accepted word has two occurrences of one name separated by another name.

    Search of the trimmed reference DFA (every state is co-accessible) with a three-phase monitor per name x:
    0 = no x yet, 1 = inside a run of x, 2 = an x was seen and then another name; an x in phase 2 is a witness."""
    if dfa.start is None:
        return True
    for x in sigma:
        seen = {(dfa.start, 0)}
        todo = [(dfa.start, 0)]
        while todo:
            q, ph = todo.pop()
            for sym in sigma:
                q2 = dfa.trans.get((q, sym))
                if q2 is None:
                    continue
                if sym == x:
                    if ph == 2:
                        return False
                    ph2 = 1
                else:
                    ph2 = 0 if ph == 0 else 2
                if (q2, ph2) not in seen:
                    seen.add((q2, ph2))
                    todo.append((q2, ph2))
    return True


# --- XSD rendering ---------------------------------------------------------------------------------------

def _tname(cid):
    return 'T%d' % cid


def render_schemas(tpl, decls=None):
    """Returns the list of schema documents (main first; the urn:o one when the template uses it)."""
    decls = decls or Decls(tpl)
    tns = tpl['tns']
    uses_o = any(k[2] == 'o' for ct in decls.ctypes for k in ct[2].values())
    pfx = 't:' if tns else ''
    o_globals = {}
    o_types = set()

    def mark_o(typ):
        """Types reachable from urn:o globals are declared in the urn:o document."""
        if typ[0] == 'C':
            o_types.add(decls.cid(typ))
            for k in typ[2].values():
                mark_o(k[1])

    for ct in decls.ctypes:
        for k in ct[2].values():
            if k[2] == 'o':
                o_globals[k[0]] = k
    for k in list(o_globals.values()):
        mark_o(k[1])

    def type_ref(typ, inside_o):
        if typ[0] == 'S':
            q = LEAF[typ[1]][0]
            if q.startswith('xs:'):
                return q
            return ('o:' if inside_o else pfx) + q[2:]
        cid = decls.cid(typ)
        return ('o:' if cid in o_types else pfx) + _tname(cid)

    def ctype_xsd(cid, ct, inside_o):
        _, model, kids, attrs, mixed, simple = ct

        def leaf(n):
            local, typ, ns, nillable = kids[n[4]]
            occ = occ_attrs(n[1], n[2])
            nil = ' nillable="true"' if nillable else ''
            if ns == 'o' and not inside_o:
                return '<xs:element ref="o:%s"%s/>' % (local, occ)
            if inside_o:
                form = ' form="qualified"'
            else:
                form = ' form="%s"' % ('qualified' if ns == 't' else 'unqualified') if tns else ''
            return '<xs:element name="%s" type="%s"%s%s%s/>' % (local, type_ref(typ, inside_o), form, nil, occ)
        att = ''.join('<xs:attribute name="%s" type="%s"%s/>' % (
            n, type_ref(('S', t), inside_o), ' use="required"' if req else '') for n, t, req in attrs)
        if simple is not None:
            body = '<xs:simpleContent><xs:extension base="%s">%s</xs:extension></xs:simpleContent>' % (
                type_ref(('S', simple), inside_o), att)
        else:
            body = (render_model(model, leaf) if model is not None else '') + att
        return '<xs:complexType name="%s"%s>%s</xs:complexType>\n' % (
            _tname(cid), ' mixed="true"' if mixed else '', body)

    main = ['<xs:schema xmlns:xs="http://www.w3.org/2001/XMLSchema"']
    if tns:
        main.append(' targetNamespace="%s" xmlns:t="%s"' % (tns, tns))
    if uses_o:
        main.append(' xmlns:o="%s"' % ONS)
    main.append('>\n')
    if uses_o:
        main.append('<xs:import namespace="%s"/>\n' % ONS)
    root = tpl['root']
    main.append('<xs:element name="%s" type="%s"/>\n' % (root[0], type_ref(root[1], False)))
    main.append(SIMPLE_TYPES % {'p': pfx})
    for cid, ct in enumerate(decls.ctypes):
        if cid not in o_types:
            main.append(ctype_xsd(cid, ct, False))
    main.append('</xs:schema>\n')
    docs = [''.join(main)]
    if uses_o:
        other = ['<xs:schema xmlns:xs="http://www.w3.org/2001/XMLSchema" targetNamespace="%s" xmlns:o="%s">\n'
                 % (ONS, ONS)]
        for local in sorted(o_globals):
            k = o_globals[local]
            other.append('<xs:element name="%s" type="%s"%s/>\n' % (
                local, type_ref(k[1], True), ' nillable="true"' if k[3] else ''))
        other.append(SIMPLE_TYPES % {'p': 'o:'})
        for cid, ct in enumerate(decls.ctypes):
            if cid in o_types:
                other.append(ctype_xsd(cid, ct, True))
        other.append('</xs:schema>\n')
        docs.append(''.join(other))
    return docs


def occ_attrs(mn, mx):
    s = ''
    if mn != 1:
        s += ' minOccurs="%d"' % mn
    if mx != 1:
        s += ' maxOccurs="%s"' % ('unbounded' if mx is None else mx)
    return s


def render_model(n, leaf):
    if n[0] == 'el':
        return leaf(n)
    tag = {'seq': 'sequence', 'cho': 'choice', 'all': 'all'}[n[0]]
    return '<xs:%s%s>%s</xs:%s>' % (tag, occ_attrs(n[1], n[2]), ''.join(render_model(c, leaf) for c in n[3]), tag)


# --- instances --------------------------------------------------------------------------------------------
# A skeleton fixes one word per occurring complex type and one text pattern per occurring mixed type.
# A node of the reference tree is a dict:
#   tag (Clark), qname (prefixed), kind 'S'|'SC'|'C', leaf (for S/SC), attrs [(name, leaf, lexical)],
#   text (lexical or None), nil (bool), kids [nodes], segs [text or None] * (len(kids)+1) for mixed, mixed (bool)

PATTERNS = ('none', 'head', 'tail', 'mid', 'all')


def pattern_segs(pat, n):
    """Texts of the n+1 character-data positions of a mixed element with n children."""
    segs = [None] * (n + 1)
    if pat == 'head' or pat == 'all':
        segs[0] = 't0'
    if pat == 'tail' and n >= 1 or pat == 'all' and n >= 1:
        segs[n] = 't%d' % n
    if pat in ('mid', 'all'):
        for i in range(1, n):
            segs[i] = 't%d' % i
    return segs


def patterns_for(n):
    if n == 0:
        return ('none', 'head')
    if n == 1:
        return ('none', 'head', 'tail', 'all')
    return PATTERNS


def clark(tpl, local, ns, inside_o=False):
    if ns == 'o' or inside_o:
        return '{%s}%s' % (ONS, local), 'o:' + local
    if ns == 't' and tpl['tns']:
        return '{%s}%s' % (tpl['tns'], local), 't:' + local
    return local, local


def skeletons(tpl, decls, maxnodes=12):
    """Every assignment {cid: word}, {cid: pattern} to the complex types that occur, total nodes <= maxnodes.
    All occurrences of one type share its word (and pattern)."""
    root_t = tpl['root'][1]
    out = []

    def occurring(words):
        """cids reachable from the root under the partial assignment; returns (unassigned cid or None, node count)."""
        count = [0]
        missing = [None]

        def walk(typ):
            count[0] += 1
            if typ[0] != 'C':
                return
            cid = decls.cid(typ)
            if cid not in words:
                if missing[0] is None:
                    missing[0] = cid
                return
            for sym in words[cid]:
                walk(typ[2][sym][1])
        walk(root_t)
        return missing[0], count[0]

    def rec(words):
        cid, count = occurring(words)
        if count > maxnodes:
            return
        if cid is None:
            mixed = [c for c in sorted(words) if decls.ctypes[c][4]]
            for pats in product(*[patterns_for(len(words[c])) for c in mixed]):
                out.append((dict(words), dict(zip(mixed, pats))))
            return
        for w in decls.words[cid]:
            words[cid] = w
            rec(words)
            del words[cid]
    rec({})
    return out


def skel_key(words, pats):
    return ';'.join('%d:%s%s' % (c, ''.join(words[c]) or '-', ('~' + pats[c]) if c in pats else '')
                    for c in sorted(words))


def parse_skel_key(key):
    words, pats = {}, {}
    for part in key.split(';'):
        c, rest = part.split(':', 1)
        if '~' in rest:
            rest, p = rest.split('~')
            pats[int(c)] = p
        words[int(c)] = () if rest == '-' else tuple(rest)
    return words, pats


def slots_of(tpl, decls, words, pats):
    """Builds the default instance tree and the list of slots [(node, kind, index/name, options)]."""
    slots = []

    def make(k, inside_o):
        local, typ, ns, nillable = k
        tag, qname = clark(tpl, local, ns, inside_o)
        inside = inside_o or ns == 'o'
        node = {'tag': tag, 'qname': qname, 'attrs': [], 'text': None, 'nil': False, 'kids': [], 'segs': None,
                'mixed': False, 'leaf': None, 'nillable': nillable}
        if typ[0] == 'S':
            node['kind'], node['leaf'] = 'S', typ[1]
            node['text'] = LEAF[typ[1]][1][0]
            slots.append((node, 'text', None, list(LEAF[typ[1]][1]) + ([NIL] if nillable else [])))
            return node
        _, model, kids, attrs, mixed, simple = typ
        for name, leaf, req in attrs:
            vals = list(LEAF[leaf][1])
            if req:
                node['attrs'].append([name, leaf, vals[0]])
                slots.append((node, 'attr', name, vals))
            else:
                node['attrs'].append([name, leaf, ABSENT])
                slots.append((node, 'attr', name, [ABSENT] + vals))
        if simple is not None:
            node['kind'], node['leaf'] = 'SC', simple
            node['text'] = LEAF[simple][1][0]
            slots.append((node, 'text', None, list(LEAF[simple][1]) + ([NIL] if nillable else [])))
            return node
        node['kind'], node['mixed'] = 'C', mixed
        cid = decls.cid(typ)
        for sym in words[cid]:
            node['kids'].append(make(kids[sym], inside))
        if mixed:
            node['segs'] = pattern_segs(pats[cid], len(node['kids']))
        return node
    root = make(tpl['root'], False)
    return root, slots


def apply_devs(slots, devs):
    for si, oi in devs:
        node, kind, name, options = slots[si]
        v = options[oi]
        if kind == 'text':
            if v == NIL:
                node['nil'], node['text'] = True, None
            else:
                node['text'] = v
        else:
            for a in node['attrs']:
                if a[0] == name:
                    a[2] = v


def deviations(slots, maxdev):
    """Every set of at most maxdev slots taking a non-default option, fewest first."""
    for d in range(maxdev + 1):
        for idxs in combinations(range(len(slots)), d):
            for vals in product(*[range(1, len(slots[i][3])) for i in idxs]):
                yield tuple(zip(idxs, vals))


def dev_key(devs):
    return ','.join('%d=%d' % d for d in devs) or '-'


def parse_dev_key(key):
    return () if key == '-' else tuple(tuple(int(x) for x in p.split('=')) for p in key.split(','))


def build_instance(tpl, decls, skel, devkey):
    words, pats = parse_skel_key(skel)
    root, slots = slots_of(tpl, decls, words, pats)
    apply_devs(slots, parse_dev_key(devkey))
    return root


def esc(s):
    return s.replace('&', '&amp;').replace('<', '&lt;').replace('"', '&quot;')


def nsmap_of(tpl, root, default_ns=False):
    """The namespace map declared on the root (and passed to encode)."""
    ns = {}
    if tpl['tns']:
        ns['' if default_ns else 't'] = tpl['tns']
    used = set()

    def walk(n):
        if n['tag'].startswith('{%s}' % ONS):
            used.add('o')
        if n['nil']:
            used.add('xsi')
        for k in n['kids']:
            walk(k)
    walk(root)
    if 'o' in used:
        ns['o'] = ONS
    if 'xsi' in used:
        ns['xsi'] = XSI
    return ns


def to_xml(tpl, root, default_ns=False):
    nsmap = nsmap_of(tpl, root, default_ns)

    def name(n):
        q = n['qname']
        return q[2:] if default_ns and q.startswith('t:') else q

    def rec(n, top):
        parts = ['<', name(n)]
        if top:
            for p in nsmap:
                parts.append(' xmlns%s="%s"' % (':' + p if p else '', nsmap[p]))
        for a, _leaf, v in n['attrs']:
            if v != ABSENT:
                parts.append(' %s="%s"' % (a, esc(v)))
        if n['nil']:
            parts.append(' xsi:nil="true"/>')
            return ''.join(parts)
        if n['kind'] in ('S', 'SC'):
            if n['text'] == '':
                parts.append('/>')
            else:
                parts.append('>%s</%s>' % (esc(n['text']), name(n)))
            return ''.join(parts)
        inner = []
        nk = len(n['kids'])
        segs = n['segs'] or [None] * (nk + 1)
        for i in range(nk):
            if segs[i]:
                inner.append(segs[i])
            inner.append(rec(n['kids'][i], False))
        if segs[nk]:
            inner.append(segs[nk])
        if not inner:
            parts.append('/>')
        else:
            parts.append('>%s</%s>' % (''.join(inner), name(n)))
        return ''.join(parts)
    return rec(root, True), nsmap


def default_ns_ok(tpl, decls):
    """The default-namespace spelling is used when every element is qualified in the target namespace."""
    if not tpl['tns']:
        return False
    return all(k[2] == 't' for ct in decls.ctypes for k in ct[2].values())


def has_between_text(root):
    """Mixed content with character data strictly between two children (outside the keyed-dict domain)."""
    if root['segs'] and any(root['segs'][1:-1]):
        return True
    return any(has_between_text(k) for k in root['kids'])


def used_cids(words):
    return sorted(words)


def count_nodes(root):
    return 1 + sum(count_nodes(k) for k in root['kids'])


# --- structural comparison of the reference tree with an ElementTree element ---------------------------

def compare(node, elem, path='/'):
    """Returns a list of differences (strings) between the reference tree and an encoded element."""
    diffs = []
    here = path + node['qname']
    if elem.tag != node['tag']:
        return ['%s: tag %r' % (here, elem.tag)]
    exp = {a: (leaf, v) for a, leaf, v in node['attrs'] if v != ABSENT}
    if node['nil']:
        exp['{%s}nil' % XSI] = ('boolean', 'true')
    got = dict(elem.attrib)
    if set(exp) != set(got):
        diffs.append('%s: attributes %s instead of %s' % (here, sorted(got), sorted(exp)))
    for a in set(exp) & set(got):
        if not same_value(exp[a][0], exp[a][1], got[a]):
            diffs.append('%s/@%s: %r instead of %r' % (here, a, got[a], exp[a][1]))
    kids = list(elem)
    if node['nil']:
        if kids or (elem.text or '').strip():
            diffs.append('%s: nilled element not empty' % here)
        return diffs
    if node['kind'] in ('S', 'SC'):
        if kids:
            diffs.append('%s: simple element has children' % here)
        elif not same_value(node['leaf'], node['text'], elem.text or ''):
            diffs.append('%s: text %r instead of %r' % (here, elem.text, node['text']))
        return diffs
    if [k.tag for k in kids] != [k['tag'] for k in node['kids']]:
        diffs.append('%s: children %s instead of %s' % (here, [k.tag for k in kids], [k['tag'] for k in node['kids']]))
        return diffs
    got_segs = [elem.text] + [k.tail for k in kids]
    exp_segs = node['segs'] or [None] * (len(kids) + 1)
    if [(s or '').strip() for s in got_segs] != [(s or '') for s in exp_segs]:
        diffs.append('%s: character data %r instead of %r' % (here, got_segs, exp_segs))
    for k, e in zip(node['kids'], kids):
        diffs += compare(k, e, here + '/')
    return diffs
