"""Schemas, rewrites and probe instances for C09 (arrangement independence).

Nothing here imports xmlschema.  A schema is handled as a *document model*:

    Doc(head, prolog, globals, tail)    head   = text up to and including the start tag of xs:schema
                                        prolog = [(tag, text)] include / import / redefine / override / annotation /
                                                 defaultOpenContent children, in document order
                                        globals = [(kind, name, text)] top-level declarations, in document order
                                        tail   = the end tag

Generated schemas are written down as lists of globals; corpus schemas are cut into the same model by a
byte-offset scanner (expat), so that rewriting never re-serialises XML (prefixes used inside QName-valued
attributes survive).  Rewrites are pure functions Doc -> {file name: text}.
"""
import copy
import itertools
import os
import re
import xml.etree.ElementTree as ET
from urllib.parse import quote
from xml.parsers import expat

XSD = 'http://www.w3.org/2001/XMLSchema'
GLOBAL_TAGS = ('element', 'complexType', 'simpleType', 'group', 'attributeGroup', 'attribute', 'notation')
COMPOSE_TAGS = ('include', 'import', 'redefine', 'override')
PROLOG_TAGS = COMPOSE_TAGS + ('annotation', 'defaultOpenContent')


class Doc:
    def __init__(self, head, prolog, globs, tail='</xs:schema>'):
        self.head, self.prolog, self.globals, self.tail = head, list(prolog), list(globs), tail
        m = re.findall(r'<([A-Za-z_][\w.-]*:)?schema[\s>]', head)
        self.xsp = m[-1] if m else 'xs:'                 # the prefix (with colon, or '') bound to the XSD namespace

    @property
    def n(self):
        return len(self.globals)

    def names(self):
        return ['%s:%s' % (k, n) for k, n, _ in self.globals]


# ------------------------------------------------------------------------------------------------
# generated schemas
# ------------------------------------------------------------------------------------------------

HEAD = ('<?xml version="1.0" encoding="UTF-8"?>\n<xs:schema xmlns:xs="http://www.w3.org/2001/XMLSchema" '
        'targetNamespace="urn:t" xmlns:t="urn:t" elementFormDefault="qualified"%s>\n')
NS = 'xmlns:t="urn:t"'


def _g(kind, name, text):
    return kind, name, text.strip() + '\n'


def _gen_catalogue():
    """Returns {id: dict(doc=Doc, probes={label: xml}, aux={relative file: text}, versions, expect, kinds)}.

    `kinds` names the forward-reference kinds the schema wires (every global is declared *before* what it
    refers to in the original arrangement, so the original already is all-forward)."""
    cat = {}

    def add(sid, kinds, globs, probes, head_extra='', prolog=(), aux=None, versions=('1.0', '1.1'), expect=None):
        cat[sid] = {'doc': Doc(HEAD % head_extra, prolog, globs), 'probes': probes, 'aux': aux or {},
                    'versions': versions, 'expect': expect or {}, 'kinds': kinds}

    # G01: element->type, type->base by extension, list itemType, simple restriction
    add('G01-ext-list', 'element->type, type->base(extension), list itemType, simple base', [
        _g('element', 'e', '<xs:element name="e" type="t:T"/>'),
        _g('complexType', 'T', '<xs:complexType name="T"><xs:complexContent><xs:extension base="t:B"><xs:sequence>'
           '<xs:element name="y" type="t:I"/></xs:sequence></xs:extension></xs:complexContent></xs:complexType>'),
        _g('complexType', 'B', '<xs:complexType name="B"><xs:sequence><xs:element name="x" type="t:S"/></xs:sequence>'
           '</xs:complexType>'),
        _g('simpleType', 'S', '<xs:simpleType name="S"><xs:list itemType="t:I"/></xs:simpleType>'),
        _g('simpleType', 'I', '<xs:simpleType name="I"><xs:restriction base="xs:int"><xs:minInclusive value="0"/>'
           '</xs:restriction></xs:simpleType>'),
    ], {'e': '<t:e %s><t:x>1 2</t:x><t:y>3</t:y></t:e>' % NS,
        'e-neg': '<t:e %s><t:x>1 -2</t:x><t:y>3</t:y></t:e>' % NS})

    # G02: type->base by restriction, attributeGroup ref, attribute ref, attribute->type
    add('G02-restr-attrs', 'element->type, type->base(restriction), attributeGroup ref, attribute ref, attribute->type', [
        _g('element', 'e', '<xs:element name="e" type="t:R"/>'),
        _g('complexType', 'R', '<xs:complexType name="R"><xs:complexContent><xs:restriction base="t:B"><xs:sequence>'
           '<xs:element name="x" type="xs:string" minOccurs="1" maxOccurs="1"/></xs:sequence>'
           '<xs:attributeGroup ref="t:ag"/></xs:restriction></xs:complexContent></xs:complexType>'),
        _g('complexType', 'B', '<xs:complexType name="B"><xs:sequence><xs:element name="x" type="xs:string" '
           'minOccurs="0" maxOccurs="2"/></xs:sequence><xs:attributeGroup ref="t:ag"/></xs:complexType>'),
        _g('attributeGroup', 'ag', '<xs:attributeGroup name="ag"><xs:attribute ref="t:a" use="required"/>'
           '<xs:attribute name="b" type="t:I"/></xs:attributeGroup>'),
        _g('attribute', 'a', '<xs:attribute name="a" type="t:I"/>'),
        _g('simpleType', 'I', '<xs:simpleType name="I"><xs:restriction base="xs:int"><xs:maxInclusive value="9"/>'
           '</xs:restriction></xs:simpleType>'),
    ], {'e': '<t:e %s t:a="1" b="2"><t:x>v</t:x></t:e>' % NS,
        'e-two': '<t:e %s t:a="1"><t:x>v</t:x><t:x>w</t:x></t:e>' % NS,
        'e-big': '<t:e %s t:a="10"><t:x>v</t:x></t:e>' % NS})

    # G03: group ref, element ref, substitutionGroup, derived type of the member (n = 6)
    add('G03-group-subst', 'group ref, element ref, substitutionGroup, member type->head type', [
        _g('element', 'root', '<xs:element name="root"><xs:complexType><xs:sequence><xs:group ref="t:g"/>'
           '</xs:sequence></xs:complexType></xs:element>'),
        _g('group', 'g', '<xs:group name="g"><xs:sequence><xs:element ref="t:head" maxOccurs="unbounded"/>'
           '</xs:sequence></xs:group>'),
        _g('element', 'sub', '<xs:element name="sub" type="t:ST" substitutionGroup="t:head"/>'),
        _g('element', 'head', '<xs:element name="head" type="t:HT"/>'),
        _g('complexType', 'ST', '<xs:complexType name="ST"><xs:complexContent><xs:extension base="t:HT">'
           '<xs:attribute name="k" type="xs:int" use="required"/></xs:extension></xs:complexContent></xs:complexType>'),
        _g('complexType', 'HT', '<xs:complexType name="HT"><xs:sequence><xs:element name="v" type="xs:string" '
           'minOccurs="0"/></xs:sequence></xs:complexType>'),
    ], {'root': '<t:root %s><t:head><t:v>a</t:v></t:head><t:sub k="1"/></t:root>' % NS,
        'root-nok': '<t:root %s><t:sub/></t:root>' % NS,
        'sub': '<t:sub %s k="2"><t:v>b</t:v></t:sub>' % NS,
        'head': '<t:head %s/>' % NS})

    # G04: keyref -> key (keyref written before the key it refers to, in another global element), field types
    add('G04-keyref', 'keyref->key (declared later, on another element), element->type, element ref', [
        _g('element', 'db', '<xs:element name="db"><xs:complexType><xs:sequence><xs:element ref="t:refs"/>'
           '<xs:element ref="t:items"/></xs:sequence></xs:complexType>'
           '<xs:keyref name="KR" refer="t:K"><xs:selector xpath="t:refs/t:ref"/><xs:field xpath="@to"/></xs:keyref>'
           '<xs:key name="K"><xs:selector xpath="t:items/t:item"/><xs:field xpath="@id"/></xs:key></xs:element>'),
        _g('element', 'refs', '<xs:element name="refs"><xs:complexType><xs:sequence><xs:element name="ref" '
           'type="t:Ref" minOccurs="0" maxOccurs="unbounded"/></xs:sequence></xs:complexType></xs:element>'),
        _g('element', 'items', '<xs:element name="items"><xs:complexType><xs:sequence><xs:element name="item" '
           'type="t:Item" maxOccurs="unbounded"/></xs:sequence></xs:complexType>'
           '<xs:unique name="U"><xs:selector xpath="t:item"/><xs:field xpath="@id"/></xs:unique></xs:element>'),
        _g('complexType', 'Ref', '<xs:complexType name="Ref"><xs:attribute name="to" type="t:Id" use="required"/>'
           '</xs:complexType>'),
        _g('complexType', 'Item', '<xs:complexType name="Item"><xs:attribute name="id" type="t:Id" use="required"/>'
           '</xs:complexType>'),
        _g('simpleType', 'Id', '<xs:simpleType name="Id"><xs:restriction base="xs:int"/></xs:simpleType>'),
    ], {'db': '<t:db %s><t:refs><t:ref to="1"/><t:ref to="2"/></t:refs><t:items><t:item id="1"/><t:item id="2"/>'
              '</t:items></t:db>' % NS,
        'db-dangling': '<t:db %s><t:refs><t:ref to="3"/></t:refs><t:items><t:item id="1"/></t:items></t:db>' % NS,
        'db-dup': '<t:db %s><t:refs/><t:items><t:item id="1"/><t:item id="01"/></t:items></t:db>' % NS,
        'items': '<t:items %s><t:item id="7"/></t:items>' % NS,
        'refs': '<t:refs %s/>' % NS})

    # G05: union memberTypes, restriction of a later simple type, enumeration
    add('G05-union', 'union memberTypes, simple type->base, element->type, attribute->type', [
        _g('element', 'e', '<xs:element name="e"><xs:complexType><xs:simpleContent><xs:extension base="t:U">'
           '<xs:attribute name="m" type="t:M2"/></xs:extension></xs:simpleContent></xs:complexType></xs:element>'),
        _g('simpleType', 'U', '<xs:simpleType name="U"><xs:union memberTypes="t:M1 t:M2"/></xs:simpleType>'),
        _g('simpleType', 'M1', '<xs:simpleType name="M1"><xs:restriction base="xs:int"><xs:maxInclusive value="10"/>'
           '</xs:restriction></xs:simpleType>'),
        _g('simpleType', 'M2', '<xs:simpleType name="M2"><xs:restriction base="t:E"><xs:enumeration value="x"/>'
           '</xs:restriction></xs:simpleType>'),
        _g('simpleType', 'E', '<xs:simpleType name="E"><xs:restriction base="xs:string"><xs:enumeration value="x"/>'
           '<xs:enumeration value="y"/></xs:restriction></xs:simpleType>'),
    ], {'e': '<t:e %s m="x">7</t:e>' % NS, 'e-x': '<t:e %s>x</t:e>' % NS, 'e-y': '<t:e %s>y</t:e>' % NS,
        'e-11': '<t:e %s>11</t:e>' % NS, 'e-my': '<t:e %s m="y">1</t:e>' % NS})

    # G06: nested attributeGroup refs, attribute ref with fixed value, attribute->type
    add('G06-attrgroups', 'attributeGroup ref (nested), attribute ref, attribute->type', [
        _g('element', 'e', '<xs:element name="e"><xs:complexType><xs:attributeGroup ref="t:g1"/></xs:complexType>'
           '</xs:element>'),
        _g('attributeGroup', 'g1', '<xs:attributeGroup name="g1"><xs:attributeGroup ref="t:g2"/>'
           '<xs:attribute name="c" type="t:S" use="required"/></xs:attributeGroup>'),
        _g('attributeGroup', 'g2', '<xs:attributeGroup name="g2"><xs:attribute ref="t:a"/>'
           '<xs:attribute ref="t:f"/></xs:attributeGroup>'),
        _g('attribute', 'a', '<xs:attribute name="a" type="t:S" default="ab"/>'),
        _g('attribute', 'f', '<xs:attribute name="f" type="xs:int" fixed="5"/>'),
        _g('simpleType', 'S', '<xs:simpleType name="S"><xs:restriction base="xs:token"><xs:maxLength value="2"/>'
           '</xs:restriction></xs:simpleType>'),
    ], {'e': '<t:e %s c="x" t:a="y" t:f="5"/>' % NS, 'e-min': '<t:e %s c="x"/>' % NS,
        'e-fixed': '<t:e %s c="x" t:f="6"/>' % NS, 'e-long': '<t:e %s c="xyz"/>' % NS})

    # G07: abstract head, substitution chain, block
    add('G07-subst-chain', 'substitutionGroup (chain), element->type, type->base(extension), element ref', [
        _g('element', 'root', '<xs:element name="root"><xs:complexType><xs:sequence><xs:element ref="t:head" '
           'minOccurs="0" maxOccurs="unbounded"/></xs:sequence></xs:complexType></xs:element>'),
        _g('element', 'm2', '<xs:element name="m2" type="t:D" substitutionGroup="t:m1"/>'),
        _g('element', 'm1', '<xs:element name="m1" type="t:B" substitutionGroup="t:head"/>'),
        _g('element', 'head', '<xs:element name="head" type="t:B" abstract="true"/>'),
        _g('complexType', 'D', '<xs:complexType name="D"><xs:complexContent><xs:extension base="t:B"><xs:sequence>'
           '<xs:element name="d" type="xs:boolean"/></xs:sequence></xs:extension></xs:complexContent></xs:complexType>'),
        _g('complexType', 'B', '<xs:complexType name="B"><xs:sequence><xs:element name="b" type="xs:date" '
           'minOccurs="0"/></xs:sequence></xs:complexType>'),
    ], {'root': '<t:root %s><t:m1><t:b>2000-01-01</t:b></t:m1><t:m2><t:d>true</t:d></t:m2></t:root>' % NS,
        'root-abstract': '<t:root %s><t:head/></t:root>' % NS,
        'root-xsitype': '<t:root %s xmlns:xsi="http://www.w3.org/2001/XMLSchema-instance"><t:m1 xsi:type="t:D">'
                        '<t:d>0</t:d></t:m1></t:root>' % NS,
        'm2': '<t:m2 %s><t:b>2001-02-03</t:b><t:d>false</t:d></t:m2>' % NS,
        'm1': '<t:m1 %s/>' % NS})

    # G08: recursive structure through a group and an element ref, element->simple type
    add('G08-recursive', 'group ref, element ref (recursive), element->type', [
        _g('element', 'tree', '<xs:element name="tree" type="t:N"/>'),
        _g('complexType', 'N', '<xs:complexType name="N"><xs:sequence><xs:group ref="t:kids" minOccurs="0"/>'
           '</xs:sequence><xs:attribute name="w" type="t:L"/></xs:complexType>'),
        _g('group', 'kids', '<xs:group name="kids"><xs:sequence><xs:element ref="t:tree" minOccurs="0" '
           'maxOccurs="2"/><xs:element name="leaf" type="t:L"/></xs:sequence></xs:group>'),
        _g('simpleType', 'L', '<xs:simpleType name="L"><xs:restriction base="xs:NCName"><xs:pattern value="[a-c]+"/>'
           '</xs:restriction></xs:simpleType>'),
    ], {'tree': '<t:tree %s w="a"><t:tree><t:leaf>b</t:leaf></t:tree><t:tree/><t:leaf>abc</t:leaf></t:tree>' % NS,
        'tree-empty': '<t:tree %s/>' % NS,
        'tree-3': '<t:tree %s><t:tree/><t:tree/><t:tree/><t:leaf>a</t:leaf></t:tree>' % NS,
        'tree-pat': '<t:tree %s><t:leaf>d</t:leaf></t:tree>' % NS})

    # G09: simple content extension over later simple types, complex restriction of simple content
    add('G09-simplecontent', 'type->base(simple content extension and restriction), attribute->type', [
        _g('element', 'p', '<xs:element name="p" type="t:Small"/>'),
        _g('complexType', 'Small', '<xs:complexType name="Small"><xs:simpleContent><xs:restriction base="t:Price">'
           '<xs:maxInclusive value="100"/></xs:restriction></xs:simpleContent></xs:complexType>'),
        _g('complexType', 'Price', '<xs:complexType name="Price"><xs:simpleContent><xs:extension base="t:Amount">'
           '<xs:attribute name="cur" type="t:Cur" use="required"/></xs:extension></xs:simpleContent></xs:complexType>'),
        _g('simpleType', 'Amount', '<xs:simpleType name="Amount"><xs:restriction base="xs:decimal">'
           '<xs:fractionDigits value="2"/></xs:restriction></xs:simpleType>'),
        _g('simpleType', 'Cur', '<xs:simpleType name="Cur"><xs:restriction base="xs:string"><xs:enumeration '
           'value="EUR"/><xs:enumeration value="USD"/></xs:restriction></xs:simpleType>'),
    ], {'p': '<t:p %s cur="EUR">9.50</t:p>' % NS, 'p-big': '<t:p %s cur="USD">100.01</t:p>' % NS,
        'p-digits': '<t:p %s cur="USD">1.234</t:p>' % NS, 'p-cur': '<t:p %s cur="GBP">1</t:p>' % NS})

    # G10: circular attribute groups - allowed in XSD 1.1 (the attribute uses are the union), an error in XSD 1.0
    add('G10-circular-attrgroups', 'attributeGroup ref (circular: legal in XSD 1.1, refused in XSD 1.0)', [
        _g('element', 'e', '<xs:element name="e"><xs:complexType><xs:attributeGroup ref="t:h"/></xs:complexType>'
           '</xs:element>'),
        _g('element', 'f', '<xs:element name="f"><xs:complexType><xs:attributeGroup ref="t:g"/></xs:complexType>'
           '</xs:element>'),
        _g('attributeGroup', 'g', '<xs:attributeGroup name="g"><xs:attribute name="a" type="xs:int"/>'
           '<xs:attributeGroup ref="t:h"/></xs:attributeGroup>'),
        _g('attributeGroup', 'h', '<xs:attributeGroup name="h"><xs:attribute name="b" type="xs:int"/>'
           '<xs:attributeGroup ref="t:g"/></xs:attributeGroup>'),
    ], {'e': '<t:e %s a="1" b="2"/>' % NS, 'f': '<t:f %s a="1" b="2"/>' % NS, 'e-a': '<t:e %s a="1"/>' % NS,
        'f-b': '<t:f %s b="x"/>' % NS},
        expect={'1.0': 'refused', '1.1': 'built'})

    # G11: restriction chain of three types, xsi:type to the most derived, two elements
    add('G11-restr-chain', 'type->base(restriction) chain, element->type, xsi:type lookups', [
        _g('element', 'f', '<xs:element name="f" type="t:C"/>'),
        _g('element', 'e', '<xs:element name="e" type="t:A"/>'),
        _g('complexType', 'C', '<xs:complexType name="C"><xs:complexContent><xs:restriction base="t:B"><xs:sequence>'
           '<xs:element name="x" type="xs:string"/></xs:sequence></xs:restriction></xs:complexContent></xs:complexType>'),
        _g('complexType', 'B', '<xs:complexType name="B"><xs:complexContent><xs:restriction base="t:A"><xs:sequence>'
           '<xs:element name="x" type="xs:string" minOccurs="0" maxOccurs="2"/></xs:sequence></xs:restriction>'
           '</xs:complexContent></xs:complexType>'),
        _g('complexType', 'A', '<xs:complexType name="A"><xs:sequence><xs:element name="x" type="xs:string" '
           'minOccurs="0" maxOccurs="3"/></xs:sequence></xs:complexType>'),
    ], {'e': '<t:e %s><t:x>1</t:x><t:x>2</t:x><t:x>3</t:x></t:e>' % NS,
        'e-asC': '<t:e %s xmlns:xsi="http://www.w3.org/2001/XMLSchema-instance" xsi:type="t:C"><t:x>1</t:x></t:e>' % NS,
        'e-asB3': '<t:e %s xmlns:xsi="http://www.w3.org/2001/XMLSchema-instance" xsi:type="t:B"><t:x>1</t:x><t:x>2</t:x>'
                  '<t:x>3</t:x></t:e>' % NS,
        'f': '<t:f %s><t:x>1</t:x></t:f>' % NS, 'f-0': '<t:f %s/>' % NS})

    # G12: three imported namespaces referring to one another (import-order permutations)
    n1 = ('<xs:schema xmlns:xs="http://www.w3.org/2001/XMLSchema" targetNamespace="urn:n1" xmlns:n1="urn:n1" '
          'elementFormDefault="qualified">\n<xs:element name="a" type="n1:A"/>\n<xs:complexType name="A"><xs:sequence>'
          '<xs:element name="v" type="xs:int"/></xs:sequence></xs:complexType>\n</xs:schema>\n')
    n2 = ('<xs:schema xmlns:xs="http://www.w3.org/2001/XMLSchema" targetNamespace="urn:n2" xmlns:n2="urn:n2" '
          'xmlns:n1="urn:n1" elementFormDefault="qualified">\n<xs:import namespace="urn:n1" schemaLocation="n1.xsd"/>\n'
          '<xs:element name="b" type="n2:B"/>\n<xs:complexType name="B"><xs:complexContent><xs:extension base="n1:A">'
          '<xs:attribute name="k" type="xs:int"/></xs:extension></xs:complexContent></xs:complexType>\n</xs:schema>\n')
    n3 = ('<xs:schema xmlns:xs="http://www.w3.org/2001/XMLSchema" targetNamespace="urn:n3" xmlns:n3="urn:n3" '
          'xmlns:n2="urn:n2" elementFormDefault="qualified">\n<xs:import namespace="urn:n2" schemaLocation="n2.xsd"/>\n'
          '<xs:element name="c" substitutionGroup="n2:b" type="n2:B"/>\n<xs:attribute name="q" type="xs:boolean"/>\n'
          '</xs:schema>\n')
    add('G12-imports', 'imports of three namespaces that refer to one another, cross-namespace element ref, '
        'type->base, substitutionGroup, attribute ref', [
        _g('element', 'e', '<xs:element name="e" type="t:T"/>'),
        _g('complexType', 'T', '<xs:complexType name="T"><xs:sequence><xs:element ref="n1:a"/><xs:element ref="n2:b" '
           'maxOccurs="2"/><xs:group ref="t:g"/></xs:sequence><xs:attribute ref="n3:q"/></xs:complexType>'),
        _g('group', 'g', '<xs:group name="g"><xs:sequence><xs:element name="z" type="t:Z" minOccurs="0"/>'
           '</xs:sequence></xs:group>'),
        _g('complexType', 'Z', '<xs:complexType name="Z"><xs:complexContent><xs:extension base="n2:B"/>'
           '</xs:complexContent></xs:complexType>'),
    ], {'e': '<t:e %s xmlns:n1="urn:n1" xmlns:n2="urn:n2" xmlns:n3="urn:n3" n3:q="true"><n1:a><n1:v>1</n1:v></n1:a>'
             '<n2:b k="1"><n1:v>2</n1:v></n2:b><n3:c><n1:v>3</n1:v></n3:c><t:z><n1:v>4</n1:v></t:z></t:e>' % NS,
        'e-min': '<t:e %s xmlns:n1="urn:n1" xmlns:n2="urn:n2"><n1:a><n1:v>1</n1:v></n1:a><n2:b><n1:v>2</n1:v></n2:b>'
                 '</t:e>' % NS,
        'e-3b': '<t:e %s xmlns:n1="urn:n1" xmlns:n2="urn:n2"><n1:a><n1:v>1</n1:v></n1:a><n2:b><n1:v>2</n1:v></n2:b>'
                '<n2:b><n1:v>2</n1:v></n2:b><n2:b><n1:v>2</n1:v></n2:b></t:e>' % NS},
        head_extra=' xmlns:n1="urn:n1" xmlns:n2="urn:n2" xmlns:n3="urn:n3"',
        prolog=[('import', '<xs:import namespace="urn:n3" schemaLocation="n3.xsd"/>\n'),
                ('import', '<xs:import namespace="urn:n1" schemaLocation="n1.xsd"/>\n'),
                ('import', '<xs:import namespace="urn:n2" schemaLocation="n2.xsd"/>\n')],
        aux={'n1.xsd': n1, 'n2.xsd': n2, 'n3.xsd': n3})
    return cat


GENERATED = _gen_catalogue()


# ------------------------------------------------------------------------------------------------
# corpus: cutting a schema document into a Doc without re-serialising it
# ------------------------------------------------------------------------------------------------

class NotCuttable(Exception):
    pass


def cut(data):
    """bytes of a schema document -> Doc (texts are str, decoded as UTF-8).  Raises NotCuttable."""
    try:
        text = data.decode('utf-8')
    except UnicodeDecodeError:
        raise NotCuttable('not UTF-8')
    if text.startswith('﻿'):
        text = text[1:]
    m = re.match(r'\s*<\?xml[^>]*encoding\s*=\s*["\']([A-Za-z0-9._-]+)["\']', text)
    if m and m.group(1).lower() not in ('utf-8', 'utf8', 'us-ascii', 'ascii'):
        raise NotCuttable('declared encoding %s' % m.group(1))
    raw = text.encode('utf-8')
    marks = []          # (byte offset, depth-1 tag)
    state = {'depth': 0, 'end': None, 'root': None}
    p = expat.ParserCreate(namespace_separator=' ')

    def start(name, attrs):
        if state['depth'] == 0:
            state['root'] = name
        elif state['depth'] == 1:
            marks.append((p.CurrentByteIndex, name))
        state['depth'] += 1

    def end(name):
        state['depth'] -= 1
        if state['depth'] == 0:
            state['end'] = p.CurrentByteIndex

    p.StartElementHandler, p.EndElementHandler = start, end
    try:
        p.Parse(raw, True)
    except expat.ExpatError as e:
        raise NotCuttable('not well formed: %s' % e)
    if state['root'] != XSD + ' schema':
        raise NotCuttable('root is not xs:schema')
    if not marks:
        raise NotCuttable('no children')
    endpos = state['end']
    if raw[endpos:endpos + 2] != b'</':
        raise NotCuttable('empty root element')
    head = raw[:marks[0][0]].decode('utf-8')
    tail = raw[endpos:].decode('utf-8')
    prolog, globs = [], []
    for i, (pos, name) in enumerate(marks):
        nxt = marks[i + 1][0] if i + 1 < len(marks) else endpos
        seg = raw[pos:nxt].decode('utf-8')
        ns, _, local = name.rpartition(' ')
        if ns != XSD:
            raise NotCuttable('foreign top-level element')
        if local in GLOBAL_TAGS:
            mm = re.match(r'<[^>]*?\sname\s*=\s*["\']([^"\']*)["\']', seg, re.S)
            globs.append((local, mm.group(1) if mm else '?%d' % i, seg))
        elif local in PROLOG_TAGS:
            if globs and local != 'annotation':
                raise NotCuttable('composition element after a declaration')
            prolog.append((local, seg))
        else:
            raise NotCuttable('unexpected top-level xs:%s' % local)
    return Doc(head, prolog, globs, tail)


_LOC = re.compile(r'(schemaLocation\s*=\s*)(["\'])(.*?)\2', re.S)


def absolutise(doc, origin_dir):
    """Relative schemaLocations of the composition elements become absolute paths below origin_dir."""
    out = []
    for tag, seg in doc.prolog:
        if tag in COMPOSE_TAGS:
            def fix(m):
                loc = m.group(3).strip()
                if re.match(r'[A-Za-z][A-Za-z0-9+.-]*:', loc) or loc.startswith('/'):
                    return m.group(0)
                return m.group(1) + m.group(2) + os.path.normpath(os.path.join(origin_dir, loc)) + m.group(2)
            # only the first schemaLocation of the segment is the composition element's own
            seg = _LOC.sub(fix, seg, count=1)
        out.append((tag, seg))
    return Doc(doc.head, out, doc.globals, doc.tail)


def import_namespaces(doc):
    """The namespace attribute of every xs:import of the prolog ('' when absent)."""
    out = []
    for tag, seg in doc.prolog:
        if tag == 'import':
            m = re.match(r'<[^>]*?\snamespace\s*=\s*["\']([^"\']*)["\']', seg, re.S)
            out.append(m.group(1).strip() if m else '')
    return out


def needs_network(data):
    return bool(re.search(rb'schemaLocation\s*=\s*["\']\s*(https?|ftp)s?:', data))


# ------------------------------------------------------------------------------------------------
# rewrites
# ------------------------------------------------------------------------------------------------

def compose(doc, globs, prolog=None, extra_prolog=''):
    pro = doc.prolog if prolog is None else prolog
    return doc.head + extra_prolog + ''.join(s for _, s in pro) + ''.join(t for _, _, t in globs) + doc.tail


def part_prolog(doc):
    """What an include file must repeat from the main document: imports and defaultOpenContent."""
    return [(t, s) for t, s in doc.prolog if t in ('import', 'defaultOpenContent')]


def permutations_for(n, full_upto):
    """All permutations for n <= full_upto, else all transpositions + the reversal (+ identity first)."""
    ident = tuple(range(n))
    if n <= full_upto:
        return list(itertools.permutations(range(n)))
    out = [ident]
    for i in range(n):
        for j in range(i + 1, n):
            p = list(ident)
            p[i], p[j] = p[j], p[i]
            out.append(tuple(p))
    rev = tuple(reversed(ident))
    if rev not in out:
        out.append(rev)
    return out


def assignments_for(n, k, full_upto):
    """Assignments of n globals to k include files: all k**n for n <= full_upto, else a linear family
    (every single global moved out, every prefix cut, round robin, reversed round robin)."""
    if n <= full_upto:
        return list(itertools.product(range(k), repeat=n))
    out = []
    for i in range(n):
        out.append(tuple(1 if j == i else 0 for j in range(n)))
        out.append(tuple(0 if j == i else 1 for j in range(n)))
    for c in range(1, n):
        out.append(tuple(0 if j < c else 1 for j in range(n)))
        out.append(tuple(1 if j < c else 0 for j in range(n)))
    out.append(tuple(j % k for j in range(n)))
    out.append(tuple((k - 1) - (j % k) for j in range(n)))
    if k == 3:
        for c1 in range(1, n):
            c2 = (c1 + n) // 2
            out.append(tuple(0 if j < c1 else (1 if j < c2 else 2) for j in range(n)))
    seen, uniq = set(), []
    for a in out:
        if a not in seen:
            seen.add(a)
            uniq.append(a)
    return uniq


PART_NAMES = ('p1.xsd', 'p 2.xsd', 'p3.xsd')       # one name needs escaping when written as a URI
SPELLINGS = ('rel', 'dot', 'dotdot', 'abs', 'absdot', 'url', 'urldot', 'pct')


def spell(kind, name, directory):
    """One of the equivalent ways of writing the location of directory/name (directory/a exists)."""
    ab = os.path.join(directory, name)
    if kind == 'rel':
        return name
    if kind == 'dot':
        return './' + name
    if kind == 'dotdot':
        return 'a/../' + name
    if kind == 'abs':
        return ab
    if kind == 'absdot':
        return os.path.join(directory, 'a', '..', name)
    if kind == 'url':
        return 'file://' + quote(ab)
    if kind == 'urldot':
        return 'file://' + quote(os.path.join(directory, 'a', '..', name))
    if kind == 'pct':
        q = quote(name)
        return q if q != name else name.replace('p', '%70', 1)      # %70 = 'p': an escaped unreserved character
    raise ValueError(kind)


PUBLISHED = 'http://example.test/schemas/'        # never fetched: the uri_mapper relocates it to fixture files


def published(name):
    """The 'published' URL of a fixture file, as it is written in a schemaLocation."""
    return PUBLISHED + quote(name)


# (includes of main, extra includes of p2): 'F' = p1 by file name, 'P' = p1 by its published URL, '2' = p2
MAPPED_SCENARIOS = {
    'once-main': ('P2', ''),           # a single mapped reference
    'once-p2': ('2', 'P'),
    'p2-pub': ('F2', 'P'),             # by file name first, then by the mapped URL
    'main-pub': ('P2', 'F'),           # by the mapped URL first, then by file name
    'p2-first-pub': ('2F', 'P'),
    'both-pub': ('P2', 'P'),
    'twice-main': ('FP2', ''),         # both spellings in the main document itself
    'twice-main-rev': ('PF2', ''),
    'p2-pub-too': ('F2P', 'P'),        # file name, then the mapped URL from two documents
}


def files_mapped(doc, scenario, directory, plain=False):
    """Alternate split into p1/p2 where p1 is referred by file name and/or by its published URL.
    plain=True gives the counterpart of the scenario written with file names only."""
    main_inc, p2_inc = MAPPED_SCENARIOS[scenario]
    if plain:
        main_inc, p2_inc = main_inc.replace('P', 'F'), p2_inc.replace('P', 'F')
    n = len(doc.globals)
    assign = tuple(i % 2 for i in range(n))
    loc = {'F': PART_NAMES[0], 'P': published(PART_NAMES[0]), '2': PART_NAMES[1]}
    pp = ''.join(s for _, s in part_prolog(doc))
    files = {}
    for part in range(2):
        extra = ''.join(include(loc[c], doc.xsp) for c in p2_inc) if part == 1 else ''
        files[PART_NAMES[part]] = doc.head + pp + extra + \
            ''.join(t for i, (_, _, t) in enumerate(doc.globals) if assign[i] == part) + doc.tail
    files['main.xsd'] = _main_with_includes(doc, ''.join(include(loc[c], doc.xsp) for c in main_inc), ())
    return files


def mapping_for(directory):
    """published URL -> fixture file, for every file a mapped arrangement may refer to."""
    return {published(name): os.path.join(directory, name) for name in PART_NAMES[:2] + ('main.xsd',)}


def xml_attr(value):
    return value.replace('&', '&amp;').replace('<', '&lt;').replace('"', '&quot;')


def include(loc, xsp='xs:'):
    return '<%sinclude schemaLocation="%s"/>\n' % (xsp, xml_attr(loc))


def files_perm(doc, perm):
    return {'main.xsd': compose(doc, [doc.globals[i] for i in perm])}


def files_import_order(doc, order, perm):
    """Permutes the xs:import elements of the prolog among themselves (other prolog items keep their place)."""
    idx = [i for i, (t, _) in enumerate(doc.prolog) if t == 'import']
    pro = list(doc.prolog)
    for slot, src in zip(idx, order):
        pro[slot] = doc.prolog[idx[src]]
    return {'main.xsd': compose(doc, [doc.globals[i] for i in perm], prolog=pro)}


def files_split(doc, assign, k, directory, spellings=None, keep_in_main=(), diamond=None):
    """Main document including k part files; global i goes to part assign[i] (or stays in main).
    diamond=(a, b, spelling): part b additionally includes part a, written with that spelling."""
    spellings = spellings or ('rel',) * k
    files = {}
    pp = part_prolog(doc)
    for part in range(k):
        globs = [g for i, g in enumerate(doc.globals) if assign[i] == part and i not in keep_in_main]
        extra = ''
        if diamond and diamond[1] == part:
            extra = include(spell(diamond[2], PART_NAMES[diamond[0]], directory), doc.xsp)
        files[PART_NAMES[part]] = doc.head + ''.join(s for _, s in pp) + extra + ''.join(t for _, _, t in globs) + doc.tail
    incs = ''.join(include(spell(spellings[part], PART_NAMES[part], directory), doc.xsp) for part in range(k))
    files['main.xsd'] = _main_with_includes(doc, incs, keep_in_main)
    return files


def _main_with_includes(doc, incs, keep_in_main):
    pro = ''.join(s for _, s in doc.prolog)
    globs = ''.join(t for i, (_, _, t) in enumerate(doc.globals) if i in keep_in_main)
    # defaultOpenContent must follow every composition element: put the new includes first
    return doc.head + incs + pro + globs + doc.tail


# ------------------------------------------------------------------------------------------------
# probe instances: mutations of an XML instance (plain ElementTree, deterministic)
# ------------------------------------------------------------------------------------------------

def _first(root, pred):
    for e in root.iter():
        if pred(e):
            return e
    return None


def mutations(xml):
    """Returns [(label, xml text)]: single structural edits that usually make a valid instance invalid."""
    out = []

    decls = re.findall(r'xmlns:([A-Za-z_][\w.-]*)\s*=\s*["\']([^"\']*)["\']', xml)
    for prefix, uri in decls:
        if not re.match(r'ns\d+$|xml$', prefix):
            ET.register_namespace(prefix, uri)       # keep the prefixes of the instance

    def fresh():
        return ET.fromstring(xml)

    try:
        fresh()
    except ET.ParseError:
        return out

    def emit(label, root):
        text = ET.tostring(root, encoding='unicode')
        # ElementTree declares only the prefixes used in names: re-declare those used inside QName-valued content
        start = text[:text.index('>')]
        missing = ''.join(' xmlns:%s="%s"' % (p, u) for p, u in dict(decls).items()
                          if 'xmlns:%s=' % p not in start and u not in start)
        if missing:
            text = re.sub(r'^<([^\s>/]+)', lambda m: m.group(0) + missing, text, count=1)
        out.append((label, text))

    r = fresh()
    e = _first(r, lambda x: len(x) > 0)
    if e is not None:
        e.remove(e[-1])
        emit('del-last-child', r)
    r = fresh()
    r.set('c09bogus', '1')
    emit('bogus-attr', r)
    r = fresh()
    e = _first(r, lambda x: len(x) == 0)
    if e is not None:
        e.text = 'c09 !bad'
        emit('bad-leaf-text', r)
    r = fresh()
    r.append(ET.Element('c09bogus'))
    emit('bogus-child', r)
    r = fresh()
    if len(r):
        dup = copy.deepcopy(r[0])
        dup.tail = None
        r.insert(1, dup)
        emit('dup-first-child', r)
    r = fresh()
    if len(r) > 1 and r[0].tag != r[1].tag:
        a, b = r[0], r[1]
        r.remove(a)
        r.insert(1, a)
        emit('swap-children', r)
    r = fresh()
    if r.attrib:
        k = sorted(r.attrib)[0]
        del r.attrib[k]
        emit('del-attr', r)
    return out
