"""C11 generators: seed documents with schemas, a plain document model, the 40-entry fault
catalogue, every position of a document, truncation prefixes and byte substitutions.

Nothing here imports xmlschema or elementpath.  Documents are read into the model with the
stdlib expat binding (prefixes and xmlns attributes kept literally) and written back by a
serializer of our own, so a fault can also produce text that is not well-formed.
"""
import glob
import os
from xml.parsers import expat

XSI = 'http://www.w3.org/2001/XMLSchema-instance'
XS = 'http://www.w3.org/2001/XMLSchema'
HEAD = '<xs:schema xmlns:xs="%s"' % XS

# --- seeds ----------------------------------------------------------------------------------
# name -> (versions, schema text, document text).  Every document is valid for its schema.

SEEDS = {}


def _seed(name, versions, schema, doc):
    SEEDS[name] = (versions, schema, doc)


_seed('attrs', ('1.0', '1.1'), HEAD + '''>
<xs:element name="r"><xs:complexType><xs:sequence>
 <xs:element name="i" maxOccurs="unbounded"><xs:complexType>
  <xs:attribute name="n" type="xs:int" use="required"/><xs:attribute name="d" type="xs:decimal"/>
  <xs:attribute name="b" type="xs:boolean" default="true"/><xs:attribute name="f" type="xs:double"/>
  <xs:attribute name="u" type="xs:unsignedByte"/><xs:attribute name="x" type="xs:hexBinary" fixed="0A"/>
  <xs:attribute name="e"><xs:simpleType><xs:restriction base="xs:string"><xs:enumeration value="p"/>
   <xs:enumeration value="q"/></xs:restriction></xs:simpleType></xs:attribute>
  <xs:attribute name="m"><xs:simpleType><xs:restriction base="xs:integer"><xs:enumeration value="1"/>
   <xs:enumeration value="2"/></xs:restriction></xs:simpleType></xs:attribute>
 </xs:complexType></xs:element></xs:sequence>
 <xs:attribute name="l" type="xs:language"/><xs:attribute name="p" type="xs:positiveInteger"/>
</xs:complexType></xs:element></xs:schema>''',
      '<r l="en" p="7"><i n="1" d="1.50" b="false" f="1E3"/><i n="-2" u="255" x="0A" e="q" m="2"/></r>')

_seed('xsitype', ('1.0', '1.1'), HEAD + ''' xmlns:t="urn:t" targetNamespace="urn:t">
<xs:complexType name="B"><xs:sequence><xs:element name="v" type="xs:anySimpleType"/></xs:sequence></xs:complexType>
<xs:complexType name="D"><xs:complexContent><xs:extension base="t:B"><xs:sequence>
 <xs:element name="w" type="xs:integer"/></xs:sequence><xs:attribute name="k" type="xs:short"/>
</xs:extension></xs:complexContent></xs:complexType>
<xs:element name="r"><xs:complexType><xs:sequence><xs:element name="c" type="t:B" maxOccurs="unbounded"/>
</xs:sequence></xs:complexType></xs:element></xs:schema>''',
      '<t:r xmlns:t="urn:t" xmlns:xsi="%s" xmlns:xs="%s"><c><v>a</v></c>'
      '<c xsi:type="t:D" k="3"><v xsi:type="xs:float">1.5</v><w>12</w></c></t:r>' % (XSI, XS))

_seed('nil', ('1.0', '1.1'), HEAD + '''>
<xs:element name="r"><xs:complexType><xs:sequence>
 <xs:element name="a" type="xs:int" nillable="true" maxOccurs="unbounded"/>
 <xs:element name="b" nillable="true" minOccurs="0"><xs:complexType><xs:sequence>
  <xs:element name="c" type="xs:date"/></xs:sequence><xs:attribute name="t" type="xs:token"/></xs:complexType></xs:element>
 <xs:element name="f" type="xs:byte" fixed="5" minOccurs="0"/>
</xs:sequence></xs:complexType></xs:element></xs:schema>''',
      '<r xmlns:xsi="%s"><a>4</a><a xsi:nil="true"/><b xsi:nil="true" t="x y"/><f>5</f></r>' % XSI)

_seed('keys', ('1.0', '1.1'), HEAD + '''>
<xs:element name="r"><xs:complexType><xs:sequence>
 <xs:element name="p" maxOccurs="unbounded"><xs:complexType><xs:attribute name="id" type="xs:int" use="required"/>
  <xs:attribute name="x" type="xs:ID"/></xs:complexType></xs:element>
 <xs:element name="q" maxOccurs="unbounded"><xs:complexType><xs:attribute name="ref" type="xs:int"/>
  <xs:attribute name="y" type="xs:IDREF"/></xs:complexType></xs:element>
</xs:sequence></xs:complexType>
<xs:key name="k"><xs:selector xpath="p"/><xs:field xpath="@id"/></xs:key>
<xs:keyref name="kr" refer="k"><xs:selector xpath="q"/><xs:field xpath="@ref"/></xs:keyref>
<xs:unique name="u"><xs:selector xpath=".//q"/><xs:field xpath="@y"/></xs:unique>
</xs:element></xs:schema>''',
      '<r><p id="1" x="n1"/><p id="2"/><q ref="2" y="n1"/><q ref="1"/></r>')

_seed('wildcards', ('1.0', '1.1'), HEAD + ''' xmlns:t="urn:t" targetNamespace="urn:t" elementFormDefault="qualified">
<xs:element name="g" type="xs:gYear"/>
<xs:attribute name="ga" type="xs:nonNegativeInteger"/>
<xs:element name="r"><xs:complexType><xs:sequence>
 <xs:any namespace="##other" processContents="lax" minOccurs="0"/>
 <xs:any namespace="##targetNamespace" processContents="strict" minOccurs="0"/>
 <xs:any namespace="##local" processContents="skip" minOccurs="0" maxOccurs="2"/>
</xs:sequence><xs:anyAttribute namespace="##any" processContents="lax"/></xs:complexType></xs:element></xs:schema>''',
      '<t:r xmlns:t="urn:t" xmlns:o="urn:o" t:ga="3" o:z="1"><o:x a="1">text</o:x><t:g>1999</t:g>'
      '<s><s2 q="w"/></s></t:r>')

_seed('lists', ('1.0', '1.1'), HEAD + '''>
<xs:simpleType name="IL"><xs:list itemType="xs:int"/></xs:simpleType>
<xs:simpleType name="IL3"><xs:restriction base="IL"><xs:maxLength value="3"/></xs:restriction></xs:simpleType>
<xs:simpleType name="U"><xs:union memberTypes="xs:unsignedShort xs:date xs:boolean"/></xs:simpleType>
<xs:simpleType name="UL"><xs:list itemType="U"/></xs:simpleType>
<xs:element name="r"><xs:complexType><xs:sequence>
 <xs:element name="a" type="IL3"/><xs:element name="b" type="UL"/><xs:element name="c" type="xs:NMTOKENS"/>
 <xs:element name="d"><xs:simpleType><xs:list itemType="xs:float"/></xs:simpleType></xs:element>
 <xs:element name="e" type="xs:base64Binary"/>
</xs:sequence><xs:attribute name="l" type="IL"/><xs:attribute name="ids" type="xs:IDREFS"/><xs:attribute name="id" type="xs:ID"/>
</xs:complexType></xs:element></xs:schema>''',
      '<r l="1 2" id="k" ids="k k"><a>1 -2 3</a><b>7 2001-02-03 true</b><c>x y</c><d>1.5 INF -0</d><e>QUJD</e></r>')

_seed('dates', ('1.0', '1.1'), HEAD + '''>
<xs:element name="r"><xs:complexType><xs:sequence>
 <xs:element name="d" type="xs:date"/><xs:element name="dt" type="xs:dateTime"/><xs:element name="t" type="xs:time"/>
 <xs:element name="y" type="xs:gYear"/><xs:element name="ym" type="xs:gYearMonth"/><xs:element name="md" type="xs:gMonthDay"/>
 <xs:element name="m" type="xs:gMonth"/><xs:element name="dd" type="xs:gDay"/><xs:element name="du" type="xs:duration"/>
 <xs:element name="ry"><xs:simpleType><xs:restriction base="xs:gYear"><xs:minInclusive value="1900"/>
  <xs:maxInclusive value="2100"/></xs:restriction></xs:simpleType></xs:element>
</xs:sequence><xs:attribute name="s" type="xs:dateTime"/></xs:complexType></xs:element></xs:schema>''',
      '<r s="2001-01-01T00:00:00Z"><d>2000-02-29</d><dt>1999-12-31T23:59:59.5+01:00</dt><t>12:00:00</t><y>-0044</y>'
      '<ym>2001-10</ym><md>--02-29</md><m>--12</m><dd>---31</dd><du>P1Y2M3DT4H5M6.5S</du><ry>2000</ry></r>')

_seed('qnames', ('1.0', '1.1'), HEAD + ''' xmlns:t="urn:t" targetNamespace="urn:t">
<xs:notation name="png" public="image/png"/>
<xs:simpleType name="N"><xs:restriction base="xs:NOTATION"><xs:enumeration value="t:png"/></xs:restriction></xs:simpleType>
<xs:element name="r"><xs:complexType><xs:sequence>
 <xs:element name="q" type="xs:QName" maxOccurs="unbounded"/><xs:element name="u" type="xs:anyURI"/>
 <xs:element name="n" type="xs:NCName"/><xs:element name="nm" type="xs:Name"/>
 <xs:element name="ql"><xs:simpleType><xs:list itemType="xs:QName"/></xs:simpleType></xs:element>
</xs:sequence><xs:attribute name="qa" type="xs:QName"/><xs:attribute name="no" type="t:N"/></xs:complexType></xs:element>
</xs:schema>''',
      '<t:r xmlns:t="urn:t" xmlns:d="urn:d" qa="d:x" no="t:png"><q>t:a</q><q xmlns:z="urn:z">z:b</q><u>http://e/x?y#z</u>'
      '<n>nc</n><nm>a:b</nm><ql>t:a b</ql></t:r>')

_seed('mixed', ('1.0', '1.1'), HEAD + '''>
<xs:element name="r"><xs:complexType mixed="true"><xs:choice minOccurs="0" maxOccurs="unbounded">
 <xs:element name="b" type="xs:string"/><xs:element name="i"><xs:complexType mixed="true"><xs:sequence>
  <xs:element name="n" type="xs:integer" minOccurs="0"/></xs:sequence></xs:complexType></xs:element>
 <xs:element name="e"><xs:complexType/></xs:element>
</xs:choice><xs:attribute name="w" type="xs:normalizedString"/></xs:complexType></xs:element></xs:schema>''',
      '<r w=" a  b ">one <b>two</b> three<i>four<n>5</n>six</i><e/><!--c--><?p d?> &amp;&lt;&#x20AC;</r>')

_seed('namespaces', ('1.0', '1.1'), HEAD + ''' xmlns:t="urn:t" targetNamespace="urn:t" elementFormDefault="qualified">
<xs:element name="r"><xs:complexType><xs:sequence>
 <xs:element name="a" type="xs:int"/><xs:element name="b" form="unqualified" type="xs:token"/>
 <xs:element ref="t:g" minOccurs="0" maxOccurs="unbounded"/>
</xs:sequence><xs:attribute name="u" type="xs:int"/><xs:attribute name="q" form="qualified" type="xs:int"/>
</xs:complexType></xs:element>
<xs:element name="g"><xs:complexType><xs:simpleContent><xs:extension base="xs:decimal">
 <xs:attribute name="c" type="xs:NCName"/></xs:extension></xs:simpleContent></xs:complexType></xs:element></xs:schema>''',
      '<?xml version="1.0" encoding="UTF-8"?>\n<r xmlns="urn:t" xmlns:p="urn:t" u="1" p:q="2"><p:a>1</p:a><b xmlns="">x</b>'
      '<g c="k">1.0</g><q:g xmlns:q="urn:t" xmlns:p="urn:other">2</q:g></r>')

_seed('assert11', ('1.1',), HEAD + '''>
<xs:simpleType name="E"><xs:restriction base="xs:integer"><xs:assertion test="$value mod 2 = 0"/></xs:restriction></xs:simpleType>
<xs:element name="r"><xs:complexType><xs:sequence>
 <xs:element name="lo" type="xs:decimal"/><xs:element name="hi" type="xs:decimal"/><xs:element name="ev" type="E"/>
 <xs:element name="w" type="xs:date" minOccurs="0"/>
</xs:sequence><xs:attribute name="n" type="xs:int"/>
<xs:assert test="lo le hi"/><xs:assert test="not(@n) or @n = count(*)"/><xs:assert test="not(w) or year-from-date(w) gt 1999"/>
</xs:complexType></xs:element></xs:schema>''',
      '<r n="4"><lo>1.5</lo><hi>2</hi><ev>10</ev><w>2001-01-01</w></r>')

_seed('alt11', ('1.1',), HEAD + '''>
<xs:complexType name="B"><xs:simpleContent><xs:extension base="xs:string"><xs:attribute name="k" type="xs:string"/>
 <xs:attribute name="n" type="xs:int"/></xs:extension></xs:simpleContent></xs:complexType>
<xs:complexType name="I"><xs:simpleContent><xs:restriction base="B"><xs:pattern value="[0-9]+"/></xs:restriction>
 </xs:simpleContent></xs:complexType>
<xs:complexType name="D"><xs:simpleContent><xs:restriction base="B"><xs:pattern value="\\d{4}-\\d\\d-\\d\\d"/></xs:restriction>
 </xs:simpleContent></xs:complexType>
<xs:element name="r"><xs:complexType><xs:sequence><xs:element name="v" type="B" maxOccurs="unbounded">
 <xs:alternative test="@k = 'i'" type="I"/><xs:alternative test="@k = 'd' and @n gt 0" type="D"/>
 <xs:alternative test="@k = 'x'" type="xs:error"/></xs:element>
</xs:sequence></xs:complexType></xs:element></xs:schema>''',
      '<r><v k="i">12</v><v k="d" n="1">2001-02-03</v><v>free</v><v k="o" n="0">t</v></r>')

_seed('fixed', ('1.0', '1.1'), HEAD + '''>
<xs:element name="r"><xs:complexType><xs:sequence>
 <xs:element name="fd" type="xs:date" fixed="2000-01-01"/><xs:element name="fym" type="xs:gYearMonth" fixed="2000-01" minOccurs="0"/>
 <xs:element name="fdu" type="xs:duration" fixed="P1D"/><xs:element name="dd" type="xs:dateTime" default="2000-01-01T00:00:00" minOccurs="0"/>
</xs:sequence><xs:attribute name="fy" type="xs:gYear" fixed="1999"/><xs:attribute name="fdt" type="xs:dateTime" fixed="2000-01-01T00:00:00Z"/>
<xs:attribute name="fp" type="xs:duration" fixed="P1Y"/></xs:complexType></xs:element></xs:schema>''',
      '<r fy="1999" fdt="2000-01-01T00:00:00Z" fp="P1Y"><fd>2000-01-01</fd><fym>2000-01</fym><fdu>P1D</fdu><dd/></r>')

SEED_ORDER = ['attrs', 'xsitype', 'nil', 'keys', 'wildcards', 'lists', 'dates', 'qnames', 'mixed', 'namespaces',
              'assert11', 'alt11', 'fixed']
assert sorted(SEED_ORDER) == sorted(SEEDS) and len(SEED_ORDER) == 13

# --- wildcard matrix ---------------------------------------------------------------------------------------
# Content models with an ELEMENT wildcard whose namespace SET is empty (notNamespace with one / two values in
# XSD 1.1, namespace="" in both versions) x processContents x required/optional x before/after an element
# particle.  Each case has two instances: one with a child the wildcard admits (or none, for namespace=""), one with
# a child of an excluded namespace.  The fault catalogue turns them into missing / unexpected / misplaced children,
# so every children-validation error that has such a wildcard among the expected particles gets built.

WILD_NS = {'not1': ('notNamespace="urn:x"', ('1.1',)),
           'not2': ('notNamespace="urn:x urn:y"', ('1.1',)),
           'empty': ('namespace=""', ('1.0', '1.1'))}
WILD_CASES = {}
for _ns, (_attr, _vers) in WILD_NS.items():
    for _pc in ('strict', 'lax', 'skip'):
        for _occ in ('req', 'opt'):
            for _pos in ('before', 'after'):
                _any = '<xs:any %s processContents="%s"%s/>' % (_attr, _pc, ' minOccurs="0"' if _occ == 'opt' else '')
                _el = '<xs:element name="e" type="xs:int"/>'
                _xsd = (HEAD + '><xs:element name="w" type="xs:string"/><xs:element name="r"><xs:complexType><xs:sequence>'
                        + (_any + _el if _pos == 'before' else _el + _any)
                        + '<xs:element name="t" type="xs:token" minOccurs="0"/></xs:sequence></xs:complexType>'
                          '</xs:element></xs:schema>')
                for _doc, _w in (('ok', '' if _ns == 'empty' else '<w>v</w>'), ('excluded', '<x:w xmlns:x="urn:x">v</x:w>')):
                    _body = (_w + '<e>1</e>') if _pos == 'before' else ('<e>1</e>' + _w)
                    WILD_CASES['%s-%s-%s-%s:%s' % (_ns, _pc, _occ, _pos, _doc)] = (_vers, _xsd, '<r>%s<t>z</t></r>' % _body)
WILD_ORDER = sorted(WILD_CASES)

# --- corpus -----------------------------------------------------------------------------------

CORPUS_MAX = 2048


def corpus_files(repo):
    """XML instance files <= 2 kB of the repository test cases, sorted, relative to test_cases."""
    base = os.path.join(repo, 'tests', 'test_cases')
    out = []
    for path in glob.glob(os.path.join(base, '**', '*.xml'), recursive=True):
        if os.path.isfile(path) and os.path.getsize(path) <= CORPUS_MAX:
            out.append(os.path.relpath(path, base))
    return sorted(out)


# --- document model --------------------------------------------------------------------------
# element: ['e', name, attrs, children]   attrs: list of [name, value]   (name literally as written)
# text: ['t', string]  comment: ['c', string]  pi: ['p', target, data]
# A value may carry the marker RAW (tuple ('raw', text)): written without escaping.


class Unsupported(Exception):
    pass


def parse_model(data):
    """bytes -> (root element, has_prolog_misc).  Raises Unsupported for DTDs, expat.ExpatError if not well-formed."""
    p = expat.ParserCreate()
    p.ordered_attributes = True
    p.buffer_text = True
    stack = [['e', '#doc', [], []]]

    def start(name, attrs):
        node = ['e', name, [[attrs[i], attrs[i + 1]] for i in range(0, len(attrs), 2)], []]
        stack[-1][3].append(node)
        stack.append(node)

    def end(name):
        stack.pop()

    def chars(s):
        if len(stack) > 1:
            ch = stack[-1][3]
            if ch and ch[-1][0] == 't':
                ch[-1][1] += s
            else:
                ch.append(['t', s])

    def comment(s):
        if len(stack) > 1:
            stack[-1][3].append(['c', s])

    def pi(target, d):
        if len(stack) > 1:
            stack[-1][3].append(['p', target, d])

    def doctype(*a):
        raise Unsupported('DOCTYPE')

    p.StartElementHandler = start
    p.EndElementHandler = end
    p.CharacterDataHandler = chars
    p.CommentHandler = comment
    p.ProcessingInstructionHandler = pi
    p.StartDoctypeDeclHandler = doctype
    p.Parse(data, True)
    roots = [n for n in stack[0][3] if n[0] == 'e']
    return roots[0]


def well_formed(data):
    """The reference for 'this byte string is a namespace-well-formed XML document' (stdlib expat, namespaces on)."""
    p = expat.ParserCreate(namespace_separator=' ')
    try:
        p.Parse(data, True)
    except expat.ExpatError:
        return False
    except (ValueError, LookupError):           # multi-byte encodings are not supported / unknown encoding
        return False
    return True


def esc_text(s):
    if isinstance(s, tuple):
        return s[1]
    return s.replace('&', '&amp;').replace('<', '&lt;').replace('>', '&gt;').replace('\r', '&#13;')


def esc_attr(s):
    if isinstance(s, tuple):
        return s[1]
    return (s.replace('&', '&amp;').replace('<', '&lt;').replace('"', '&quot;').replace('\t', '&#9;')
            .replace('\n', '&#10;').replace('\r', '&#13;'))


def serialize(node, out=None):
    top = out is None
    if top:
        out = []
    k = node[0]
    if k == 'e':
        out.append('<' + node[1])
        for name, value in node[2]:
            out.append(' %s="%s"' % (name, esc_attr(value)))
        if node[3]:
            out.append('>')
            for ch in node[3]:
                serialize(ch, out)
            out.append('</%s>' % node[1])
        else:
            out.append('/>')
    elif k == 't':
        out.append(esc_text(node[1]))
    elif k == 'c':
        out.append('<!--%s-->' % node[1])
    elif k == 'p':
        out.append('<?%s %s?>' % (node[1], node[2]))
    if top:
        return ''.join(out)


def clone(node):
    if node[0] == 'e':
        return ['e', node[1], [list(a) for a in node[2]], [clone(c) for c in node[3]]]
    return list(node)


def elements(root):
    """Pre-order list of (path, element); path is a tuple of child indexes among ALL children."""
    out = []

    def walk(node, path):
        out.append((path, node))
        for i, ch in enumerate(node[3]):
            if ch[0] == 'e':
                walk(ch, path + (i,))
    walk(root, ())
    return out


def get(root, path):
    node = root
    for i in path:
        node = node[3][i]
    return node


def show_path(root, path):
    node, parts = root, [root[1]]
    for i in path:
        node = node[3][i]
        parts.append('%s[%d]' % (node[1], i))
    return '/' + '/'.join(parts)


# --- positions --------------------------------------------------------------------------------
# ('E', path)            an element
# ('A', path, k)         the k-th attribute of the element (xmlns declarations excluded)
# ('T', path, i)         a text position: i = index of an existing non-blank text child, or -1 for the
#                        content of an element that has no child at all / only text (value of a leaf)

def is_xmlns(name):
    return name == 'xmlns' or name.startswith('xmlns:')


def positions(root):
    pos = []
    for path, el in elements(root):
        pos.append(('E', path))
        for k, (name, _v) in enumerate(el[2]):
            if not is_xmlns(name):
                pos.append(('A', path, k))
        kids = el[3]
        if not any(c[0] == 'e' for c in kids):
            pos.append(('T', path, -1))
        else:
            for i, c in enumerate(kids):
                if c[0] == 't' and c[1].strip():
                    pos.append(('T', path, i))
    return pos


def show_pos(root, pos):
    p = show_path(root, pos[1])
    if pos[0] == 'E':
        return p
    if pos[0] == 'A':
        return '%s/@%s' % (p, get(root, pos[1])[2][pos[2]][0])
    return '%s/text(%d)' % (p, pos[2])


# --- the fault catalogue: the 40 entries of the design + 6 location hints with 1, 2, 3 items ----------

BIG = 100000
VALUE_FAULTS = [
    ('huge-int', '9' * 400),
    ('huge-neg-decimal', '-' + '9' * 400 + '.' + '9' * 40),
    ('year20', '99999999999999999999'),
    ('date-year20', '99999999999999999999-01-01'),
    ('datetime-neg-year20', '-99999999999999999999-12-31T23:59:59Z'),
    ('duration-huge', 'P99999999999999999999Y99999999999999999999M'),
    ('exp-huge', '1e999999'),
    ('exp-tiny', '-1E-999999'),
    ('empty', ''),
    ('spaces', '   '),
    ('ws-controls', 'a\tb\nc\rd'),
    ('ctrl-raw', ('raw', 'a\x01b')),
    ('ctrl-charref', ('raw', 'a&#1;b')),
    ('long-text', 'a' * BIG),
    ('long-digits', '7' * BIG),
    ('wide-digits', '１２\U0001d7d1 \U0001f600'),
    ('year-zero', '0000-01-01'),
]
QNAME_FAULTS = [
    ('qn-lead-colon', ':a'),
    ('qn-trail-colon', 'a:'),
    ('qn-three', 'a:b:c'),
    ('qn-unbound', 'zz:a'),
    ('qn-braces', '{urn:x}a'),
]
XSI_FAULTS = [          # name -> attributes added to an element (xmlns:xsi is added with them)
    ('xsi-type-unbound', [['xsi:type', 'no:such']]),
    ('xsi-type-three', [['xsi:type', 'a:b:c']]),
    ('xsi-type-empty', [['xsi:type', '']]),
    ('xsi-type-int', [['xmlns:c11xs', XS], ['xsi:type', 'c11xs:int']]),
    ('xsi-nil-junk', [['xsi:nil', 'maybe']]),
    ('xsi-nil-true', [['xsi:nil', 'true']]),
    ('xsi-unknown', [['xsi:foo', 'bar']]),
    ('xsi-schemaLocation-odd', [['xsi:schemaLocation', 'urn:a  \t urn:b /nonexistent/c11/x.xsd']]),
    ('xsi-noNamespaceSchemaLocation-junk', [['xsi:noNamespaceSchemaLocation', '%%%:// [bad \x7f']]),
    # syntactically plausible hints with 1, 2, 3 items; the locations are relative names that do not exist
    ('xsi-schemaLocation-1', [['xsi:schemaLocation', 'urn:x']]),
    ('xsi-schemaLocation-2', [['xsi:schemaLocation', 'urn:x nowhere.xsd']]),
    ('xsi-schemaLocation-3', [['xsi:schemaLocation', 'urn:x nowhere.xsd urn:y']]),
    ('xsi-noNamespaceSchemaLocation-1', [['xsi:noNamespaceSchemaLocation', 'nowhere.xsd']]),
    ('xsi-noNamespaceSchemaLocation-2', [['xsi:noNamespaceSchemaLocation', 'nowhere.xsd nowhere2.xsd']]),
    ('xsi-noNamespaceSchemaLocation-3', [['xsi:noNamespaceSchemaLocation', 'nowhere.xsd nowhere2.xsd nowhere3.xsd']]),
]
NS_FAULTS = ['ns-elem-unknown', 'ns-attr-unknown', 'ns-elem-unbound', 'ns-default-redeclared']
STRUCT_FAULTS = ['dup-child', 'drop-child', 'insert-comment', 'insert-pi', 'insert-text']

CATALOGUE = ([f[0] for f in VALUE_FAULTS] + [f[0] for f in QNAME_FAULTS] + [f[0] for f in XSI_FAULTS]
             + NS_FAULTS + STRUCT_FAULTS)
assert len(CATALOGUE) == 46 and len(set(CATALOGUE)) == 46
_VAL = dict(VALUE_FAULTS + QNAME_FAULTS)
_XSI = dict(XSI_FAULTS)
HEAVY = {'long-text', 'long-digits'}       # 10^5-character values


def applicable(fault, pos, root):
    """Does the catalogue entry apply at this position of this (unfaulted) document?"""
    kind = pos[0]
    if fault in _VAL:
        return kind in ('A', 'T')
    if fault in ('dup-child', 'drop-child'):
        return kind == 'E' and (fault == 'dup-child' or len(pos[1]) > 0)
    return kind == 'E'


def single_faults(root):
    """Every (fault, position) of the document, in catalogue order then document order."""
    pos = positions(root)
    return [(f, p) for f in CATALOGUE for p in pos if applicable(f, p, root)]


def _local(name):
    return name.split(':', 1)[1] if ':' in name else name


def apply_fault(root, fault, pos):
    """Mutates `root` (a clone).  Element identity is by path in the ORIGINAL tree, so when two faults are
    applied the structural one must come last (apply_faults orders them).  Returns False if the position is gone."""
    el = get(root, pos[1])
    if fault in _VAL:
        v = _VAL[fault]
        if pos[0] == 'A':
            el[2][pos[2]][1] = v
        elif pos[2] == -1:
            el[3][:] = [['t', v]]
        else:
            el[3][pos[2]] = ['t', v]
        return True
    if fault in _XSI:
        names = {a[0] for a in _XSI[fault]} | {'xmlns:xsi'}
        el[2][:] = [a for a in el[2] if a[0] not in names]
        el[2].append(['xmlns:xsi', XSI])
        el[2].extend(list(a) for a in _XSI[fault])
        return True
    if fault == 'ns-elem-unknown':
        el[1] = 'c11u:' + _local(el[1])
        el[2].append(['xmlns:c11u', 'urn:c11:unknown'])
    elif fault == 'ns-attr-unknown':
        el[2].append(['xmlns:c11u', 'urn:c11:unknown'])
        el[2].append(['c11u:extra', '1'])
    elif fault == 'ns-elem-unbound':
        el[1] = 'c11zz:' + _local(el[1])
    elif fault == 'ns-default-redeclared':
        el[2][:] = [a for a in el[2] if a[0] != 'xmlns']
        el[2].append(['xmlns', 'urn:c11:unknown'])
    elif fault == 'insert-comment':
        el[3].insert(0, ['c', ' c11 '])
    elif fault == 'insert-pi':
        el[3].insert(0, ['p', 'c11', 'x="1"'])
    elif fault == 'insert-text':
        el[3].insert(0, ['t', 'c11 junk'])
    elif fault in ('dup-child', 'drop-child'):
        if not pos[1]:
            return 'dup-root'
        parent = get(root, pos[1][:-1])
        if fault == 'dup-child':
            parent[3].insert(pos[1][-1] + 1, clone(el))
        else:
            del parent[3][pos[1][-1]]
    else:
        raise ValueError(fault)
    return True


def _group(fault):
    if fault in _VAL:
        return 'value'
    if fault in _XSI:
        return 'xsi'
    if fault in NS_FAULTS:
        return 'ns'
    return 'struct'


def compatible(fp1, fp2):
    """Two (fault, position) items can be combined when they do not overwrite or destroy each other:
    different positions (or different kinds of change on one element), and no position inside a dropped subtree."""
    (f1, p1), (f2, p2) = fp1, fp2
    if p1 == p2 and (p1[0] != 'E' or _group(f1) == _group(f2)):
        return False
    for (fa, pa), (fb, pb) in ((fp1, fp2), (fp2, fp1)):
        if fa == 'drop-child' and pb[1][:len(pa[1])] == pa[1]:
            return False
    return True


def apply_faults(root, items):
    """Applies one or two (fault, position) items to a clone of root and returns the serialised text.
    Positions are paths in the ORIGINAL tree: value changes go first (attribute indexes still valid), then
    attribute/name changes, then the index-shifting ones from the last path in document order to the first."""
    doc = clone(root)
    phase = {'value': 0, 'xsi': 1, 'ns': 1, 'struct': 2}
    first = [fp for fp in items if phase[_group(fp[0])] == 0]
    second = [fp for fp in items if phase[_group(fp[0])] == 1]
    third = sorted((fp for fp in items if phase[_group(fp[0])] == 2), key=lambda fp: fp[1][1], reverse=True)
    dup_root = False
    for f, p in first + second + third:
        if apply_fault(doc, f, p) == 'dup-root':
            dup_root = True
    text = serialize(doc)
    if dup_root:
        text = text + serialize(clone(root))
    return text


# --- byte level -----------------------------------------------------------------------------------

SUBST_BYTES = (0x3C, 0x26, 0x22, 0x00, 0xFF, 0x3E)        # <  &  "  NUL  0xFF  >


def truncations(data):
    """Every proper prefix (including the empty one)."""
    return [data[:n] for n in range(len(data))]


def substitutions(data):
    for off in range(len(data)):
        for b in SUBST_BYTES:
            if data[off] != b:
                yield off, b, data[:off] + bytes([b]) + data[off + 1:]
