"""C04 generators: a fixed set of small schemas, each with the minimal valid and the minimal invalid document of
every fault class of the sibling properties (content model, simple types, attributes, xsi:type / nil /
substitution / abstract / block, identity constraints, ID/IDREF, XSD 1.1 assertions), plus the documents with
exactly k errors.  The verdict of every document is fixed here, by construction, without looking at the library.

A catalogue entry is a dict
    {'schema': name, 'versions': ('1.0', '1.1'), 'xsd': text, 'docs': [Doc, ...]}
and a Doc is a tuple (label, fault_class, xml_text, valid, prefix_dependent).  `prefix_dependent` marks documents
whose verdict depends on a prefix binding that only an XML parser keeps (prefixed QName values, prefixed
xsi:type); the property statement excludes ElementTree sources for those.
"""
XS = 'http://www.w3.org/2001/XMLSchema'
XSI = 'http://www.w3.org/2001/XMLSchema-instance'
T = 'urn:c04:t'
O = 'urn:c04:o'
N = 'urn:c04:n'
XSI_DECL = 'xmlns:xsi="%s"' % XSI
K_VALUES = (0, 1, 2, 255, 256, 257, 511, 512)


def head(target=None, qualified=False, extra=''):
    out = '<xs:schema xmlns:xs="%s"' % XS
    if target:
        out += ' targetNamespace="%s" xmlns:t="%s"' % (target, target)
    if qualified:
        out += ' elementFormDefault="qualified"'
    return out + extra + '>\n'


TAIL = '</xs:schema>\n'


def V(label, cls, xml, pfx=False):
    return (label, cls, xml, True, pfx)


def I(label, cls, xml, pfx=False):              # noqa: E743
    return (label, cls, xml, False, pfx)


def C(label, cls, xml, pfx=False):
    """Contested verdict (None): only the agreement of the entry points with schema.is_valid() is judged."""
    return (label, cls, xml, None, pfx)


# --- content models -------------------------------------------------------------------------

def s_seq():
    xsd = head() + '''<xs:element name="r"><xs:complexType><xs:sequence>
 <xs:element name="a" type="xs:int"/>
 <xs:element name="b" type="xs:string" minOccurs="0"/>
 <xs:element name="c" type="xs:int" maxOccurs="2"/>
</xs:sequence></xs:complexType></xs:element>
''' + TAIL
    docs = [
        V('ok-min', 'content', '<r><a>1</a><c>2</c></r>'),
        V('ok-full', 'content', '<r><a>1</a><b>x</b><c>2</c><c>3</c></r>'),
        V('ok-spaces', 'content', '<r>\n <a> 1 </a>\n <c>2</c>\n</r>'),
        I('missing-child', 'content', '<r><c>2</c></r>'),
        I('extra-child', 'content', '<r><a>1</a><c>2</c><z/></r>'),
        I('misordered', 'content', '<r><b>x</b><a>1</a><c>2</c></r>'),
        I('over-occurrence', 'content', '<r><a>1</a><c>2</c><c>3</c><c>4</c></r>'),
        I('under-occurrence', 'content', '<r><a>1</a></r>'),
        I('empty', 'content', '<r/>'),
        I('text-in-element-only', 'content', '<r>t<a>1</a><c>2</c></r>'),
        I('two-errors', 'content', '<r><a>x</a><c>2</c><z/></r>'),
        I('three-errors', 'content', '<r><a>x</a><c>y</c><c>3</c><c>w</c></r>'),
        I('undeclared-root', 'undeclared-root', '<q/>'),
        I('undeclared-root-with-content', 'undeclared-root', '<q><a>1</a></q>'),
    ]
    return xsd, docs


def s_choice_wild():
    xsd = head(T, True) + '''<xs:element name="r"><xs:complexType><xs:sequence>
 <xs:choice><xs:element name="a" type="xs:int"/><xs:element name="b" type="xs:date"/></xs:choice>
 <xs:any namespace="##other" processContents="lax" minOccurs="0" maxOccurs="2"/>
</xs:sequence></xs:complexType></xs:element>
<xs:element name="g" type="xs:int"/>
''' + TAIL
    p = 'xmlns:t="%s" xmlns:o="%s"' % (T, O)
    docs = [
        V('ok-a', 'content', '<t:r %s><t:a>1</t:a></t:r>' % p),
        V('ok-b-wild', 'wildcard', '<r xmlns="%s"><b>2020-01-01</b><o:x xmlns:o="%s">free <o:y/></o:x></r>' % (T, O)),
        V('ok-wild-two', 'wildcard', '<t:r %s><t:a>1</t:a><o:x/><o:y k="1"/></t:r>' % p),
        I('both-branches', 'content', '<t:r %s><t:a>1</t:a><t:b>2020-01-01</t:b></t:r>' % p),
        I('no-branch', 'content', '<t:r %s/>' % p),
        I('wildcard-refused-target', 'wildcard', '<t:r %s><t:a>1</t:a><t:g>1</t:g></t:r>' % p),
        I('wildcard-refused-local', 'wildcard', '<t:r %s><t:a>1</t:a><x/></t:r>' % p),
        I('wildcard-over', 'wildcard', '<t:r %s><t:a>1</t:a><o:x/><o:x/><o:x/></t:r>' % p),
        I('unqualified-child', 'content', '<t:r %s><a>1</a></t:r>' % p),
        I('unqualified-root', 'undeclared-root', '<r><a>1</a></r>'),
        V('global-leaf', 'simple', '<t:g %s>5</t:g>' % p),
        I('global-leaf-bad', 'simple', '<g xmlns="%s">five</g>' % T),
    ]
    return xsd, docs


def s_all():
    xsd = head() + '''<xs:element name="r"><xs:complexType><xs:all>
 <xs:element name="a" type="xs:int"/>
 <xs:element name="b" type="xs:int"/>
 <xs:element name="c" type="xs:int" minOccurs="0"/>
</xs:all></xs:complexType></xs:element>
''' + TAIL
    docs = [
        V('ok-ba', 'content', '<r><b>1</b><a>2</a></r>'),
        V('ok-cab', 'content', '<r><c>0</c><a>1</a><b>2</b></r>'),
        I('all-missing', 'content', '<r><a>1</a><c>2</c></r>'),
        I('all-duplicate', 'content', '<r><a>1</a><b>2</b><a>3</a></r>'),
        I('all-unknown', 'content', '<r><a>1</a><z/><b>2</b></r>'),
        I('all-empty', 'content', '<r/>'),
    ]
    return xsd, docs


def s_nested():
    xsd = head(N, True, ' xmlns:n="%s"' % N) + '''<xs:element name="r"><xs:complexType><xs:sequence>
 <xs:element name="g" maxOccurs="2"><xs:complexType><xs:sequence>
  <xs:element name="h"><xs:complexType><xs:sequence>
   <xs:element name="leaf" type="xs:int" maxOccurs="2"/>
  </xs:sequence><xs:attribute name="w" type="xs:int"/></xs:complexType></xs:element>
 </xs:sequence></xs:complexType></xs:element>
</xs:sequence></xs:complexType></xs:element>
''' + TAIL
    d = 'xmlns="%s"' % N
    p = 'xmlns:n="%s"' % N
    docs = [
        V('ok-default-ns', 'content', '<r %s><g><h><leaf>1</leaf></h></g></r>' % d),
        V('ok-prefixed', 'content', '<n:r %s><n:g><n:h w="1"><n:leaf>1</n:leaf><n:leaf>2</n:leaf></n:h></n:g>'
                                    '<n:g><n:h><n:leaf>3</n:leaf></n:h></n:g></n:r>' % p),
        V('ok-redeclared', 'content', '<r %s><g><x:h xmlns:x="%s"><x:leaf>1</x:leaf></x:h></g></r>' % (d, N)),
        I('deep-bad-value', 'simple', '<r %s><g><h><leaf>1</leaf><leaf>x</leaf></h></g></r>' % d),
        I('deep-bad-attr', 'attribute', '<n:r %s><n:g><n:h w="w"><n:leaf>1</n:leaf></n:h></n:g></n:r>' % p),
        I('second-branch-missing', 'content', '<r %s><g><h><leaf>1</leaf></h></g><g/></r>' % d),
        I('two-branches-two-errors', 'content', '<r %s><g><h><leaf>x</leaf></h></g><g><h/></g></r>' % d),
        I('deep-over', 'content', '<r %s><g><h><leaf>1</leaf><leaf>2</leaf><leaf>3</leaf></h></g></r>' % d),
        I('child-in-no-namespace', 'content', '<n:r %s><g><h><leaf>1</leaf></h></g></n:r>' % p),
        I('third-branch', 'content', '<r %s><g><h><leaf>1</leaf></h></g><g><h><leaf>1</leaf></h></g>'
                                     '<g><h><leaf>1</leaf></h></g></r>' % d),
    ]
    return xsd, docs


def s_content():
    xsd = head() + '''<xs:element name="r"><xs:complexType><xs:sequence>
<xs:element name="p" minOccurs="0"><xs:complexType><xs:simpleContent><xs:extension base="xs:decimal">
 <xs:attribute name="cur" type="xs:string" use="required"/></xs:extension></xs:simpleContent></xs:complexType></xs:element>
<xs:element name="mx" minOccurs="0"><xs:complexType mixed="true"><xs:sequence>
 <xs:element name="b" type="xs:string" minOccurs="0" maxOccurs="unbounded"/></xs:sequence></xs:complexType></xs:element>
<xs:element name="em" minOccurs="0"><xs:complexType/></xs:element>
<xs:element name="an" minOccurs="0"/>
</xs:sequence></xs:complexType></xs:element>
<xs:element name="mf" fixed="abc"><xs:complexType mixed="true"><xs:sequence>
 <xs:element name="b" type="xs:string" minOccurs="0"/></xs:sequence></xs:complexType></xs:element>
''' + TAIL
    docs = [
        V('ok-mixed-fixed', 'fixed', '<mf>abc</mf>'),
        V('ok-mixed-fixed-empty', 'fixed', '<mf/>'),
        I('mixed-fixed-wrong', 'fixed', '<mf>abd</mf>'),
        I('mixed-fixed-child', 'fixed', '<mf><b>x</b></mf>'),
        # white space only: the character children are not the fixed value (cvc-elt 5.2.2.2.1) but the library
        # strips the text of mixed content everywhere, so only the agreement of the entry points is judged
        C('mixed-fixed-whitespace', 'fixed', '<mf>   </mf>'),
        V('ok-simple-content', 'simple', '<r><p cur="EUR">9.50</p></r>'),
        I('simple-content-bad-value', 'simple', '<r><p cur="EUR">nine</p></r>'),
        I('simple-content-child', 'content', '<r><p cur="EUR"><z/></p></r>'),
        I('simple-content-missing-attr', 'attribute', '<r><p>9.50</p></r>'),
        I('simple-content-empty', 'simple', '<r><p cur="EUR"/></r>'),
        V('ok-mixed', 'content', '<r><mx>t<b>x</b>u<b/>v</mx></r>'),
        V('ok-mixed-empty', 'content', '<r><mx/></r>'),
        I('mixed-bad-child', 'content', '<r><mx>t<z/></mx></r>'),
        V('ok-empty', 'content', '<r><em/></r>'),
        V('ok-empty-comment', 'content', '<r><em><!--c--></em></r>'),
        I('empty-with-text', 'content', '<r><em>t</em></r>'),
        I('empty-with-child', 'content', '<r><em><z/></em></r>'),
        V('ok-anytype', 'content', '<r><an k="1">t<z><y/></z></an></r>'),
        V('ok-nothing', 'content', '<r/>'),
        # the text equals the fixed value but is padded with white space (pretty-printed documents): every entry
        # point compares the stripped text of mixed content
        V('ok-mixed-fixed-padded', 'fixed', '<mf>  abc  </mf>'),
        V('ok-mixed-fixed-pretty', 'fixed', '<mf>\n    abc\n</mf>\n'),
        I('mixed-fixed-wrong-pretty', 'fixed', '<mf>\n    abd\n</mf>\n'),
    ]
    return xsd, docs


# --- simple types ---------------------------------------------------------------------------

def s_simple():
    xsd = head() + '''<xs:simpleType name="dec"><xs:restriction base="xs:decimal"><xs:minInclusive value="0"/>
 <xs:maxInclusive value="100"/><xs:fractionDigits value="2"/></xs:restriction></xs:simpleType>
<xs:simpleType name="s3"><xs:restriction base="xs:string"><xs:length value="3"/></xs:restriction></xs:simpleType>
<xs:simpleType name="pc"><xs:restriction base="xs:token"><xs:pattern value="[A-Z]{2}[0-9]"/></xs:restriction></xs:simpleType>
<xs:simpleType name="col"><xs:restriction base="xs:token"><xs:enumeration value="red"/><xs:enumeration value="blue"/>
 </xs:restriction></xs:simpleType>
<xs:simpleType name="il"><xs:list itemType="xs:int"/></xs:simpleType>
<xs:simpleType name="il3"><xs:restriction base="il"><xs:maxLength value="3"/></xs:restriction></xs:simpleType>
<xs:simpleType name="sz"><xs:restriction base="xs:token"><xs:enumeration value="small"/><xs:enumeration value="large"/>
 </xs:restriction></xs:simpleType>
<xs:simpleType name="un"><xs:union memberTypes="xs:int sz"/></xs:simpleType>
<xs:simpleType name="ul"><xs:list itemType="un"/></xs:simpleType>
<xs:element name="r"><xs:complexType><xs:choice minOccurs="0" maxOccurs="unbounded">
 <xs:element name="i" type="xs:int"/>
 <xs:element name="dt" type="xs:date"/>
 <xs:element name="dec" type="dec"/>
 <xs:element name="s" type="s3"/>
 <xs:element name="p" type="pc"/>
 <xs:element name="e" type="col"/>
 <xs:element name="l" type="il3"/>
 <xs:element name="u" type="un"/>
 <xs:element name="ul" type="ul"/>
 <xs:element name="bo" type="xs:boolean"/>
 <xs:element name="hx" type="xs:hexBinary"/>
 <xs:element name="du" type="xs:duration"/>
 <xs:element name="fl" type="xs:double"/>
 <xs:element name="tk" type="xs:token"/>
 <xs:element name="nc" type="xs:NCName"/>
 <xs:element name="st" type="xs:string"/>
 <xs:element name="nst" type="xs:normalizedString"/>
</xs:choice></xs:complexType></xs:element>
''' + TAIL
    good = [('i', '7'), ('i', ' -7\n'), ('dt', '2020-02-29'), ('dec', '9.50'), ('dec', '100'), ('s', 'abc'),
            ('p', 'AB1'), ('e', 'red'), ('e', ' blue '), ('l', '1 2 3'), ('l', ''), ('u', '12'), ('u', 'small'),
            ('ul', '1 large 3'), ('bo', 'true'), ('bo', '0'), ('hx', '0aFF'), ('du', 'P1Y2M'), ('fl', '1.5e3'),
            ('fl', 'INF'), ('tk', '  AB   CD '), ('nc', ' t1 '), ('st', ' as is '), ('nst', 'a\tb '), ('bo', ' true '),
            ('dec', '\n 9.50 \n'), ('dt', ' 2020-02-29 '), ('du', ' P1D '), ('hx', ' 0A ')]
    bad = [('i', 'x', 'lexical'), ('i', '2147483648', 'facet'), ('i', '', 'lexical'), ('i', '1.0', 'lexical'),
           ('dt', '2021-02-29', 'lexical'), ('dt', '2020-2-1', 'lexical'),
           ('dec', '100.01', 'facet'), ('dec', '-1', 'facet'), ('dec', '1.234', 'facet'), ('dec', 'abc', 'lexical'),
           ('s', 'ab', 'facet'), ('s', 'abcd', 'facet'), ('p', 'ab1', 'facet'), ('e', 'green', 'facet'),
           ('l', '1 x', 'list'), ('l', '1 2 3 4', 'list'), ('u', 'medium', 'union'), ('u', '1.5', 'union'),
           ('ul', '1 medium', 'union'), ('bo', 'yes', 'lexical'), ('hx', '0aF', 'lexical'),
           ('du', '1Y', 'lexical'), ('fl', '1,5', 'lexical')]
    docs = []
    for n, (tag, val) in enumerate(good):
        docs.append(V('ok-%s-%d' % (tag, n), 'simple', '<r><%s>%s</%s></r>' % (tag, val, tag)))
    for n, (tag, val, kind) in enumerate(bad):
        docs.append(I('bad-%s-%s-%d' % (kind, tag, n), 'simple', '<r><%s>%s</%s></r>' % (tag, val, tag)))
    docs.append(V('ok-many', 'simple', '<r>' + ''.join('<%s>%s</%s>' % (t, v, t) for t, v in good) + '</r>'))
    docs.append(I('bad-many', 'simple', '<r>' + ''.join('<%s>%s</%s>' % (t, v, t) for t, v, _ in bad) + '</r>'))
    docs.append(V('ok-none', 'simple', '<r/>'))
    return xsd, docs


# --- attributes -----------------------------------------------------------------------------

def s_attrs():
    xsd = head() + '''<xs:element name="r"><xs:complexType>
 <xs:attribute name="q" type="xs:int" use="required"/>
 <xs:attribute name="o" type="xs:date"/>
 <xs:attribute name="f" type="xs:string" fixed="x"/>
 <xs:attribute name="d" type="xs:int" default="5"/>
 <xs:attribute name="l"><xs:simpleType><xs:list itemType="xs:int"/></xs:simpleType></xs:attribute>
</xs:complexType></xs:element>
<xs:element name="w"><xs:complexType>
 <xs:attribute name="q" type="xs:int" use="required"/>
 <xs:anyAttribute namespace="##other" processContents="lax"/>
</xs:complexType></xs:element>
<xs:element name="pr"><xs:complexType>
 <xs:attribute name="q" type="xs:int" use="prohibited"/>
 <xs:attribute name="k" type="xs:int"/>
</xs:complexType></xs:element>
''' + TAIL
    docs = [
        V('ok-min', 'attribute', '<r q="1"/>'),
        V('ok-full', 'attribute', '<r q="1" o="2020-01-01" f="x" d="6" l="1 2"/>'),
        V('ok-spaces', 'attribute', '<r q=" 1 " o=" 2020-01-01 " d=" 6" l=" 1   2 "/>'),
        I('missing-required', 'attribute', '<r/>'),
        I('undeclared', 'attribute', '<r q="1" z="1"/>'),
        I('bad-value', 'attribute', '<r q="x"/>'),
        I('bad-optional', 'attribute', '<r q="1" o="nope"/>'),
        I('wrong-fixed', 'attribute', '<r q="1" f="y"/>'),
        I('bad-default-override', 'attribute', '<r q="1" d="d"/>'),
        I('bad-list-item', 'attribute', '<r q="1" l="1 b"/>'),
        I('two-attr-errors', 'attribute', '<r q="x" z="1"/>'),
        I('missing-and-undeclared', 'attribute', '<r z="1"/>'),
        I('unexpected-child', 'content', '<r q="1"><z/></r>'),
        V('ok-any-attr', 'attribute', '<w q="1" o:k="v" xmlns:o="%s"/>' % O),
        I('any-attr-refused-local', 'attribute', '<w q="1" k="v"/>'),
        V('ok-prohibited-absent', 'attribute', '<pr k="1"/>'),
        I('prohibited-present', 'attribute', '<pr q="1"/>'),
    ]
    return xsd, docs


# --- xsi:type / abstract / block ------------------------------------------------------------

TYPES_BODY = '''<xs:complexType name="B"><xs:sequence><xs:element name="a" type="xs:int"/></xs:sequence></xs:complexType>
<xs:complexType name="D"><xs:complexContent><xs:extension base="%(p)sB"><xs:sequence>
 <xs:element name="b" type="xs:int"/></xs:sequence></xs:extension></xs:complexContent></xs:complexType>
<xs:complexType name="R"><xs:complexContent><xs:restriction base="%(p)sB"><xs:sequence>
 <xs:element name="a" type="xs:byte"/></xs:sequence></xs:restriction></xs:complexContent></xs:complexType>
<xs:complexType name="U"><xs:sequence><xs:element name="u" type="xs:int"/></xs:sequence></xs:complexType>
<xs:complexType name="A" abstract="true"><xs:sequence><xs:element name="a" type="xs:int"/></xs:sequence></xs:complexType>
<xs:complexType name="AD"><xs:complexContent><xs:extension base="%(p)sA"/></xs:complexContent></xs:complexType>
<xs:simpleType name="small"><xs:restriction base="xs:decimal"><xs:maxInclusive value="9"/></xs:restriction></xs:simpleType>
<xs:element name="e" type="%(p)sB"/>
<xs:element name="x" type="%(p)sB" block="extension"/>
<xs:element name="ab" type="%(p)sA"/>
<xs:element name="n" type="xs:decimal"/>
<xs:element name="qn" type="xs:QName"/>
<xs:element name="ql"><xs:complexType><xs:sequence><xs:element name="q" type="xs:QName" maxOccurs="2"/>
 </xs:sequence></xs:complexType></xs:element>
<xs:element name="c"><xs:complexType><xs:sequence><xs:element name="e" type="%(p)sB" maxOccurs="2"/>
 </xs:sequence></xs:complexType></xs:element>
'''


def _type_docs(root_open, close, q, pfx):
    """root_open(tag, extra) -> start tag text; q = prefix used in xsi:type values ('t:' or '')."""
    def doc(tag, attrs, body):
        return root_open(tag, attrs) + body + close(tag)
    docs = [
        V('ok-plain', 'xsi:type', doc('e', '', '<a>1</a>')),
        V('ok-xsi-extension', 'xsi:type', doc('e', 'xsi:type="%sD"' % q, '<a>1</a><b>2</b>'), pfx),
        I('xsi-extension-missing-child', 'xsi:type', doc('e', 'xsi:type="%sD"' % q, '<a>1</a>'), pfx),
        I('xsi-extension-bad-child', 'xsi:type', doc('e', 'xsi:type="%sD"' % q, '<a>1</a><b>x</b>'), pfx),
        I('extension-content-without-xsi', 'xsi:type', doc('e', '', '<a>1</a><b>2</b>')),
        V('ok-xsi-restriction', 'xsi:type', doc('e', 'xsi:type="%sR"' % q, '<a>5</a>'), pfx),
        I('xsi-restriction-range', 'xsi:type', doc('e', 'xsi:type="%sR"' % q, '<a>300</a>'), pfx),
        I('xsi-unrelated', 'xsi:type', doc('e', 'xsi:type="%sU"' % q, '<u>1</u>'), pfx),
        I('xsi-unknown', 'xsi:type', doc('e', 'xsi:type="%sNope"' % q, '<a>1</a>'), pfx),
        V('ok-xsi-same', 'xsi:type', doc('e', 'xsi:type="%sB"' % q, '<a>1</a>'), pfx),
        I('blocked-extension', 'block', doc('x', 'xsi:type="%sD"' % q, '<a>1</a><b>2</b>'), pfx),
        V('ok-restriction-not-blocked', 'block', doc('x', 'xsi:type="%sR"' % q, '<a>1</a>'), pfx),
        I('abstract-type', 'abstract', doc('ab', '', '<a>1</a>')),
        V('ok-abstract-with-xsi', 'abstract', doc('ab', 'xsi:type="%sAD"' % q, '<a>1</a>'), pfx),
        I('abstract-xsi-abstract', 'abstract', doc('ab', 'xsi:type="%sA"' % q, '<a>1</a>'), pfx),
        V('ok-xsi-simple', 'xsi:type', doc('n', 'xsi:type="%ssmall"' % q, '5'), pfx),
        I('xsi-simple-facet', 'xsi:type', doc('n', 'xsi:type="%ssmall"' % q, '10'), pfx),
        V('ok-xsi-child', 'xsi:type', doc('c', '', '<e><a>1</a></e><e xsi:type="%sD"><a>1</a><b>2</b></e>' % q), pfx),
        I('xsi-child-unknown', 'xsi:type', doc('c', '', '<e><a>1</a></e><e xsi:type="%sNope"><a>1</a></e>' % q), pfx),
    ]
    return docs


def s_types_ns():
    xsd = head(T) + TYPES_BODY % {'p': 't:'} + TAIL
    ns = 'xmlns:t="%s" %s' % (T, XSI_DECL)

    def ro(tag, attrs):
        return '<t:%s %s %s>' % (tag, ns, attrs)

    def cl(tag):
        return '</t:%s>' % tag
    docs = _type_docs(ro, cl, 't:', True)
    docs += [
        I('xsi-unmapped-prefix', 'xsi:type', ro('e', 'xsi:type="zz:D"') + '<a>1</a><b>2</b>' + cl('e'), True),
        I('xsi-no-prefix-wrong-namespace', 'xsi:type', ro('e', 'xsi:type="D"') + '<a>1</a><b>2</b>' + cl('e'), True),
        V('ok-xsi-builtin', 'xsi:type', ro('n', 'xmlns:xs="%s" xsi:type="xs:int"' % XS) + '5' + cl('n'), True),
        I('xsi-builtin-bad', 'xsi:type', ro('n', 'xmlns:xs="%s" xsi:type="xs:int"' % XS) + '5.5' + cl('n'), True),
        V('ok-xsi-other-prefix', 'xsi:type', '<k:e xmlns:k="%s" %s xsi:type="k:D"><a>1</a><b>2</b></k:e>' % (T, XSI_DECL),
          True),
        V('ok-qname', 'qname', ro('qn', 'xmlns:p="urn:c04:p"') + 'p:x' + cl('qn'), True),
        V('ok-qname-prefix-on-child', 'lazy-prefix', ro('ql', '') + '<q xmlns:p="urn:c04:p">p:x</q>' + cl('ql'), True),
        I('qname-prefix-of-sibling', 'qname', ro('ql', '') + '<q xmlns:p="urn:c04:p">p:x</q><q>p:x</q>' + cl('ql'), True),
        I('qname-unmapped-prefix', 'qname', ro('qn', '') + 'zz:x' + cl('qn'), True),
        I('qname-bad-lexical', 'qname', ro('qn', '') + 't:1x' + cl('qn'), True),
    ]
    return xsd, docs


def s_types_local():
    xsd = head() + TYPES_BODY % {'p': ''} + TAIL

    def ro(tag, attrs):
        return '<%s %s %s>' % (tag, XSI_DECL, attrs)

    def cl(tag):
        return '</%s>' % tag
    return xsd, _type_docs(ro, cl, '', False)


# --- substitution / nil / fixed -------------------------------------------------------------

def s_subst():
    xsd = head() + '''<xs:element name="h" type="xs:decimal" abstract="true"/>
<xs:element name="s1" type="xs:int" substitutionGroup="h"/>
<xs:element name="s2" type="xs:decimal" substitutionGroup="h"/>
<xs:element name="k" type="xs:decimal" block="substitution"/>
<xs:element name="k1" type="xs:int" substitutionGroup="k"/>
<xs:element name="n" type="xs:int" nillable="true"/>
<xs:element name="fx" type="xs:int" fixed="7"/>
<xs:element name="df" type="xs:int" default="3"/>
<xs:element name="r"><xs:complexType><xs:sequence>
  <xs:element ref="h" minOccurs="0" maxOccurs="2"/>
  <xs:element ref="k" minOccurs="0"/>
  <xs:element ref="n" minOccurs="0"/>
  <xs:element ref="fx" minOccurs="0"/>
  <xs:element ref="df" minOccurs="0"/>
  <xs:element name="m" type="xs:int" minOccurs="0"/>
</xs:sequence></xs:complexType></xs:element>
''' + TAIL
    x = XSI_DECL
    docs = [
        V('ok-substitutes', 'substitution', '<r><s1>1</s1><s2>1.5</s2></r>'),
        I('abstract-head', 'abstract', '<r><h>1</h></r>'),
        I('abstract-head-root', 'abstract', '<h>1</h>'),
        V('ok-substitute-root', 'substitution', '<s1>1</s1>'),
        I('substitute-bad-value', 'substitution', '<r><s1>1.5</s1></r>'),
        I('substitute-over', 'substitution', '<r><s1>1</s1><s2>2</s2><s1>3</s1></r>'),
        V('ok-block-head-itself', 'block', '<r><k>1</k></r>'),
        I('blocked-substitution', 'block', '<r><k1>1</k1></r>'),
        V('ok-nil', 'nil', '<r %s><n xsi:nil="true"/></r>' % x),
        V('ok-nil-1', 'nil', '<r %s><n xsi:nil="1"></n></r>' % x),
        V('ok-nil-false', 'nil', '<r %s><n xsi:nil="false">4</n></r>' % x),
        I('nil-with-content', 'nil', '<r %s><n xsi:nil="true">1</n></r>' % x),
        I('nil-false-empty', 'nil', '<r %s><n xsi:nil="false"/></r>' % x),
        I('nil-not-nillable', 'nil', '<r %s><m xsi:nil="true"/></r>' % x),
        I('nil-bad-value', 'nil', '<r %s><n xsi:nil="maybe"/></r>' % x),
        V('ok-nil-root', 'nil', '<n %s xsi:nil="true"/>' % x),
        V('ok-fixed', 'fixed', '<r><fx>7</fx></r>'),
        V('ok-fixed-empty', 'fixed', '<r><fx/></r>'),
        I('wrong-fixed', 'fixed', '<r><fx>8</fx></r>'),
        V('ok-default-empty', 'fixed', '<r><df/></r>'),
        I('default-bad', 'fixed', '<r><df>d</df></r>'),
    ]
    return xsd, docs


# --- identity constraints -------------------------------------------------------------------

def s_identity():
    xsd = head() + '''<xs:element name="r"><xs:complexType><xs:sequence>
 <xs:element name="i" minOccurs="0" maxOccurs="unbounded"><xs:complexType>
  <xs:attribute name="id" type="xs:int"/><xs:attribute name="u" type="xs:string"/></xs:complexType></xs:element>
 <xs:element name="f" minOccurs="0" maxOccurs="unbounded"><xs:complexType>
  <xs:attribute name="ref" type="xs:int"/></xs:complexType></xs:element>
</xs:sequence></xs:complexType>
<xs:key name="k"><xs:selector xpath="i"/><xs:field xpath="@id"/></xs:key>
<xs:keyref name="kr" refer="k"><xs:selector xpath="f"/><xs:field xpath="@ref"/></xs:keyref>
<xs:unique name="un"><xs:selector xpath="i"/><xs:field xpath="@u"/></xs:unique>
</xs:element>
''' + TAIL
    docs = [
        V('ok', 'identity', '<r><i id="1" u="a"/><i id="2"/><f ref="1"/></r>'),
        V('ok-empty', 'identity', '<r/>'),
        V('ok-ref-twice', 'identity', '<r><i id="1"/><f ref="1"/><f ref="1"/><f/></r>'),
        I('duplicate-key', 'identity', '<r><i id="1"/><i id="1"/></r>'),
        I('duplicate-key-lexical', 'identity', '<r><i id="1"/><i id="01"/></r>'),
        I('dangling-keyref', 'identity', '<r><i id="1"/><f ref="2"/></r>'),
        I('missing-key-field', 'identity', '<r><i u="a"/></r>'),
        I('duplicate-unique', 'identity', '<r><i id="1" u="a"/><i id="2" u="a"/></r>'),
        I('two-identity-errors', 'identity', '<r><i id="1"/><i id="1"/><f ref="3"/></r>'),
        I('identity-and-value', 'identity', '<r><i id="x"/><f ref="3"/></r>'),
    ]
    return xsd, docs


def s_id():
    xsd = head() + '''<xs:element name="r"><xs:complexType><xs:sequence>
<xs:element name="d" minOccurs="0" maxOccurs="unbounded"><xs:complexType>
 <xs:attribute name="id" type="xs:ID"/><xs:attribute name="ref" type="xs:IDREF"/>
 <xs:attribute name="refs" type="xs:IDREFS"/></xs:complexType></xs:element>
<xs:element name="t" type="xs:IDREF" minOccurs="0"/>
</xs:sequence></xs:complexType></xs:element>
''' + TAIL
    docs = [
        V('ok', 'id', '<r><d id="a"/><d ref="a"/></r>'),
        V('ok-forward', 'id', '<r><d ref="a"/><d id="a"/></r>'),
        V('ok-refs', 'id', '<r><d id="a"/><d id="b" refs="a b"/></r>'),
        V('ok-text-ref', 'id', '<r><d id="a"/><t>a</t></r>'),
        I('duplicate-id', 'id', '<r><d id="a"/><d id="a"/></r>'),
        I('dangling-idref', 'idref', '<r><d id="a"/><d ref="b"/></r>'),
        I('dangling-idref-only', 'idref', '<r><d ref="b"/></r>'),
        I('dangling-idrefs-item', 'idref', '<r><d id="a"/><d refs="a b"/></r>'),
        I('dangling-text-ref', 'idref', '<r><d id="a"/><t>b</t></r>'),
        I('two-dangling', 'idref', '<r><d ref="b"/><d ref="c"/></r>'),
        I('bad-id-lexical', 'id', '<r><d id="1a"/></r>'),
        I('dangling-and-value', 'idref', '<r><d id="1a"/><d ref="b"/></r>'),
    ]
    return xsd, docs


# --- XSD 1.1 only ---------------------------------------------------------------------------

def s_assert():
    xsd = head() + '''<xs:simpleType name="ev"><xs:restriction base="xs:int"><xs:assertion test="$value mod 2 = 0"/>
 </xs:restriction></xs:simpleType>
<xs:complexType name="MB"><xs:attribute name="kind" type="xs:string"/><xs:attribute name="v" type="xs:decimal"/></xs:complexType>
<xs:complexType name="MI"><xs:complexContent><xs:restriction base="MB"><xs:attribute name="v" type="xs:int"/>
 </xs:restriction></xs:complexContent></xs:complexType>
<xs:element name="r"><xs:complexType><xs:sequence>
 <xs:element name="v" type="ev" minOccurs="0" maxOccurs="unbounded"/>
 <xs:element name="m" type="MB" minOccurs="0"><xs:alternative test="@kind='i'" type="MI"/></xs:element>
</xs:sequence>
<xs:attribute name="min" type="xs:int"/><xs:attribute name="max" type="xs:int"/>
<xs:assert test="not(@min) or not(@max) or @min le @max"/></xs:complexType></xs:element>
''' + TAIL
    docs = [
        V('ok', 'assert', '<r min="1" max="2"><v>4</v></r>'),
        V('ok-no-attrs', 'assert', '<r/>'),
        I('assert-fails', 'assert', '<r min="3" max="2"/>'),
        I('assertion-facet-fails', 'assert', '<r><v>3</v></r>'),
        I('both-fail', 'assert', '<r min="3" max="2"><v>3</v></r>'),
        I('assert-and-content', 'assert', '<r min="3" max="2"><z/></r>'),
        V('ok-alternative-default', 'alternative', '<r><m kind="s" v="1.5"/></r>'),
        V('ok-alternative-int', 'alternative', '<r><m kind="i" v="12"/></r>'),
        I('alternative-int-bad', 'alternative', '<r><m kind="i" v="1.5"/></r>'),
    ]
    return xsd, docs


# --- strict wildcards over a loaded namespace ------------------------------------------------

def s_anyattr():
    xsd = head(T, True) + '''<xs:attribute name="known" type="xs:int"/>
<xs:element name="known" type="xs:int"/>
<xs:element name="root"><xs:complexType><xs:sequence>
 <xs:any namespace="##targetNamespace" minOccurs="0"/>
</xs:sequence>
<xs:attribute name="id" type="xs:int"/>
<xs:anyAttribute namespace="##targetNamespace"/>
</xs:complexType></xs:element>
''' + TAIL
    p = 'xmlns:t="%s" xmlns:o="%s"' % (T, O)
    docs = [
        V('ok-known-attribute', 'wildcard-strict', '<t:root %s id="1" t:known="7"/>' % p),
        I('unknown-attribute', 'wildcard-strict', '<t:root %s id="1" t:unknown="7"/>' % p),
        I('known-attribute-bad-value', 'wildcard-strict', '<t:root %s t:known="x"/>' % p),
        I('attribute-other-namespace', 'wildcard-strict', '<t:root %s o:k="1"/>' % p),
        V('ok-known-element', 'wildcard-strict', '<t:root %s><t:known>1</t:known></t:root>' % p),
        I('unknown-element', 'wildcard-strict', '<t:root %s><t:zz/></t:root>' % p),
        I('known-element-bad-value', 'wildcard-strict', '<t:root %s><t:known>x</t:known></t:root>' % p),
        I('unknown-attribute-and-element', 'wildcard-strict', '<t:root %s t:unknown="7"><t:zz/></t:root>' % p),
    ]
    return xsd, docs


# --- XSD 1.1 inheritable attributes ------------------------------------------------------------

def s_inherit():
    xsd = head() + '''<xs:element name="r"><xs:complexType><xs:sequence>
 <xs:element name="c" type="xs:int" minOccurs="0"/>
 <xs:element name="g" minOccurs="0"><xs:complexType><xs:sequence>
  <xs:element name="a" type="xs:int"/><xs:element name="b" type="xs:int"/></xs:sequence>
  <xs:attribute name="lang" type="xs:string" inheritable="true"/></xs:complexType></xs:element>
 <xs:element name="i" minOccurs="0" maxOccurs="unbounded"><xs:complexType>
  <xs:attribute name="id" type="xs:int"/><xs:attribute name="x" type="xs:ID"/>
  <xs:attribute name="ref" type="xs:IDREF"/></xs:complexType></xs:element>
</xs:sequence>
<xs:attribute name="lang" type="xs:string" inheritable="true"/>
</xs:complexType>
<xs:key name="k"><xs:selector xpath="i"/><xs:field xpath="@id"/></xs:key>
</xs:element>
''' + TAIL
    docs = []
    for tag, lang in (('lang', ' lang="en"'), ('nolang', '')):
        docs += [
            V('ok-%s' % tag, 'content', '<r%s><c>1</c><g><a>1</a><b>2</b></g><i id="1" x="a"/><i id="2" ref="a"/></r>' % lang),
            I('bad-value-%s' % tag, 'simple', '<r%s><c>x</c></r>' % lang),
            I('missing-child-%s' % tag, 'content', '<r%s><g><a>1</a></g></r>' % lang),
            I('duplicate-key-%s' % tag, 'identity', '<r%s><i id="1"/><i id="1"/></r>' % lang),
            I('dangling-idref-%s' % tag, 'idref', '<r%s><i id="1" ref="zz"/></r>' % lang),
            I('duplicate-id-%s' % tag, 'id', '<r%s><i id="1" x="a"/><i id="2" x="a"/></r>' % lang),
            I('bad-attribute-%s' % tag, 'attribute', '<r%s><i id="one"/></r>' % lang),
            V('ok-inner-%s' % tag, 'content', '<r><g%s><a>1</a><b>2</b></g></r>' % lang),
            I('inner-bad-value-%s' % tag, 'simple', '<r><g%s><a>x</a><b>2</b></g></r>' % lang),
            I('inner-missing-child-%s' % tag, 'content', '<r><g%s><b>2</b></g></r>' % lang),
            I('after-inner-bad-value-%s' % tag, 'attribute', '<r><g%s><a>1</a><b>2</b></g><i id="one"/></r>' % lang),
            I('after-inner-dangling-idref-%s' % tag, 'idref', '<r><g%s><a>1</a><b>2</b></g><i ref="zz"/></r>' % lang),
        ]
    return xsd, docs


# --- a document root in an imported namespace, with and without a location hint for it ----------

A, B = 'urn:c04:a', 'urn:c04:b'
IMPORTED_B = '''<xs:schema xmlns:xs="%s" targetNamespace="%s" elementFormDefault="qualified">
<xs:element name="item"><xs:complexType><xs:sequence><xs:element name="qty" type="xs:positiveInteger"/></xs:sequence>
 <xs:attribute name="code" type="xs:NCName" use="required"/></xs:complexType></xs:element>
</xs:schema>
''' % (XS, B)
IMPORTED_OLD_B = '''<xs:schema xmlns:xs="%s" targetNamespace="%s" elementFormDefault="qualified">
<xs:element name="item"><xs:complexType><xs:sequence><xs:element name="qty" type="xs:string"/></xs:sequence>
 <xs:attribute name="code" type="xs:string"/></xs:complexType></xs:element>
</xs:schema>
''' % (XS, B)


def s_imported():
    """The schema (namespace A) imports namespace B from b.xsd; old_b.xsd is a looser schema for B that some
    documents name in an xsi:schemaLocation hint.  @DIR@ is replaced by the fixture directory."""
    xsd = ('''<xs:schema xmlns:xs="%s" targetNamespace="%s" xmlns:b="%s" elementFormDefault="qualified">
<xs:import namespace="%s" schemaLocation="b.xsd"/>
<xs:element name="box"><xs:complexType><xs:sequence><xs:element ref="b:item" maxOccurs="unbounded"/></xs:sequence>
 </xs:complexType></xs:element>
''' % (XS, A, B, B)) + TAIL
    ns = 'xmlns:a="%s" xmlns:b="%s" %s' % (A, B, XSI_DECL)
    hint = ' xsi:schemaLocation="%s file://@DIR@/old_b.xsd"' % B
    rel = ' xsi:schemaLocation="%s old_b.xsd"' % B
    docs = []
    for tag, h in (('', ''), ('-hinted', hint), ('-hinted-relative', rel)):
        docs += [
            V('ok-imported-root' + tag, 'imported', '<b:item %s%s code="x1"><b:qty>3</b:qty></b:item>' % (ns, h)),
            I('imported-root-bad' + tag, 'imported', '<b:item %s%s><b:qty>three</b:qty></b:item>' % (ns, h)),
            I('imported-root-bad-value' + tag, 'imported', '<b:item %s%s code="x1"><b:qty>0</b:qty></b:item>' % (ns, h)),
            V('ok-main-root' + tag, 'imported',
              '<a:box %s%s><b:item code="x1"><b:qty>3</b:qty></b:item></a:box>' % (ns, h)),
            I('main-root-bad' + tag, 'imported',
              '<a:box %s%s><b:item code="1 x"><b:qty>3</b:qty></b:item></a:box>' % (ns, h)),
        ]
    return xsd, docs, {'b.xsd': IMPORTED_B, 'old_b.xsd': IMPORTED_OLD_B}


# --- identity constraints scoped to the elements at depth 1 ------------------------------------

def s_scoped():
    xsd = head() + '''<xs:element name="cat"><xs:complexType><xs:sequence>
 <xs:element name="s" maxOccurs="unbounded"><xs:complexType><xs:sequence>
   <xs:element name="e" maxOccurs="unbounded"><xs:complexType><xs:simpleContent><xs:extension base="xs:string">
    <xs:attribute name="code" type="xs:token" use="required"/></xs:extension></xs:simpleContent></xs:complexType>
   </xs:element></xs:sequence>
   <xs:attribute name="name" type="xs:token" use="required"/></xs:complexType>
  <xs:unique name="code"><xs:selector xpath="e"/><xs:field xpath="@code"/></xs:unique>
 </xs:element>
</xs:sequence></xs:complexType>
<xs:key name="name"><xs:selector xpath="s"/><xs:field xpath="@name"/></xs:key>
</xs:element>
''' + TAIL

    def cat(*sections, names=None):
        out = '<cat>'
        for k, codes in enumerate(sections):
            out += '\n <s name="%s">' % (names[k] if names else 's%d' % (k + 1))
            out += ''.join('\n  <e code="%s">item %s</e>' % (c, c) for c in codes) + '\n </s>'
        return out + '\n</cat>\n'
    docs = [
        V('ok-three-scopes', 'identity', cat('ab', 'ab', 'bc')),
        V('ok-one-scope', 'identity', cat('abc')),
        I('duplicate-in-1st-scope', 'identity', cat('aa', 'ab', 'bc')),
        I('duplicate-in-2nd-scope', 'identity', cat('ab', 'aa', 'bc')),
        I('duplicate-in-3rd-scope', 'identity', cat('ab', 'ab', 'cxc')),
        I('duplicate-in-2nd-and-3rd-scope', 'identity', cat('ab', 'bb', 'cc')),
        I('duplicate-in-4th-scope', 'identity', cat('a', 'b', 'c', 'dd')),
        I('duplicate-scope-name', 'identity', cat('ab', 'ab', 'bc', names=('s1', 's2', 's1'))),
        I('duplicate-scope-name-and-code', 'identity', cat('ab', 'cc', names=('s1', 's1'))),
    ]
    return xsd, docs


# --- absent attributes supplied by a default / fixed value that can itself be invalid -----------

KNS = 'urn:c04:k'


def s_attrdefaults():
    xsd = head(extra=' xmlns:k="%s"' % KNS) + '''<xs:element name="r"><xs:complexType><xs:sequence>
 <xs:element name="i" minOccurs="0" maxOccurs="unbounded"><xs:complexType>
  <xs:attribute name="id" type="xs:ID"/><xs:attribute name="see" type="xs:IDREF" default="top"/>
 </xs:complexType></xs:element>
 <xs:element name="f" minOccurs="0" maxOccurs="unbounded"><xs:complexType>
  <xs:attribute name="see" type="xs:IDREF" fixed="top"/></xs:complexType></xs:element>
 <xs:element name="q" minOccurs="0" maxOccurs="unbounded"><xs:complexType>
  <xs:attribute name="kind" type="xs:QName" default="k:plain"/></xs:complexType></xs:element>
 <xs:element name="qf" minOccurs="0" maxOccurs="unbounded"><xs:complexType>
  <xs:attribute name="kind" type="xs:QName" fixed="k:plain"/></xs:complexType></xs:element>
</xs:sequence></xs:complexType></xs:element>
''' + TAIL
    k = 'xmlns:k="%s"' % KNS
    docs = [
        V('ok-nothing', 'idref', '<r/>'),
        V('ok-idref-default-resolved', 'idref', '<r><i id="top"/><i/></r>'),
        V('ok-idref-default-resolved-later', 'idref', '<r><i/><i id="top"/></r>'),
        I('idref-default-dangling', 'idref', '<r><i id="first"/><i/></r>'),
        I('idref-default-dangling-alone', 'idref', '<r><i/></r>'),
        I('idref-explicit-dangling', 'idref', '<r><i id="top" see="nowhere"/></r>'),
        V('ok-idref-explicit-resolved', 'idref', '<r><i id="a" see="a"/></r>'),
        V('ok-idref-fixed-resolved', 'idref', '<r><i id="top" see="top"/><f/></r>'),
        I('idref-fixed-dangling', 'idref', '<r><f/></r>'),
        I('idref-fixed-dangling-second', 'idref', '<r><i id="a" see="a"/><f/></r>'),
        # the defaulted QName uses the prefix k: the instance must bind it
        V('ok-qname-default-prefix-bound', 'qname', '<r %s><q/></r>' % k, True),
        V('ok-qname-default-prefix-bound-on-element', 'lazy-prefix', '<r><q %s/></r>' % k, True),
        I('qname-default-prefix-unbound', 'qname', '<r><q/></r>', True),
        I('qname-default-prefix-bound-elsewhere', 'qname', '<r><q %s/><q/></r>' % k, True),
        V('ok-qname-explicit', 'qname', '<r xmlns:p="urn:c04:p"><q kind="p:x"/></r>', True),
        V('ok-qname-fixed-prefix-bound', 'qname', '<r %s><qf/><qf kind="k:plain"/></r>' % k, True),
        I('qname-fixed-prefix-unbound', 'qname', '<r><qf/></r>', True),
    ]
    return xsd, docs


def s_iddefault():
    """XSD 1.1 only (1.0 forbids value constraints on xs:ID): two elements that omit the attribute get the same ID."""
    xsd = head() + '''<xs:element name="r"><xs:complexType><xs:sequence>
 <xs:element name="d" minOccurs="0" maxOccurs="unbounded"><xs:complexType>
  <xs:attribute name="id" type="xs:ID" default="one"/><xs:attribute name="ref" type="xs:IDREF"/>
 </xs:complexType></xs:element>
</xs:sequence></xs:complexType></xs:element>
''' + TAIL
    docs = [
        V('ok-id-default-once', 'id', '<r><d/></r>'),
        V('ok-id-default-referenced', 'id', '<r><d/><d id="two" ref="one"/></r>'),
        V('ok-id-explicit', 'id', '<r><d id="a"/><d id="b"/></r>'),
        I('id-default-twice', 'id', '<r><d/><d/></r>'),
        I('id-default-and-explicit-same', 'id', '<r><d id="one"/><d/></r>'),
    ]
    return xsd, docs


# --- documents with exactly k errors --------------------------------------------------------

K_XSD = head() + '''<xs:element name="r"><xs:complexType><xs:sequence>
 <xs:element name="v" type="xs:int" minOccurs="0" maxOccurs="unbounded"/>
</xs:sequence></xs:complexType></xs:element>
''' + TAIL


def k_doc(k):
    """k bad leaves (one error each) after one good leaf, under a schema without any other constraint."""
    return '<r><v>1</v>' + '<v>x</v>' * k + '</r>'


def s_k():
    docs = [((V if k == 0 else I)('k=%d' % k, 'k-errors', k_doc(k))) for k in K_VALUES]
    return K_XSD, docs


BOTH = ('1.0', '1.1')
_TABLE = (
    ('seq', BOTH, s_seq), ('choicewild', BOTH, s_choice_wild), ('all', BOTH, s_all), ('nested', BOTH, s_nested),
    ('content', BOTH, s_content), ('simple', BOTH, s_simple), ('attrs', BOTH, s_attrs),
    ('typesns', BOTH, s_types_ns), ('typeslocal', BOTH, s_types_local), ('subst', BOTH, s_subst),
    ('identity', BOTH, s_identity), ('id', BOTH, s_id), ('assert', ('1.1',), s_assert), ('k', BOTH, s_k),
    ('anyattr', BOTH, s_anyattr), ('inherit', ('1.1',), s_inherit), ('imported', BOTH, s_imported),
    ('scoped', BOTH, s_scoped), ('attrdefaults', BOTH, s_attrdefaults), ('iddefault', ('1.1',), s_iddefault),
)


def catalogue():
    out = []
    for name, versions, fn in _TABLE:
        made = fn()
        xsd, docs = made[:2]
        labels = [d[0] for d in docs]
        assert len(set(labels)) == len(labels), name
        out.append({'schema': name, 'versions': versions, 'xsd': xsd, 'docs': docs,
                    'files': made[2] if len(made) > 2 else {}})
    return out


def entry(name):
    for e in catalogue():
        if e['schema'] == name:
            return e
    raise KeyError(name)


def with_hint(xml, xsd_url, target):
    """The same document carrying an xsi schema location hint on its root element."""
    import re
    m = re.match(r'<[^\s/>]+', xml)
    start = xml[:xml.index('>')]
    decl = '' if 'xmlns:xsi=' in start else ' ' + XSI_DECL
    if target:
        hint = ' xsi:schemaLocation="%s %s"' % (target, xsd_url)
    else:
        hint = ' xsi:noNamespaceSchemaLocation="%s"' % xsd_url
    return xml[:m.end()] + decl + hint + xml[m.end():]


def root_target(xml):
    """Namespace of the root element of a catalogue document, read from its text (catalogue documents declare
    the namespaces they use on the root element)."""
    import re
    m = re.match(r'<(?:([A-Za-z]+):)?[A-Za-z0-9]+', xml)
    pfx = m.group(1)
    start = xml[:xml.index('>')]
    m2 = re.search(r'xmlns%s="([^"]*)"' % (':' + pfx if pfx else ''), start)
    return m2.group(1) if m2 else ''
