"""C02 - simple-type validation and decoding follow XSD datatype semantics.

Spaces (each enumerated completely, see bounds()):
  lex    every string of length <= L over a per-type alphabet, for every built-in atomic type of
         XMLSchema10 and XMLSchema11 (quick L=4 plus a seed-selected 1/K slice of L=5; thorough L=5)
  cat    a boundary catalogue per type and every string at edit distance 1 (insert / delete /
         substitute over the type's alphabet) from the catalogue's seed forms
  facet  restrictions (facet sets of size <= 2, thorough <= 3; one and two derivation levels), lists and
         unions, applied to every catalogue candidate of the base type
  opt    decode options decimal_type / datetime_types / binary_types on the valid catalogue forms

Helpers: mc/ref/datatypes.py (reference model), mc/gen/c02_catalogue.py (alphabets, catalogue, facet pools).

Every case is judged by mc/ref/datatypes.py and replayed on the library through an element of the
type, an attribute of the type and the XsdSimpleType itself.
"""
import itertools
import json
import math
import re
import struct
import xml.etree.ElementTree as ET
from decimal import Decimal
from fractions import Fraction

from xmlschema import XMLSchema10, XMLSchema11
from xmlschema.exceptions import XMLSchemaException
from xmlschema.validators.exceptions import XMLSchemaValidationError
from xml.sax.saxutils import quoteattr

from mc.core.runner import in_slice
from mc.ref import datatypes as D
from mc.gen import c02_catalogue as CAT

ID = 'C02'
TITLE = 'Simple-type validation and decoding follow XSD datatype semantics'
RULE = ('every string of length <= L over a per-type alphabet (8-12 symbols) for every built-in atomic type of '
        'XSD 1.0 and 1.1, plus a boundary catalogue per type with every edit-distance-1 neighbour of its seed '
        'forms, plus facet sets / lists / unions over catalogue candidates, plus decode options; a case is one '
        '(version, type, text); it is non-trivial when the text is valid or dies in the reference lexical DFA only '
        'at its last character or later (distinct = distinct (version, type, normalised text) of such cases; for derived '
        'types and options every (model, candidate) pair counts); a discrepancy of a multi-facet restriction that a '
        'one-facet sub-restriction already shows is reported under the sub-restriction (simplest first); '
        'states / transitions = derivative-DFA states and (state, character) steps of the reference lexical '
        'automata visited, counted once per (version, type, space); traces = library calls replayed')
ASSUMPTIONS = [
    'lexical spaces are the regexes of XSD Part 2 (1.1 productions; 1.0 second edition prose: no year 0000, no +INF) applied after whitespace normalisation with the four XSD whitespace characters',
    'implementation-defined limits are not judged for the verdict (years beyond 4 digits, durations beyond the 1.1 minimum range, float exponents beyond 5000), only for escaping exceptions; fractional seconds beyond 3 digits may be truncated',
    'XSD 1.0 leaves leap years before the common era and the anyURI lexical space open: not judged',
    'name alphabets only use characters on which XML 1.0 fourth and fifth edition agree',
    'xs:float values may be delivered as the double nearest to the literal (Python has no single type): the decoded value must round to the reference single',
    'ENTITY is judged lexically only (no DTD); IDREF/IDREFS documents carry matching ID attributes; NOTATION is only used through an enumeration restriction',
    'documents are ElementTree elements built in memory, so no XML parser attribute-value normalisation takes place',
    'an empty element decoded as None is taken to denote the empty string',
]
VERSIONS = {'1.0': XMLSchema10, '1.1': XMLSchema11}
NSMAP = {'a': 'urn:a'}
K_SLICE = 16
MAX_DISCS_PER_SHARD = 3000
BUDGET_S = {'quick': 3000, 'thorough': 14400}

HEAD = '<xs:schema xmlns:xs="http://www.w3.org/2001/XMLSchema" xmlns:a="urn:a">\n'
TAIL = '</xs:schema>'


def jkey(s):
    return json.dumps(s, ensure_ascii=True)


# --- schemas ---------------------------------------------------------------------------------

def type_schema_text(typedef, typeref):
    """Schema with <e> of the type, <a v=type/>, and a wrapper <r> carrying ID attributes (for IDREF)."""
    return (HEAD + typedef +
            '<xs:element name="e" type="%s"/>\n'
            '<xs:element name="a"><xs:complexType><xs:attribute name="v" type="%s"/></xs:complexType></xs:element>\n'
            '<xs:element name="r"><xs:complexType><xs:sequence>'
            '<xs:element name="e" type="%s" minOccurs="0"/>'
            '<xs:element name="a" minOccurs="0"><xs:complexType><xs:attribute name="v" type="%s"/></xs:complexType></xs:element>'
            '<xs:element name="i" minOccurs="0" maxOccurs="unbounded"><xs:complexType><xs:attribute name="id" type="xs:ID"/>'
            '</xs:complexType></xs:element></xs:sequence></xs:complexType></xs:element>\n'
            % (typeref, typeref, typeref, typeref) + TAIL)


_SCHEMAS = {}


def builtin_schema(version, name):
    key = (version, name)
    s = _SCHEMAS.get(key)
    if s is None:
        s = _SCHEMAS[key] = VERSIONS[version](type_schema_text('', 'xs:' + name))
    return s


# --- observing the library -------------------------------------------------------------------

class Obs:
    """Observations of one text through the three channels."""
    __slots__ = ('verdict', 'crash', 'calls')

    def __init__(self):
        self.verdict = {}
        self.crash = {}
        self.calls = 0


def needs_ids(name):
    return name in ('IDREF', 'IDREFS')


def make_docs(name, raw, wrap):
    """(element doc, path to e, attribute doc, path to a)."""
    e = ET.Element('e')
    e.text = raw
    a = ET.Element('a')
    a.set('v', raw)
    if not wrap:
        return e, a
    docs = []
    for child in (e, a):
        r = ET.Element('r')
        r.append(child)
        for tok in sorted(set(D.normalize('collapse', raw).split(' '))):
            if tok and D.dfa('1.1', 'NCName').accepts(tok):
                ET.SubElement(r, 'i').set('id', tok)
        docs.append(r)
    return docs[0], docs[1]


def call(f):
    """('ok', result) | ('invalid', message) | ('crash', 'ExcName: text')."""
    try:
        return ('ok', f())
    except XMLSchemaValidationError as e:
        return ('invalid', (e.reason or str(e))[:120])
    except Exception as e:                                  # noqa
        return ('crash', '%s: %s' % (type(e).__name__, str(e)[:100]))


def observe_verdicts(schema, name, raw, wrap, ns):
    obs = Obs()
    edoc, adoc = make_docs(name, raw, wrap)
    xtype = schema.elements['e'].type
    kw = {'namespaces': ns} if ns else {}
    for ch, f in (('elem', lambda: schema.is_valid(edoc, **kw)),
                  ('attr', lambda: schema.is_valid(adoc, **kw)),
                  ('type', lambda: xtype.is_valid(raw, **kw))):
        st, res = call(f)
        obs.calls += 1
        if st == 'crash':
            obs.crash[ch] = res
        else:
            obs.verdict[ch] = bool(res) if st == 'ok' else False
    return obs, edoc, adoc, xtype


def pick(decoded, ch, wrap):
    """Extract the simple value from what decode() returned for the document."""
    if ch == 'type':
        return decoded
    if wrap and isinstance(decoded, dict):
        decoded = decoded.get('e' if ch == 'elem' else 'a')
        if isinstance(decoded, list) and len(decoded) == 1 and ch == 'attr':
            decoded = decoded[0]
    if ch == 'attr':
        return decoded.get('@v') if isinstance(decoded, dict) else decoded
    if isinstance(decoded, dict) and '$' in decoded:
        return decoded['$']
    return decoded


# --- does a Python value denote the reference value? ---------------------------------------

def round32(x):
    if x != x or x in (float('inf'), float('-inf')):
        return x
    try:
        return struct.unpack('f', struct.pack('f', x))[0]
    except OverflowError:
        return float('inf') if x > 0 else float('-inf')


def frac_digits_of_seconds(text):
    m = re.search(r'[0-9]\.([0-9]+)(S|Z|[+-][0-9:]+)?$', text)
    return len(m.group(1).rstrip('0')) if m else 0


def tz_minutes(obj):
    tz = getattr(obj, 'tzinfo', None)
    if tz is None:
        return None
    off = tz.utcoffset(None)
    return off.days * 1440 + off.seconds // 60


def denotes(version, name, py, ref, norm, ch):
    """None when `py` denotes the reference value `ref`, else a short explanation.
    Returns 'open:...' strings for tolerated deviations."""
    fam = D.family(name)
    if name in D.INT_RANGES:
        return None if (type(py) is int and py == ref) else 'expected int %d' % ref
    if fam in ('string', 'anyURI'):
        if py is None and ref == '' and ch == 'elem':
            return 'open:empty element decoded as None'
        return None if (isinstance(py, str) and str(py) == ref) else 'expected %r' % ref
    if fam == 'boolean':
        return None if (py is True or py is False) and py == ref else 'expected %r' % ref
    if fam == 'decimal':
        ok = isinstance(py, Decimal) and py.is_finite() and Fraction(py) == ref
        return None if ok else 'expected decimal %s' % ref
    if fam in ('float', 'double'):
        if type(py) is not float:
            return 'expected a float'
        if D.same_value(fam, py, ref):
            return None
        if fam == 'float':
            # Python has no single: the double nearest to the literal, or anything rounding to the single, is fine
            if D.same_value(fam, round32(py), ref) or D.same_value('double', py, D.float_value(version, norm, 64)):
                return None
        if py == ref:
            return None if version == '1.0' else 'expected %r (sign of zero)' % ref
        return 'expected %r' % ref
    if fam == 'QName':
        exp = '{%s}%s' % ref if ref[0] else ref[1]
        if py == exp or (isinstance(py, str) and py == norm):
            return None
        return 'expected %r or %r' % (exp, norm)
    # dates, durations, binaries: typed object or text
    if py is None and ch == 'elem' and norm == '':
        return 'open:empty element decoded as None'
    if isinstance(py, str):
        st = D.judge(version, name, py, NSMAP)
        if st[0] == 'valid' and st[2] == ref:
            return None
        return 'text %r does not denote the value of %r' % (py, norm)
    if fam == 'duration':
        try:
            got = (py.months, Fraction(py.seconds))
        except Exception as e:                              # noqa
            return 'not a duration object: %r' % (e,)
        if got == ref:
            return None
        if frac_digits_of_seconds(norm) > 3 and got[0] == ref[0] and abs(got[1] - ref[1]) < Fraction(1, 1000):
            return 'open:fractional seconds beyond three digits'
        return 'expected months=%d seconds=%s' % ref
    if fam in ('hexBinary', 'base64Binary'):
        try:
            got = py.decode()
        except Exception as e:                              # noqa
            return 'not a binary object: %r' % (e,)
        return None if got == ref else 'expected octets %r' % (ref,)
    if fam in D.DATE_FAMILIES:
        try:
            text = str(py)
            micro = py.microsecond if ref[5] is not None else None
            got = (py.month if ref[1] is not None else None, py.day if ref[2] is not None else None,
                   py.hour if ref[3] is not None else None, py.minute if ref[4] is not None else None,
                   Fraction(py.second) + Fraction(micro, 10 ** 6) if ref[5] is not None else None, tz_minutes(py))
        except Exception as e:                              # noqa
            return 'not a date/time object: %r' % (e,)
        st = D.judge(version, name, text, NSMAP)
        sv = st[2] if st[0] == 'valid' else None
        if got == ref[1:] and sv == ref:
            return None
        if st[0] == 'open':
            return 'open:' + st[2]
        if frac_digits_of_seconds(norm) > 3 and ref[5] is not None and got[:4] == ref[1:5] and got[5] == ref[6] \
                and abs(got[4] - ref[5]) < Fraction(1, 1000) and sv is not None and sv[0] == ref[0]:
            return 'open:fractional seconds beyond three digits'
        return 'expected fields %r, got %r / %r' % (ref, got, text)
    return 'unknown family'


def lib_equal(a, b):
    if isinstance(a, float) and isinstance(b, float):
        return (a != a and b != b) or (a == b and math.copysign(1, a) == math.copysign(1, b))
    if type(a) is not type(b):
        return False
    if isinstance(a, list):
        return len(a) == len(b) and all(lib_equal(x, y) for x, y in zip(a, b))
    try:
        return bool(a == b)
    except Exception:                                       # noqa
        return False


# --- one case ---------------------------------------------------------------------------------

DEC_TYPED = {'datetime_types': True, 'binary_types': True}


def channel_decode(schema, xtype, doc, ch, raw, wrap, ns, typed):
    kw = {'namespaces': ns} if ns else {}
    if ch == 'type':
        st, res = call(lambda: xtype.decode(raw, **kw))
    else:
        if typed:
            kw.update(DEC_TYPED)
        st, res = call(lambda: schema.decode(doc, **kw))
        if st == 'ok':
            res = pick(res, ch, wrap)
    return st, res


def channel_encode(schema, xtype, ch, value, wrap, ns):
    """Returns ('ok', text) of the encoded value."""
    kw = {'namespaces': ns} if ns else {}
    if ch == 'type':
        return call(lambda: xtype.encode(value, **kw))
    if ch == 'elem':
        st, res = call(lambda: schema.encode(value, path='e', **kw))
        if st == 'ok':
            res = res.text if res is not None else None
            res = '' if res is None else res
        return st, res
    st, res = call(lambda: schema.encode({'@v': value}, path='a', **kw))
    if st == 'ok':
        res = res.get('v') if res is not None else None
    return st, res


def judge_case(version, name, raw, schema=None, ref_judge=None, wrap=None, deep=True):
    """Evaluates one (version, builtin or derived type, text).  Returns (discs, info).
    `schema`/`ref_judge` are given for derived types (facets, lists, unions)."""
    info = {'calls': 0, 'outcome': None, 'open': []}
    discs = []
    builtin = schema is None
    if builtin:
        schema = builtin_schema(version, name)
        wrap = needs_ids(name)
    ns = NSMAP if (name in ('QName', 'NOTATION') or not builtin) else None
    status, norm, ref = ref_judge(raw) if ref_judge else D.judge(version, name, raw, NSMAP)
    base = 'C02|%s|%s|%s' % (version, name, jkey(raw))
    obs, edoc, adoc, xtype = observe_verdicts(schema, name, raw, wrap, ns)
    info['calls'] += obs.calls

    if obs.crash:
        kinds = sorted(set(v.split(':')[0] for v in obs.crash.values()))
        discs.append(('%s|escaped %s[%s]' % (base, ','.join(kinds), ','.join(sorted(obs.crash))),
                      'validating %r as xs:%s (%s) raises %s instead of giving a verdict (reference: %s)'
                      % (raw, name, version, '; '.join(sorted(set(obs.crash.values()))), status)))
    if builtin and name == 'anyURI' and version == '1.0' and status == 'valid' and norm not in ('', 'a'):
        status_v = 'open'
        info['open'].append('XSD 1.0 anyURI lexical space')
    else:
        status_v = status
    acc = sorted(c for c, v in obs.verdict.items() if v)
    rej = sorted(c for c, v in obs.verdict.items() if not v)
    if status_v == 'valid' and rej:
        discs.append(('%s|rejected[%s]' % (base, ','.join(rej)),
                      '%r is a valid xs:%s (%s), normalised %r, but is rejected through %s'
                      % (raw, name, version, norm, ', '.join(rej))))
    elif status_v == 'invalid' and acc:
        discs.append(('%s|accepted[%s]' % (base, ','.join(acc)),
                      '%r is not a valid xs:%s (%s): %s; but it is accepted through %s'
                      % (raw, name, version, ref, ', '.join(acc))))
    elif status_v == 'open':
        if status == 'open':
            info['open'].append(ref)
        if acc and rej:
            discs.append(('%s|channels disagree[acc=%s]' % (base, ','.join(acc)),
                          'verdict for %r as xs:%s (%s) differs between channels: accepted by %s, rejected by %s'
                          % (raw, name, version, acc, rej)))

    if status == 'invalid' and not acc and deep:
        # a rejected text must be reported as a validation error by decode() as well
        st, res = channel_decode(schema, xtype, None, 'type', raw, wrap, ns, False)
        info['calls'] += 1
        if st == 'crash':
            discs.append(('%s|decode escaped %s[type]' % (base, res.split(':')[0]),
                          'decoding the invalid text %r as xs:%s (%s) raises %s' % (raw, name, version, res)))
        elif st == 'ok':
            discs.append(('%s|decode accepted[type]' % base,
                          'is_valid() rejects %r as xs:%s (%s) but strict decode() returns %r'
                          % (raw, name, version, res)))

    if status == 'valid' and acc:
        fam = D.family(name) if builtin else None
        typed_needed = builtin and (fam in D.DATE_FAMILIES or fam in ('duration', 'hexBinary', 'base64Binary'))
        bad = {}            # kind -> {tag: detail}
        for ch in acc:
            doc = edoc if ch == 'elem' else adoc
            for typed in ((False, True) if (typed_needed and ch != 'type') else (False,)):
                st, val = channel_decode(schema, xtype, doc, ch, raw, wrap, ns, typed)
                info['calls'] += 1
                tag = ch + ('+typed' if typed else '')
                if st != 'ok':
                    bad.setdefault('decode failed', {})[tag] = '%s %s' % ('raises' if st == 'crash' else 'reports', val)
                    continue
                if ref_judge is not None:
                    why = ref_judge.denotes(val, ref, norm, ch)
                else:
                    why = denotes(version, name, val, ref, norm, ch)
                if why and why.startswith('open:'):
                    info['open'].append(why[5:])
                elif why:
                    bad.setdefault('value', {})[tag] = 'gives %r: %s' % (val, why)
                    continue
                if not deep or val is None:
                    continue
                # round trip: decode(encode(decode(t))) == decode(t)
                st2, text = channel_encode(schema, xtype, ch, val, wrap, ns)
                info['calls'] += 1
                if st2 != 'ok' or text is None:
                    if ch == 'type' and fam in ('QName', 'NOTATION'):
                        # a QName decoded by the bare type is the expanded name; whether the type must encode that
                        # form back is not settled by the statement: counted, not judged
                        info['open'].append('type-level QName encode of an expanded name')
                        continue
                    bad.setdefault('encode failed', {})[tag] = 'decoded value %r cannot be encoded: %s' % (val, text)
                    continue
                e2, a2 = make_docs(name, text, wrap)
                st3, val2 = channel_decode(schema, xtype, e2 if ch == 'elem' else a2, ch, text, wrap, ns, typed)
                info['calls'] += 1
                if st3 == 'ok' and val2 is None and ch == 'elem' and text == '':
                    info['open'].append('empty element decoded as None')
                elif st3 != 'ok' or not lib_equal(val, val2):
                    bad.setdefault('roundtrip', {})[tag] = ('decodes to %r, which encodes to %r, which decodes to %r'
                                                            % (val, text, val2 if st3 == 'ok' else (st3, val2)))
        for kind, tags in sorted(bad.items()):
            discs.append(('%s|%s[%s]' % (base, kind, ','.join(sorted(tags))),
                          'xs:%s (%s), text %r: %s' % (name, version, raw, '; '.join(
                              'through %s %s' % (t, d) for t, d in sorted(tags.items())))[:900]))
    info['outcome'] = '%s:%s' % (status_v if status_v != 'invalid' else ('invalid-' + ('lexical' if ref == 'not in the lexical space' else 'value')),
                                 'disc' if discs else ('accepted' if acc and not rej else 'rejected' if rej and not acc else 'mixed'))
    return discs, info


# --- derived types: restrictions, lists, unions --------------------------------------------------

def B(name):
    return ('builtin', name)


def R(base, *facets):
    return ('restrict', base, tuple(facets))


def tuplify(x):
    if isinstance(x, list):
        return tuple(tuplify(y) for y in x)
    return x


def show_model(t):
    if t[0] == 'builtin':
        return t[1]
    if t[0] == 'list':
        return 'list(%s)' % show_model(t[1])
    if t[0] == 'union':
        return 'union(%s)' % ','.join(show_model(m) for m in t[1])
    return '%s{%s}' % (show_model(t[1]), ','.join(
        '%s=%s' % (k, '/'.join(v) if isinstance(v, tuple) else v) for k, v in t[2]))


def facet_xml(k, v):
    vals = v if isinstance(v, tuple) else (v,)
    return ''.join('<xs:%s value=%s/>' % (k, quoteattr(str(x))) for x in vals)


def simple_type_xml(t, name=None):
    nm = ' name="%s"' % name if name else ''
    if t[0] == 'builtin':
        return '<xs:simpleType%s><xs:restriction base="xs:%s"/></xs:simpleType>' % (nm, t[1])
    if t[0] == 'restrict':
        facets = ''.join(facet_xml(k, v) for k, v in t[2])
        if t[1][0] == 'builtin':
            return '<xs:simpleType%s><xs:restriction base="xs:%s">%s</xs:restriction></xs:simpleType>' % (nm, t[1][1], facets)
        return '<xs:simpleType%s><xs:restriction>%s%s</xs:restriction></xs:simpleType>' % (nm, simple_type_xml(t[1]), facets)
    if t[0] == 'list':
        if t[1][0] == 'builtin':
            return '<xs:simpleType%s><xs:list itemType="xs:%s"/></xs:simpleType>' % (nm, t[1][1])
        return '<xs:simpleType%s><xs:list>%s</xs:list></xs:simpleType>' % (nm, simple_type_xml(t[1]))
    members = t[1]
    k = 0
    while k < len(members) and members[k][0] == 'builtin':
        k += 1
    # XSD Part 2, 4.1.2.3: the member types are those of the memberTypes attribute, in order, followed by
    # the <simpleType> children, in order
    attr = ' memberTypes="%s"' % ' '.join('xs:' + m[1] for m in members[:k]) if k else ''
    return '<xs:simpleType%s><xs:union%s>%s</xs:union></xs:simpleType>' % (
        nm, attr, ''.join(simple_type_xml(m) for m in members[k:]))


def denotes_model(version, t, py, ref, norm, ch):
    r = D.root(t)
    if r[0] == 'builtin':
        return denotes(version, r[1], py, ref, norm, ch)
    if r[0] == 'union':
        return denotes_model(version, r[1][ref[0]], py, ref[1], norm, ch)
    if py is None and not ref and ch == 'elem':
        return 'open:empty element decoded as None'
    if not isinstance(py, list) or len(py) != len(ref):
        return 'expected a list of %d items' % len(ref)
    toks = norm.split(' ') if norm else []
    for x, y, tok in zip(py, ref, toks):
        why = denotes_model(version, r[1], x, y, tok, 'item')
        if why:
            return why
    return None


class RefJudge:
    def __init__(self, version, model):
        self.version = version
        self.model = model

    def __call__(self, raw):
        return D.evaluate(self.version, self.model, raw, NSMAP)

    def denotes(self, val, ref, norm, ch):
        return denotes_model(self.version, self.model, val, ref, norm, ch)


def build_model_schema(version, model):
    try:
        return VERSIONS[version](type_schema_text(simple_type_xml(model, 'T') + '\n', 'T')), None
    except XMLSchemaException as e:
        return None, str(getattr(e, 'message', None) or e)[:160]


def facet_sets(tier, version, base):
    """Facet assignments for one base type: lists of derivation steps, each a tuple of (kind, value)."""
    pool, _ = CAT.FACETS[base]
    kinds = CAT.facet_kinds(version, base)
    maxsize = 2 if tier == 'quick' else 3
    singles = [(k, v) for k in kinds for v in pool[k]]
    for f in singles:
        yield (f,),
    for size in range(2, maxsize + 1):
        for ks in itertools.combinations(kinds, size):
            if any(x <= set(ks) for x in CAT.EXCLUSIVE):
                continue
            for vs in itertools.product(*(pool[k] for k in ks)):
                fs = tuple(zip(ks, vs))
                yield (fs,)                                   # one derivation step
                if size == 2:                                 # two steps, both orders
                    yield ((fs[0],), (fs[1],))
                    yield ((fs[1],), (fs[0],))
    for k in kinds:                                           # the same facet at two levels
        for v1, v2 in itertools.permutations(pool[k], 2):
            yield (((k, v1),), ((k, v2),))


def model_of(base, steps):
    t = B(base)
    for fs in steps:
        t = ('restrict', t, tuple(fs))
    return t


def list_union_models(tier, version):
    """(model, candidates) for lists and unions."""
    small = R(B('integer'), ('maxInclusive', '5'))
    intbool = ('union', (B('integer'), B('boolean')))
    items = {'integer': B('integer'), 'boolean': B('boolean'), 'NMTOKEN': B('NMTOKEN'), 'date': B('date'),
             'small': small, 'intbool': intbool, 'decimal': B('decimal'), 'QName': B('QName')}
    for iname, item in items.items():
        pool = CAT.LIST_ITEMS[iname]
        cands = ['']
        for n in (1, 2, 3):
            cands += [' '.join(x) for x in itertools.product(pool, repeat=n)]
        cands += ['  %s   %s ' % (pool[0], pool[1]), '%s\t%s\n%s' % (pool[0], pool[1], pool[2])]
        lst = ('list', item)
        yield lst, cands
        lens = [('length', 0), ('length', 2), ('minLength', 1), ('minLength', 2), ('maxLength', 1), ('maxLength', 2)]
        for f in lens:
            yield R(lst, f), cands
        yield R(lst, ('minLength', 1), ('maxLength', 2)), cands
        yield R(R(lst, ('minLength', 1)), ('maxLength', 2)), cands
        yield R(R(lst, ('maxLength', 2)), ('minLength', 2)), cands
        yield R(lst, ('enumeration', (pool[0] + ' ' + pool[1], pool[1]))), cands
        yield R(lst, ('pattern', ('[^ ]*',))), cands
        yield R(lst, ('pattern', ('[^ ]* [^ ]*', ''))), cands
        if tier != 'quick':
            for f1, f2 in itertools.combinations(lens, 2):
                if {f1[0], f2[0]} not in CAT.EXCLUSIVE and f1[0] != f2[0]:
                    yield R(lst, f1, f2), cands
                    yield R(R(lst, f1), f2), cands
    tok = R(B('token'), ('enumeration', ('a', '1', 'true')))
    members = [B('integer'), B('boolean'), B('date'), B('decimal'), B('double'), B('NMTOKEN'), tok, ('list', B('integer')),
               small, B('string')]
    uc = CAT.UNION_CANDIDATES
    for m1, m2 in itertools.permutations(members, 2):
        yield ('union', (m1, m2)), uc
    for ms in ((B('boolean'), B('integer'), B('date')), (small, B('boolean'), B('decimal')), (tok, B('double'), B('string'))):
        for perm in itertools.permutations(ms):
            yield ('union', perm), uc
    u = ('union', (B('integer'), B('boolean'), B('NMTOKEN')))
    yield R(u, ('enumeration', ('1', 'true', 'a'))), uc
    yield R(u, ('enumeration', ('01', '0'))), uc
    yield R(('union', (B('boolean'), B('integer'))), ('enumeration', ('1', '2'))), uc
    yield R(u, ('pattern', ('[a1].*',))), uc
    yield ('union', (('union', (B('date'), B('integer'))), B('boolean'))), uc
    yield ('list', ('union', (B('boolean'), B('integer')))), ['1 true 2', 'true 1', '2 x', '']
    for m in BUILTIN_LISTS:
        yield m, ['', ' ', 'a', 'a b', ' a  b\tc ', 'a a', '1 2', 'a:b', 'a #', '-a', 'a\u00a0b']
    note = R(B('NOTATION'), ('enumeration', ('a:n', 'm')))
    yield note, ['a:n', 'm', 'a:m', 'n', 'x:n', ' a:n ', 'a:n m']


FACET_CHUNK = 60


def facet_work(tier, version, base):
    if base == '*':
        return list(list_union_models(tier, version))
    _, cands = CAT.FACETS[base]
    return [(model_of(base, steps), cands) for steps in facet_sets(tier, version, base)]


def facet_shards(tier, seed):
    out = []
    for version in ('1.0', '1.1'):
        for base in CAT.facet_bases(version) + ['*']:
            n = len(facet_work(tier, version, base))
            for lo in range(0, n, FACET_CHUNK):
                out.append(('facet', tier, seed, version, base, lo, min(lo + FACET_CHUNK, n)))
        out.append(('opt', tier, seed, version))
    return out


def notation_decl(model):
    return '<xs:notation name="n" public="n"/><xs:notation name="m" public="m"/>\n' if 'NOTATION' in show_model(model) else ''


_MODEL_SCHEMAS = {}
# the three built-in list types are checked as the models that define them
BUILTIN_LISTS = {R(('list', B(item)), ('minLength', 1)): name
                 for name, item in (('NMTOKENS', 'NMTOKEN'), ('IDREFS', 'IDREF'), ('ENTITIES', 'ENTITY'))}


def model_schema(version, model):
    """Schema for a derived type (cached), or None when the library refuses the definition."""
    key = (version, model)
    if key not in _MODEL_SCHEMAS:
        if len(_MODEL_SCHEMAS) > 400:
            _MODEL_SCHEMAS.clear()
        if model in BUILTIN_LISTS:
            text = type_schema_text('', 'xs:' + BUILTIN_LISTS[model])
        else:
            text = type_schema_text(notation_decl(model) + simple_type_xml(model, 'T') + '\n', 'T')
        if 'NOTATION' in show_model(model):
            text = text.replace('<xs:schema ', '<xs:schema targetNamespace="urn:a" ', 1).replace('type="T"', 'type="a:T"')
        try:
            _MODEL_SCHEMAS[key] = VERSIONS[version](text)
        except XMLSchemaException:
            _MODEL_SCHEMAS[key] = None
    return _MODEL_SCHEMAS[key]


def model_case(version, model, raw):
    schema = model_schema(version, model)
    if schema is None:
        return None, None
    return judge_case(version, show_model(model), raw, schema=schema, ref_judge=RefJudge(version, model),
                      wrap=BUILTIN_LISTS.get(model) == 'IDREFS', deep=False)


def single_facet_submodels(model):
    """For a restriction chain over a builtin with more than one facet: its one-facet restrictions."""
    facets = []
    t = model
    while t[0] == 'restrict':
        facets = list(t[2]) + facets
        t = t[1]
    if t[0] != 'builtin' or len(facets) < 2:
        return []
    return [R(t, f) for f in facets]


def kind_of(key):
    return key.rsplit('|', 1)[1].split('[')[0]


def minimal_cases(version, model, raw, discs):
    """Report a discrepancy under the smallest sub-model that already shows it (simplest first)."""
    out = []
    subs = single_facet_submodels(model)
    for key, what in discs:
        hit = None
        for sub in subs:
            d2, _ = model_case(version, sub, raw)
            for k2, w2 in (d2 or []):
                if kind_of(k2) == kind_of(key):
                    hit = (k2, w2, {'kind': 'derived', 'version': version, 'model': sub, 'raw': raw})
                    break
            if hit:
                break
        out.append(hit or (key, what, {'kind': 'derived', 'version': version, 'model': model, 'raw': raw}))
    return out


def run_model(acc, version, model, cands, dfas):
    mname = show_model(model)
    schema = model_schema(version, model)
    acc.st(traces=1)
    if schema is None:
        acc.cnt('schema refused by the library (not judged)')
        acc.out('derived:refused')
        return
    rj = RefJudge(version, model)
    for raw in cands:
        with acc.guard(30):
            discs, info = judge_case(version, mname, raw, schema=schema, ref_judge=rj,
                                     wrap=BUILTIN_LISTS.get(model) == 'IDREFS', deep=False)
            found = minimal_cases(version, model, raw, discs) if discs else []
        acc.ev()
        acc.st(traces=info['calls'])
        acc.out('derived:' + info['outcome'])
        for o in info['open']:
            acc.cnt('open: ' + o.split("'")[0].strip())
        acc.nt('%s|%s|%s' % (version, mname, raw))
        for key, what, case in found:
            acc.disc(key, what, case)


def run_facet_shard(shard, acc):
    if shard[0] == 'opt':
        return run_opt_shard(shard, acc)
    _, tier, seed, version, base, lo, hi = shard
    work = facet_work(tier, version, base)[lo:hi]
    D._DFAS.clear()                       # fresh automata: the counts below belong to this shard alone
    D._PAT.clear()
    for i, (model, cands) in enumerate(work):
        run_model(acc, version, model, cands, None)
        if i == 0 and lo == 0:
            acc.sample({'space': 'facet', 'version': version, 'model': show_model(model), 'candidates': len(cands)})
    acc.st(states=sum(len(d.states) for d in D._DFAS.values()) + sum(len(d.states) for d in D._PAT.values()),
           transitions=sum(len(d.trans) for d in D._DFAS.values()) + sum(len(d.trans) for d in D._PAT.values()))


OPT_TYPES = ('decimal', 'integer', 'double', 'boolean', 'dateTime', 'date', 'time', 'gYear', 'duration', 'hexBinary',
             'base64Binary', 'token')


def run_opt_shard(shard, acc):
    """Decode options: every combination of decimal_type x datetime_types x binary_types on valid catalogue forms."""
    _, tier, seed, version = shard
    for name in OPT_TYPES:
        for raw in CAT.catalogue(version, name):
            status, norm, ref = D.judge(version, name, raw, NSMAP)
            if status != 'valid':
                continue
            for dt, dtypes, btypes in itertools.product((None, str, float), (False, True), (False, True)):
                with acc.guard(30):
                    discs = opt_case(version, name, raw, dt, dtypes, btypes)
                acc.ev()
                acc.st(traces=2)
                acc.out('opt:' + ('disc' if discs else 'agree'))
                acc.nt('%s|opt|%s|%s|%s%s%s' % (version, name, norm, dt and dt.__name__, dtypes, btypes))
                case = {'kind': 'opt', 'version': version, 'type': name, 'raw': raw,
                        'decimal_type': dt and dt.__name__, 'datetime_types': dtypes, 'binary_types': btypes}
                for key, what in discs:
                    acc.disc(key, what, case)


def opt_case(version, name, raw, dt, dtypes, btypes):
    schema = builtin_schema(version, name)
    fam = D.family(name)
    status, norm, ref = D.judge(version, name, raw, NSMAP)
    edoc, adoc = make_docs(name, raw, False)
    kw = {'datetime_types': dtypes, 'binary_types': btypes}
    if dt is not None:
        kw['decimal_type'] = dt
    bad = {}
    for ch, doc in (('elem', edoc), ('attr', adoc)):
        st, val = call(lambda: pick(schema.decode(doc, **kw), ch, False))
        if st != 'ok':
            bad[ch] = 'decode %s: %s' % (st, val)
            continue
        why = None
        if fam == 'decimal' and name not in D.INT_RANGES and dt is not None:
            if dt is str:
                ok = isinstance(val, str) and Fraction(Decimal(val)) == ref
            else:
                ok = type(val) is float and val == ref.numerator / ref.denominator
            why = None if ok else 'expected the decimal %s as %s' % (ref, dt.__name__)
        else:
            typed = (fam in D.DATE_FAMILIES or fam == 'duration') and dtypes or (fam in ('hexBinary', 'base64Binary') and btypes)
            if fam in D.DATE_FAMILIES or fam in ('duration', 'hexBinary', 'base64Binary'):
                if val is None and norm == '' and ch == 'elem':
                    continue
                if typed == isinstance(val, str):
                    why = 'expected %s' % ('a typed object' if typed else 'the normalised text')
            why = why or denotes(version, name, val, ref, norm, ch)
            if why and why.startswith('open:'):
                why = None
        if why:
            bad[ch] = 'gives %r: %s' % (val, why)
    if not bad:
        return []
    opts = 'decimal_type=%s,datetime_types=%s,binary_types=%s' % (dt and dt.__name__, dtypes, btypes)
    return [('C02|%s|%s|%s|options(%s)[%s]' % (version, name, jkey(raw), opts, ','.join(sorted(bad))),
             'xs:%s (%s), text %r decoded with %s: %s' % (name, version, raw, opts, '; '.join(
                 'through %s %s' % kv for kv in sorted(bad.items()))))]


def replay_facet(case):
    if case['kind'] == 'opt':
        dt = {'str': str, 'float': float, None: None}[case['decimal_type']]
        return opt_case(case['version'], case['type'], case['raw'], dt, case['datetime_types'], case['binary_types'])
    discs, _ = model_case(case['version'], tuplify(case['model']), case['raw'])
    return discs or []


# --- enumeration ------------------------------------------------------------------------------

def strings_upto(alpha, n):
    yield ''
    for k in range(1, n + 1):
        for t in itertools.product(alpha, repeat=k):
            yield ''.join(t)


def lex_len(tier):
    return 4 if tier == 'quick' else 5


def lex_strings(tier, seed, version, name, part, nparts):
    """Strings of the lex space of one shard: first symbol index % nparts == part ('' in part 0)."""
    alpha = CAT.alphabet(name)
    L = lex_len(tier)
    if part == 0:
        yield ''
    for i, first in enumerate(alpha):
        if i % nparts != part:
            continue
        yield first
        for k in range(1, L):
            for t in itertools.product(alpha, repeat=k):
                yield first + ''.join(t)
        if tier == 'quick':
            for t in itertools.product(alpha, repeat=L):
                s = first + ''.join(t)
                if in_slice('%s|%s|%s' % (version, name, s), seed, K_SLICE):
                    yield s


def mutants(form, alpha):
    seen = {form}
    for i in range(len(form) + 1):
        for c in alpha:
            s = form[:i] + c + form[i:]
            if s not in seen:
                seen.add(s)
                yield s
    for i in range(len(form)):
        s = form[:i] + form[i + 1:]
        if s not in seen:
            seen.add(s)
            yield s
        for c in alpha:
            s = form[:i] + c + form[i + 1:]
            if s not in seen:
                seen.add(s)
                yield s


def cat_strings(tier, version, name):
    out = []
    seen = set()
    alpha = CAT.alphabet(name)
    forms = CAT.catalogue(version, name)
    for i, f in enumerate(forms):
        for s in ((f, ' ' + f, f + '\n', '\t' + f + ' \r', CAT.NBSP + f, f + CAT.NBSP, f + '\u2028') if i < 6 else (f,)):
            if s not in seen:
                seen.add(s)
                out.append(s)
    for f in CAT.seeds(version, name):
        for s in mutants(f, alpha):
            if s not in seen:
                seen.add(s)
                out.append(s)
    return out


def nparts_for(tier, name):
    n = len(CAT.alphabet(name))
    if tier == 'quick':
        return 4 if n >= 10 else 2
    return n


def shards(tier, seed):
    out = []
    for version in ('1.0', '1.1'):
        for name in D.type_names(version):
            if name == 'NOTATION':
                continue
            n = nparts_for(tier, name)
            for part in range(n):
                out.append(('lex', tier, seed, version, name, part, n))
            out.append(('cat', tier, seed, version, name))
    out.extend(facet_shards(tier, seed))
    # heaviest first so the pool drains evenly
    out.sort(key=lambda s: (0 if s[0] == 'lex' else 1))
    return out


def count_reference(acc, version, name, strings):
    """Walk the reference DFA over all strings of a space: states / transitions are measured."""
    d = D.Dfa(D.lexical_regex(version, name))
    ws = D.white_space(name)
    for s in strings:
        d.accepts(D.normalize(ws, s))
    acc.st(states=len(d.states), transitions=len(d.trans))


def nontrivial(version, name, norm, status):
    if status == 'valid':
        return True
    d = D.dfa(version, name)
    state = d.start
    for ch in norm[:-1]:
        state = d.step(state, ch)
        if state == D.NUL:
            return False
    return True


def run_strings(acc, kind, version, name, strings, deep=True):
    sampled = 0
    for raw in strings:
        with acc.guard(30):
            discs, info = judge_case(version, name, raw, deep=deep)
        acc.ev()
        acc.st(traces=info['calls'])
        acc.out(info['outcome'])
        for o in info['open']:
            acc.cnt('open: ' + o)
        norm = D.normalize(D.white_space(name), raw)
        if nontrivial(version, name, norm, info['outcome'].split(':')[0]):
            acc.nt('%s|%s|%s' % (version, name, norm))
            if not discs and sampled < 1 and info['outcome'].startswith('valid') and len(raw) >= 3:
                sampled += 1
                acc.sample({'space': kind, 'version': version, 'type': name, 'text': raw,
                            'reference': D.judge(version, name, raw, NSMAP)[0], 'outcome': info['outcome']})
        case = {'kind': 'builtin', 'version': version, 'type': name, 'raw': raw}
        for key, what in discs:
            if len(acc.discs) < MAX_DISCS_PER_SHARD:
                acc.disc(key, what, case)
            else:
                acc.cnt('discrepancies beyond the first %d of a shard (not listed)' % MAX_DISCS_PER_SHARD)


def run_shard(shard, acc):
    kind = shard[0]
    if kind == 'lex':
        _, tier, seed, version, name, part, nparts = shard
        if part == 0:
            count_reference(acc, version, name,
                            itertools.chain.from_iterable(lex_strings(tier, seed, version, name, p, nparts)
                                                          for p in range(nparts)))
        run_strings(acc, 'lex', version, name, lex_strings(tier, seed, version, name, part, nparts))
    elif kind == 'cat':
        _, tier, seed, version, name = shard
        strings = cat_strings(tier, version, name)
        count_reference(acc, version, name, strings)
        run_strings(acc, 'cat', version, name, strings)
    else:
        run_facet_shard(shard, acc)


def replay(case):
    if case.get('kind') == 'builtin':
        discs, _ = judge_case(case['version'], case['type'], case['raw'])
        return discs
    return replay_facet(case)


def bounds(tier, seed):
    return {
        'size': 'lex: all strings of length <= %d over the per-type alphabet%s; cat: every catalogue form (the first six '
                'of each type also wrapped in XSD and non-XSD whitespace) + all edit-distance-1 neighbours of the seed '
                'forms; facets: per base type every facet set of the pool up to the size below in one step, every '
                '2-facet set also split over two steps in both orders, every facet repeated at two levels; lists of 8 '
                'item types x 0-3 items x 12-27 facet variants + NMTOKENS/IDREFS/ENTITIES; unions: every ordered pair '
                'of 10 member types, 18 triples, restrictions of unions; options: 12 combinations x valid catalogue '
                'forms of 12 types'
                % (lex_len(tier), ' + 1/%d slice of length %d selected by seed %d' % (K_SLICE, lex_len(tier) + 1, seed)
                   if tier == 'quick' else ''),
        'deviations': 'facet sets of size <= %d, derivation levels <= 2' % (2 if tier == 'quick' else 3),
        'types': {v: [n for n in D.type_names(v) if n != 'NOTATION'] for v in ('1.0', '1.1')},
        'alphabets': {n: CAT.alphabet(n) for n in D.TYPES},
    }
