"""C07 - dynamic typing (xsi:type), substitution groups, xsi:nil, fixed values and XSD 1.1 type alternatives
obey the derivation, block and abstract rules.

Enumerated completely inside the bound:
  type graph   declared type D plus N <= 3 named types below it (every rooted tree up to isomorphism), every edge
               extension | restriction, content kind EO (element-only), SC (complex, simple content), ST (D simple;
               a restriction of a simple type is simple, everything else is complex with simple content)
  flags        every set of <= DEV atomic deviations from the plain schema (see atomic_flags)
  instances    for every element position/name of the schema the product xsi:type x xsi:nil x content (x @k when
               the head has type alternatives) described in instances()
Every instance is a trace of the reference model mc/ref/derivation.py (cvc-elt, cos-ct-derived-ok, cos-st-derived-ok,
cos-equiv-derived-ok transcribed) replayed on the library with schema.is_valid(document text).
"""
import itertools
from collections import defaultdict

from xmlschema import XMLSchema10, XMLSchema11, XMLSchemaException

from mc.core.runner import CaseTimeout, in_slice
from mc.ref import derivation as R
from mc.ref.derivation import EXT, RES, SUB

ID = 'C07'
TITLE = 'Dynamic typing, substitution and nil obey derivation, block and abstract rules'
RULE = ('every rooted tree of <= 3 named types below the declared type D x edge kind {extension, restriction} x '
        'content kind {element-only, simple-content, simple} x every set of <= DEV atomic flags (abstract per complex '
        'type, block keywords on D / head element / blockDefault incl. explicit empty, head abstract / not nillable / '
        'fixed, member M1 (any type) and M2 under M1, member abstract, 1.1: <= 2 tested alternatives + default) x '
        'XSD 1.0 / 1.1 x every instance of the per-schema product (position/name x xsi:type x xsi:nil x content x @k); '
        'non-trivial = distinct (version, kind, tree, flags, position/name, reference reason, library verdict)')
ASSUMPTIONS = [
    'block on intermediate types is not judged: where honouring it (cos-equiv-derived-ok 2.3) changes the verdict '
    'the case is counted as contested and skipped',
    'xsi:type on a substitution-group member is judged against the member declaration (cvc-elt 4.3); where applying '
    "the head's block to it as well changes the verdict the case is counted as contested and skipped",
    'XSD 1.1 xsi:type together with a selected type alternative: judged only where blocking relative to the selected '
    'type and relative to the declared type agree',
    'a nilled element whose selected type is xs:error is not judged (cvc-type 3.1.3 exempts nilled elements)',
    'schemas the library refuses are counted, not judged; schemas whose alternative type is not substitutable for '
    'the declared type under the element block (e-props-correct 7) are not judged',
    'no final / finalDefault, no list or union types, no mixed content, no default values; the plain schema has a '
    'nillable head H and a nillable first member M1 (the deviation is h:not-nillable), M2 and U are not nillable; '
    'members carry no block / fixed of their own (they inherit blockDefault)',
    'the three unusable xsi:type spellings (unknown name, unbound prefix, built-in ancestor) and the nil spellings '
    "'1' and 'junk' are combined with a reduced part of the other dimensions (see instances())",
]
BUDGET_S = {'quick': 1500, 'thorough': 7200}

TNS = 'urn:t'
XSI = 'http://www.w3.org/2001/XMLSchema-instance'
XSD = 'http://www.w3.org/2001/XMLSchema'
NSMAP = {'t': TNS, 'xsi': XSI, 'xs': XSD}
XMLNS = 'xmlns:t="urn:t" xmlns:xsi="%s" xmlns:xs="%s"' % (XSI, XSD)
VERSIONS = {'1.0': XMLSchema10, '1.1': XMLSchema11}
KINDS = ('EO', 'SC', 'ST')
FIXED = '1'
SLICE_K = 24


# --- type graphs ----------------------------------------------------------------------------

def canon(shape):
    kids = defaultdict(list)
    for i, (p, m) in enumerate(shape, 1):
        kids[p].append((m, i))

    def enc(i):
        return '(' + ''.join(sorted(m + enc(j) for m, j in kids[i])) + ')'
    return enc(0)


def shapes(n):
    """Every rooted tree with n nodes below D and edges labelled e|r, one representative per isomorphism class.
    shape = ((parent index, 'e'|'r'), ...) for T1..Tn; index 0 is D."""
    seen, out = set(), []
    for parents in itertools.product(*[range(i + 1) for i in range(n)]):
        for methods in itertools.product('er', repeat=n):
            shape = tuple(zip(parents, methods))
            c = canon(shape)
            if c not in seen:
                seen.add(c)
                out.append(shape)
    return out


def tname(i):
    return 'D' if i == 0 else 'T%d' % i


def type_table(kind, shape):
    """Per type: dict(name, base, method, complex, omin/exts or minincl/req)."""
    rows = []
    if kind == 'EO':
        rows.append(dict(name='D', base=R.ANY, method=RES, complex=True, omin=0, exts=()))
    elif kind == 'SC':
        rows.append(dict(name='D', base=R.DECIMAL, method=EXT, complex=True, minincl=None, req=()))
    else:
        rows.append(dict(name='D', base=R.DECIMAL, method=RES, complex=False, minincl=0, req=()))
    for i, (p, m) in enumerate(shape, 1):
        b = rows[p]
        row = dict(name=tname(i), base=b['name'], method=EXT if m == 'e' else RES)
        if kind == 'EO':
            row.update(complex=True, omin=b['omin'] + (m == 'r'), exts=b['exts'] + (('e%d' % i,) if m == 'e' else ()))
        else:
            row.update(complex=b['complex'] or m == 'e',
                       minincl=(b['minincl'] or 0) + 1 if m == 'r' else b['minincl'],
                       req=b['req'] + (('a%d' % i,) if m == 'e' else ()))
        rows.append(row)
    return rows


def subtree(shape, i):
    out = {i}
    for j, (p, _) in enumerate(shape, 1):
        if p in out:
            out.add(j)
    return out


# --- flags ----------------------------------------------------------------------------------

def atomic_flags(version, kind, shape):
    rows = type_table(kind, shape)
    n = len(shape)
    fl = ['abs:' + r['name'] for r in rows if r['complex']]
    if rows[0]['complex']:
        fl += ['dblk:' + EXT, 'dblk:' + RES, 'dblk:empty']
    fl += ['hblk:' + EXT, 'hblk:' + RES, 'hblk:' + SUB, 'hblk:empty', 'h:abstract', 'h:not-nillable']
    if kind != 'EO':
        fl.append('h:fixed')
    fl += ['bd:' + EXT, 'bd:' + RES, 'bd:' + SUB]
    fl += ['m1:' + tname(i) for i in range(n + 1)]
    fl += ['m2:' + tname(i) for i in range(n + 1)]
    fl += ['m1:abstract', 'm2:abstract']
    if version == '1.1' and rows[0]['complex']:
        alt_types = [tname(i) for i in range(1, n + 1)] + ['error']
        fl += ['alt1:' + t for t in alt_types]
        fl += ['alt2:%s:%s' % (q, t) for q in ('has', 'eq2') for t in alt_types]
        fl += ['altd:' + t for t in alt_types]
    return fl


def flag_value(flags, prefix):
    for f in flags:
        if f.startswith(prefix) and f[len(prefix):] != 'abstract':
            return f[len(prefix):]
    return None


def consistent(flags, shape):
    fs = set(flags)
    for grp in ('dblk:', 'hblk:'):
        if grp + 'empty' in fs and any(f.startswith(grp) and f != grp + 'empty' for f in fs):
            return False
    for grp in ('m1:', 'm2:', 'alt1:', 'alt2:', 'altd:'):
        if sum(1 for f in fs if f.startswith(grp) and not f.endswith(':abstract')) > 1:
            return False
    m1, m2 = flag_value(flags, 'm1:'), flag_value(flags, 'm2:')
    if m2 is not None:
        if m1 is None:
            return False
        idx = lambda t: 0 if t == 'D' else int(t[1:])
        if idx(m2) not in subtree(shape, idx(m1)):
            return False
    if 'm1:abstract' in fs and m1 is None or 'm2:abstract' in fs and m2 is None:
        return False
    if flag_value(flags, 'alt2:') is not None and flag_value(flags, 'alt1:') is None:
        return False
    return True


def flag_sets(version, kind, shape, maxdev):
    atoms = atomic_flags(version, kind, shape)
    for d in range(maxdev + 1):
        for combo in itertools.combinations(atoms, d):
            if consistent(combo, shape):
                yield combo


# --- schema model: reference objects + XSD text ------------------------------------------------

def block_attr(keys, allowed):
    keys = [k for k in allowed if k in keys]
    if len(keys) == len(allowed):
        return '#all'
    return ' '.join(keys)


def build_model(version, kind, shape, flags):
    """Returns dict(g, elems, xsd, names, rows, alts) for one point of the schema space."""
    fs = set(flags)
    rows = type_table(kind, shape)
    bd = {k for k in (EXT, RES, SUB) if 'bd:' + k in fs}
    has_k = rows[0]['complex']
    g = R.builtins()
    parts = []
    for r in rows:
        name = r['name']
        attrs = ''
        block = set()
        if r['complex']:
            block = bd & {EXT, RES}
            if 'abs:' + name in fs:
                attrs += ' abstract="true"'
            if name == 'D':
                explicit = {k for k in (EXT, RES) if 'dblk:' + k in fs}
                if explicit or 'dblk:empty' in fs:
                    block = explicit
                    attrs += ' block="%s"' % block_attr(explicit, (EXT, RES))
        base = r['base'] if r['base'].startswith('xs:') else 't:' + r['base']
        method = r['method']
        if kind == 'EO':
            content = ('eo', r['omin'], 3, r['exts'], has_k)
            seq = '<xs:element name="o" type="xs:string" minOccurs="%d" maxOccurs="3"/>' % r['omin']
            if name == 'D':
                body = '<xs:sequence>%s</xs:sequence><xs:attribute name="k" type="xs:string"/>' % seq
            elif method == EXT:
                body = ('<xs:complexContent><xs:extension base="%s"><xs:sequence><xs:element name="%s" '
                        'type="xs:string"/></xs:sequence></xs:extension></xs:complexContent>' % (base, r['exts'][-1]))
            else:
                seq += ''.join('<xs:element name="%s" type="xs:string"/>' % e for e in r['exts'])
                body = ('<xs:complexContent><xs:restriction base="%s"><xs:sequence>%s</xs:sequence></xs:restriction>'
                        '</xs:complexContent>' % (base, seq))
            parts.append('<xs:complexType name="%s"%s>%s</xs:complexType>' % (name, attrs, body))
        elif r['complex']:
            content = ('sc', r['minincl'], r['req'], has_k)
            if method == EXT:
                att = '<xs:attribute name="k" type="xs:string"/>' if name == 'D' else \
                    '<xs:attribute name="%s" type="xs:string" use="required"/>' % r['req'][-1]
                body = '<xs:extension base="%s">%s</xs:extension>' % (base, att)
            else:
                body = '<xs:restriction base="%s"><xs:minInclusive value="%d"/></xs:restriction>' % (base, r['minincl'])
            parts.append('<xs:complexType name="%s"%s><xs:simpleContent>%s</xs:simpleContent></xs:complexType>'
                         % (name, attrs, body))
        else:
            content = ('st', r['minincl'])
            parts.append('<xs:simpleType name="%s"><xs:restriction base="%s"><xs:minInclusive value="%d"/>'
                         '</xs:restriction></xs:simpleType>' % (name, base, r['minincl']))
        g[name] = R.TypeDef(name, r['complex'], r['base'], method, 'abs:' + name in fs, block, content)

    # elements
    hexp = {k for k in (EXT, RES, SUB) if 'hblk:' + k in fs}
    hattrs = ''
    hblock = bd
    if hexp or 'hblk:empty' in fs:
        hblock = hexp
        hattrs += ' block="%s"' % block_attr(hexp, (EXT, RES, SUB))
    if 'h:abstract' in fs:
        hattrs += ' abstract="true"'
    if 'h:not-nillable' not in fs:
        hattrs += ' nillable="true"'
    if 'h:fixed' in fs:
        hattrs += ' fixed="%s"' % FIXED
    alts, altx = [], ''
    tests = {'eq1': ("@k='1'", ('eq', 'k', '1')), 'eq2': ("@k='2'", ('eq', 'k', '2')), 'has': ('@k', ('has', 'k'))}
    a1, a2, ad = flag_value(flags, 'alt1:'), flag_value(flags, 'alt2:'), flag_value(flags, 'altd:')
    for test, t in (('eq1', a1),) + ((tuple(a2.split(':')),) if a2 else ()) + ((None, ad),):
        if t is None:
            continue
        ref_t = R.ERROR if t == 'error' else t
        xsd_t = 'xs:error' if t == 'error' else 't:' + t
        if test is None:
            alts.append((None, ref_t))
            altx += '<xs:alternative type="%s"/>' % xsd_t
        else:
            alts.append((tests[test][1], ref_t))
            altx += '<xs:alternative test="%s" type="%s"/>' % (tests[test][0], xsd_t)
    elems = {'H': R.ElemDecl('H', 'D', 'h:abstract' in fs, 'h:not-nillable' not in fs, FIXED if 'h:fixed' in fs else None,
                             hblock, None, alts)}
    parts.append('<xs:element name="H" type="t:D"%s>%s</xs:element>' % (hattrs, altx))
    names = ['H']
    m1, m2 = flag_value(flags, 'm1:'), flag_value(flags, 'm2:')
    for mname, mt, head in (('M1', m1, 'H'), ('M2', m2, 'M1')):
        if mt is None:
            continue
        ab = mname.lower() + ':abstract' in fs
        nillable = mname == 'M1'
        elems[mname] = R.ElemDecl(mname, mt, ab, nillable, None, bd, head, ())
        parts.append('<xs:element name="%s" type="t:%s" substitutionGroup="t:%s"%s%s/>'
                     % (mname, mt, head, ' abstract="true"' if ab else '', ' nillable="true"' if nillable else ''))
        names.append(mname)
    elems['U'] = R.ElemDecl('U', 'D', False, False, None, bd, None, ())
    parts.append('<xs:element name="U" type="t:D"/>')
    for wname, ref in (('w', 'H'), ('w1', 'M1')):
        if ref in elems:
            parts.append('<xs:element name="%s"><xs:complexType><xs:sequence><xs:element ref="t:%s"/></xs:sequence>'
                         '</xs:complexType></xs:element>' % (wname, ref))
    head = ('<xs:schema xmlns:xs="%s" targetNamespace="urn:t" xmlns:t="urn:t" elementFormDefault="qualified"%s>\n'
            % (XSD, ' blockDefault="%s"' % block_attr(bd, (EXT, RES, SUB)) if bd else ''))
    return dict(g=g, elems=elems, xsd=head + '\n'.join(parts) + '\n</xs:schema>', names=names, rows=rows,
                has_alts=bool(alts), fixed='h:fixed' in fs, kind=kind)


def schema_ok_by_spec(model):
    """e-props-correct (1.1) clause 7: every alternative type is substitutable for the declared type subject to
    the element's {disallowed substitutions}, or is xs:error."""
    h = model['elems']['H']
    for _, t in h.alternatives:
        if t != R.ERROR and not R.substitutable_type(model['g'], t, h.type, h.block):
            return False
    return True


# --- instances ------------------------------------------------------------------------------

def contents(model):
    """[(label, children, text, attrs)] without the @k dimension."""
    rows, kind, out, seen = model['rows'], model['kind'], [], set()

    def add(label, children, text, attrs):
        key = (tuple(children), text, tuple(sorted(attrs)))
        if key not in seen:
            seen.add(key)
            out.append((label, tuple(children), text, dict.fromkeys(attrs, 'v')))
    if kind == 'EO':
        add('empty', (), '', ())
        for r in rows:
            add('for-' + r['name'], ('o',) * r['omin'] + r['exts'], '', ())
    else:
        add('empty', (), '', ())
        for r in rows:
            add('for-' + r['name'], (), str(r['minincl'] or 0), r['req'])
        for r in rows:
            add('empty+attrs-' + r['name'], (), '', r['req'])
        if model['fixed']:
            for r in rows:
                add('fixed-other-lexical+attrs-' + r['name'], (), '01.0', r['req'])
            add('fixed-padded', (), ' 1 ', ())
    return out


def instances(model):
    """Yields (position, name, inst, label).  Per schema:
       child of w (particle H): names H and every member: FULL; U: PLAIN
       child of w1 (particle M1): names M1, M2: SHORT; H: PLAIN
       root: H: SHORT
    FULL  = xsi:type in {absent, every type} x nil in {absent,true,false} x every content
            + xsi:type in {unknown, unbound prefix, built-in ancestor} x nil in {absent,true} x first two contents
            + xsi:type absent x nil in {1, junk} x every content
    SHORT = xsi:type in {absent, every type} x nil in {absent,true} x every content
    PLAIN = no xsi attributes x first two contents
    each multiplied by @k in {absent,'1','2'} when the head has alternatives."""
    cs = contents(model)
    tnames = [r['name'] for r in model['rows']]
    xs_full = [None] + ['t:' + t for t in tnames]
    xs_err = ['t:Nope', 'u:D', 'xs:anyType' if model['kind'] == 'EO' else 'xs:decimal']
    ks = (None, '1', '2') if model['has_alts'] else (None,)
    plans = [(('child', 'H'), n, 'FULL') for n in model['names']] + [(('child', 'H'), 'U', 'PLAIN')]
    if 'M1' in model['elems']:
        plans += [(('child', 'M1'), n, 'SHORT') for n in model['names'][1:]] + [(('child', 'M1'), 'H', 'PLAIN')]
    plans.append((('root',), 'H', 'SHORT'))
    for pos, name, plan in plans:
        if plan == 'PLAIN':
            combos = [(None, None, c) for c in cs[:2]]
        else:
            nils = (None, 'true', 'false') if plan == 'FULL' else (None, 'true')
            combos = [(x, n, c) for x in xs_full for n in nils for c in cs]
            if plan == 'FULL':
                combos += [(x, n, c) for x in xs_err for n in (None, 'true') for c in cs[:2]]
                combos += [(None, n, c) for n in ('1', 'junk') for c in cs]
        for x, n, (label, children, text, attrs) in combos:
            for k in ks:
                a = dict(attrs)
                if k is not None:
                    a['k'] = k
                inst = {'xsi_type': x, 'nil': n, 'attrs': a, 'children': list(children), 'text': text}
                yield pos, name, inst, label


def document(pos, name, inst):
    a = ''
    if inst['xsi_type'] is not None:
        a += ' xsi:type="%s"' % inst['xsi_type']
    if inst['nil'] is not None:
        a += ' xsi:nil="%s"' % inst['nil']
    for k in sorted(inst['attrs']):
        a += ' %s="%s"' % (k, inst['attrs'][k])
    body = inst['text'] + ''.join('<t:%s/>' % c for c in inst['children'])
    if pos[0] == 'root':
        return '<t:%s %s%s>%s</t:%s>' % (name, XMLNS, a, body, name)
    w = 'w' if pos[1] == 'H' else 'w1'
    return '<t:%s %s><t:%s%s>%s</t:%s></t:%s>' % (w, XMLNS, name, a, body, name, w)


# --- judging --------------------------------------------------------------------------------

def expected(model, version, pos, name, inst):
    """(valid, reason, contested-tag or None)."""
    g, elems = model['g'], model['elems']
    v, why = R.assess(elems, g, pos, name, inst, NSMAP, TNS, version)
    if why == 'xs:error-selected-nilled':
        return v, why, 'contested:nilled-element-of-type-xs:error'
    if pos[0] == 'child' and name != pos[1]:
        if R.assess(elems, g, pos, name, inst, NSMAP, TNS, version, intermediates=False)[0] != v:
            return v, why, 'contested:block-on-intermediate-type'
        if inst['xsi_type'] is not None and \
                R.assess(elems, g, pos, name, inst, NSMAP, TNS, version, head_block_on_member=True)[0] != v:
            return v, why, 'contested:head-block-on-member-xsi:type'
    if version == '1.1' and inst['xsi_type'] is not None and name in elems and elems[name].alternatives:
        if R.assess(elems, g, pos, name, inst, NSMAP, TNS, version, block_from_declared=True)[0] != v:
            return v, why, 'contested:alternative+xsi:type-block-base'
    return v, why, None


def observe(schema, doc):
    try:
        return 'valid' if schema.is_valid(doc) else 'invalid'
    except Exception as e:                                              # noqa
        return 'raised:' + type(e).__name__


def flags_str(flags):
    return ','.join(flags) or '-'


def run_schema(version, kind, shape, flags, acc=None, only=None, sample=False):
    """Explores one schema completely (or the single instance `only` = (pos, name, inst)).
    Returns list of (key, what, case)."""
    discs = []
    model = build_model(version, kind, shape, flags)
    base = 'C07|%s|%s|%s|%s' % (version, kind, canon(shape), flags_str(flags))
    if not schema_ok_by_spec(model):
        if acc:
            acc.cnt('schemas_not_judged: alternative type blocked by element (e-props-correct 7)')
        return discs
    try:
        schema = VERSIONS[version](model['xsd'])
    except XMLSchemaException as e:
        if acc:
            acc.cnt('schemas_refused')
            acc.cnt('schema_refused: ' + str(getattr(e, 'message', e))[:70])
            acc.out('schema-refused')
        return discs
    if acc:
        acc.cnt('schemas_built')
        acc.st(traces=1)
    todo = [only] if only else instances(model)
    raised = defaultdict(int)
    for pos, name, inst, label in todo:
        exp, why, contested = expected(model, version, pos, name, inst)
        posname = '%s/%s' % ('root' if pos[0] == 'root' else 'in-' + pos[1], name)
        if contested:
            if acc:
                acc.ev()
                acc.cnt(contested)
                acc.out(contested)
            continue
        doc = document(pos, name, inst)
        got = observe(schema, doc)
        want = 'valid' if exp else 'invalid'
        if acc:
            acc.ev()
            acc.st(traces=1)
            acc.nt('%s|%s|%s|%s' % (base, posname, why, got))
            acc.out('%s:%s' % (why, 'agree' if got == want else 'lib-' + got))
        if sample and got == want and inst['xsi_type'] and inst['xsi_type'].startswith('t:T') and acc:
            sample = False
            acc.sample({'version': version, 'kind': kind, 'tree': canon(shape), 'flags': list(flags), 'document': doc,
                        'reference': want + ' (' + why + ')', 'library': got})
        if got != want:
            if got.startswith('raised:'):
                # an escaping exception repeats for every variant of the same element: list two per position
                raised[posname, got] += 1
                if raised[posname, got] > 2:
                    if acc:
                        acc.cnt('raised_beyond_two_per_schema_and_position_not_listed')
                    continue
            key = '%s|%s|xsi:type=%s|nil=%s|content=%s|k=%s|lib=%s|ref=%s(%s)' % (
                base, posname, inst['xsi_type'], inst['nil'], label, inst['attrs'].get('k'), got, want, why)
            what = ('XSD %s: %s is %s for the library, the reference says %s (%s); flags: %s'
                    % (version, doc, got, want, why, flags_str(flags)))
            case = {'version': version, 'kind': kind, 'shape': [list(x) for x in shape], 'flags': list(flags),
                    'pos': list(pos), 'name': name, 'inst': inst, 'label': label,
                    'schema': model['xsd'] if len(discs) < 3 else '(see the first cases of this schema; rebuilt by replay)',
                    'document': doc, 'library': got, 'reference': want, 'reason': why}
            discs.append((key, what, case))
    return discs


# --- bounds / sharding ------------------------------------------------------------------------

def has_alt(flags):
    return any(f.startswith('alt') for f in flags)


def in_core(tier, n, flags):
    """The bound completed in full.  quick: N <= 2, D <= 2.  thorough: N <= 3 with D <= 2, N <= 1 with D <= 3, and
    N = 2 with D = 3 for flag sets without type alternatives."""
    d = len(flags)
    if tier == 'quick':
        return n <= 2 and d <= 2
    return d <= 2 or (d == 3 and (n <= 1 or (n == 2 and not has_alt(flags))))


def max_dev(n):
    return 3 if n <= 2 else 2


def schema_key(version, kind, shape, flags):
    return '%s|%s|%s|%s' % (version, kind, canon(shape), flags_str(flags))


def selected(tier, seed, version, kind, shape, flags):
    n = len(shape)
    if in_core(tier, n, flags):
        return True
    if tier == 'quick' and in_core('thorough', n, flags):
        return in_slice(schema_key(version, kind, shape, flags), seed, SLICE_K)
    return False


def graph_list():
    return [(v, k, sh) for v in ('1.0', '1.1') for k in KINDS for n in range(4) for sh in shapes(n)]


def shards(tier, seed):
    out = []
    per = 40 if tier == 'quick' else 300
    for version, kind, shape in graph_list():
        n = len(shape)
        maxdev = max_dev(n)
        total = sum(1 for f in flag_sets(version, kind, shape, maxdev) if selected(tier, seed, version, kind, shape, f))
        if not total:
            continue
        weight = total * (1 + n) * (1 + n)          # documents grow roughly with (types)^2
        chunks = max(1, round(weight / (per * 9)))
        for c in range(chunks):
            out.append((tier, seed, version, kind, shape, maxdev, c, chunks))
    return out


def run_shard(shard, acc):
    tier, seed, version, kind, shape, maxdev, c, chunks = shard
    s0, t0 = R.STATS
    i = 0
    for flags in flag_sets(version, kind, shape, maxdev):
        if not selected(tier, seed, version, kind, shape, flags):
            continue
        i += 1
        if i % chunks != c:
            continue
        try:
            with acc.guard(300):
                discs = run_schema(version, kind, shape, flags, acc, sample=(len(acc.samples) < 1 and i % 7 == 0))
        except CaseTimeout:
            discs = [('C07|%s|timeout' % schema_key(version, kind, shape, flags),
                      'building the schema and validating its instance variants did not finish in 300 s',
                      {'version': version, 'kind': kind, 'shape': [list(x) for x in shape], 'flags': list(flags)})]
        for key, what, case in discs:
            acc.disc(key, what, case)
    acc.st(states=R.STATS[0] - s0, transitions=R.STATS[1] - t0)


def replay(case):
    if 'inst' not in case:                      # a recorded timeout: run the whole schema again
        shape = tuple((p, m) for p, m in case['shape'])
        return [(k, w) for k, w, _ in run_schema(case['version'], case['kind'], shape, tuple(case['flags']))]
    shape = tuple((p, m) for p, m in case['shape'])
    only = (tuple(case['pos']), case['name'], case['inst'], case.get('label', '?'))
    out = run_schema(case['version'], case['kind'], shape, tuple(case['flags']), None, only)
    return [(k, w) for k, w, _ in out]


def bounds(tier, seed):
    core = 'N<=2 types below D, D<=2 flags' if tier == 'quick' else \
        'N<=3 with D<=2; N<=1 with D<=3; N=2 with D=3 without alternatives'
    return {'size': core, 'deviations': 2 if tier == 'quick' else 3,
            'slice': ('1/%d of the thorough bound outside the quick core, residue of VERIF_SEED' % SLICE_K)
            if tier == 'quick' else 'none',
            'versions': ['1.0', '1.1'], 'kinds': list(KINDS),
            'trees': {str(n): len(shapes(n)) for n in range(4)}}
