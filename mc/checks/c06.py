"""C06 - lazy (streaming) processing gives the same results as full loading.

Every document of the bounded space (mc/gen/docs_c06.py: every ordered tree inside a height / fan-out / node
bound over a recursive schema, five flavours, every placement of <= 2 faults) and every paired corpus file is
processed eagerly (lazy=False) and with lazy in {1, 2, 3} x thin_lazy in {True, False} on the SAME schema
object in the same process, through iter_errors, is_valid, decode, iter_decode, to_objects and, on the
resource itself, iter / iter_depth(1..5) / iterfind / get_namespaces / get_nsmap.  The eager observation is
the oracle; the generator's own element stream (tag, text, attributes, in-scope namespaces kept in a plain
list of dicts) is the reference model the eager tree is first checked against.
"""
import os
import re
from collections import Counter
from collections.abc import Iterator

import xmlschema
from xmlschema import XMLSchema10, XMLSchema11, XMLResource, XMLSchemaValidationError
from xmlschema.exceptions import XMLSchemaException

from mc.core.runner import in_slice
from mc.gen import docs_c06 as gen

ID = 'C06'
TITLE = 'Lazy (streaming) processing gives the same results as full loading'
RULE = ('every ordered tree with height <= H (edges), fan-out <= 3 and <= N nodes over a recursive schema, in five '
        'flavours (plain, ID/IDREF across chunks, root key selecting level-2 nodes, key+keyref in nested scopes, '
        'namespace redeclarations at every node) x every placement of <= D faults (one per node) + every XML file of '
        'tests/test_cases that has a schema; each x lazy {1,2,3} x thin_lazy {T,F} x 11 API families; a case is one '
        '(document, lazy, thin) run; non-trivial when its (flavour, shape, fault kinds by level, lazy) signature is new')
ASSUMPTIONS = [
    'the eager run (lazy=False) on the same schema object is the oracle; for generated documents the eager tree is '
    'itself checked against the generator stream (tag, text, attributes, in-scope namespaces)',
    'errors are compared as sequences of (class, reason with object addresses masked, path) for iter_errors; for '
    'decode / iter_decode / to_objects, whose lazy results carry generator placeholders for the chunks, the '
    'placeholders are consumed in document order (the protocol of xmlschema.to_json) and errors are compared as multisets',
    'XMLResource.iter() is compared as a multiset of (tag, text, attributes, in-scope namespaces): the statement asks for '
    'the same elements, and the repository suite itself asserts that the lazy order differs (order differences are counted)',
    'text of an element is read when it is yielded and again at the next step (elements above the lazy depth are '
    'documented as incomplete when yielded); the longer reading is used',
    'iter_depth(mode) is compared with what its documentation promises, computed from the loaded tree: the subtrees at '
    'the lazy depth, the root pruned at that depth, or both',
    'iterfind with a path shallower than the lazy depth is refused by the library (ValueError): skipped and counted',
    'comments and processing instructions are not elements and are left out of the streams',
    'error paths are compared by local names and positions: the prefixes used to spell a path depend on when it is rendered',
    'get_namespaces(root_only=False) invents prefixes in iteration order: the namespaces and the root declarations are '
    'compared, the invented prefix names are not',
    'iter_depth(1|2) and iterfind are called with an ancestors list; the (tag, attributes, nsmap) of the tracked '
    'ancestors at each step must equal the ancestors in the loaded tree',
    'lazy depth 1 is the claimed clause and is judged; depths 2 and 3 run under the same oracle and their differences '
    'are counted per category (counters lazy2:<api>|<category>, lazy3:...), except that an exception that is not one of '
    'the library classes (KeyError, AssertionError, ...) escaping there is reported under one key per (API group, depth, class)',
    'error reasons are compared after reducing every quoted qualified name (\'{uri}local\', \'p:local\', \'local\') to its '
    'local name: the rendering depends on the prefixes known when the message is made',
    'decode / iter_decode / to_objects are judged per document on the generated documents with <= 5 nodes and <= 1 fault '
    'and on the corpus; on larger documents they run and their differences are counted (unjudged-large-document ...)',
    'wide documents (a root with 100-540 leaf children, serialised just below / above one 16 KiB read of the pull parser '
    'and at 2.5 and 4 reads) are run at lazy depth 1 only; there iter_errors / is_valid / iter_decode are also called with '
    'path=n and judged, decoding without a path is counted',
    'to_objects() raising AssertionError whenever the document has an element at the lazy depth does not depend on the '
    'document: it is reported under one key per lazy depth; every other discrepancy names its document',
]
BUDGET_S = {'quick': 3000, 'thorough': 18000}
LAZIES = (1, 2, 3)
JUDGED = (1,)                 # the statement claims lazy depth 1; deeper depths are explored and counted
DECODE_NODES = 5              # decode / iter_decode / to_objects are judged on documents with <= 5 nodes, <= 1 fault
GROUP_NAME = {'v': 'validation', 'd': 'decoding', 'o': 'to_objects', 'i': 'iteration', 'p': 'decoding by path'}
REPO = os.environ.get('VERIF_REPO', '/repo')
VERSIONS = {'1.0': XMLSchema10, '1.1': XMLSchema11}
MISSING = '<no data>'
GROUP = {'iter_errors_path': 'v', 'is_valid_path': 'v', 'iter_decode_path': 'p', 'iter_errors': 'v', 'is_valid': 'v', 'decode': 'd', 'iter_decode': 'd', 'to_objects': 'o', 'iter': 'i',
         'iter_tag': 'i', 'iter_depth1': 'i', 'iter_depth2': 'i', 'iter_depth3': 'i', 'iter_depth4': 'i',
         'iter_depth5': 'i', 'iterfind': 'i', 'get_namespaces': 'i', 'get_nsmap': 'i'}
APIS = ('iter_errors', 'is_valid', 'decode', 'iter_decode', 'to_objects', 'iter', 'iter_tag', 'iter_depth1',
        'iter_depth2', 'iter_depth3', 'iter_depth4', 'iter_depth5', 'iterfind', 'get_namespaces', 'get_nsmap')


# --- bounds ---------------------------------------------------------------------------------

def space(tier):
    """[(height, nodes, faults)]: the union of these S(size, deviations) products is explored completely."""
    if tier == 'quick':
        return [(3, 7, 1), (3, 5, 2), (2, 13, 0)]
    return [(4, 8, 1), (4, 6, 2), (2, 13, 1)]


def residue(tier):
    """quick only: (height, nodes, faults, K) of the next bound, one residue class of K by seed."""
    if tier == 'quick':
        return (4, 8, 1, 16)
    return None


def shape_plan(tier, seed):
    """-> [(shape text, faults explored completely, faults explored in the seed residue, K)] in canonical order."""
    plan = {}
    for height, nodes, faults in space(tier):
        for t in gen.trees(height, nodes):
            s = gen.show(t)
            plan[s] = max(plan.get(s, 0), faults)
    out = {s: [s, f, 0, 0] for s, f in plan.items()}
    res = residue(tier)
    if res:
        height, nodes, faults, k = res
        for t in gen.trees(height, nodes):
            s = gen.show(t)
            rec = out.setdefault(s, [s, -1, 0, 0])
            if rec[1] < faults:
                rec[2], rec[3] = faults, k
    return [tuple(r) for r in out.values()]


def documents(flavour, shape, full, res, k, seed):
    """The fault placements of one shape that this run explores."""
    tree = gen.parse_shape(shape)
    for faults in gen.fault_sets(flavour, tree, max(full, res)):
        if len(faults) <= full:
            yield faults
        elif in_slice('%s|%s|%s' % (flavour, shape, gen.show_faults(faults)), seed, k):
            yield faults


# --- observation ----------------------------------------------------------------------------

def mask(text):
    """Object addresses are not part of a reason."""
    out, i = [], 0
    while True:
        j = text.find(' at 0x', i)
        if j < 0:
            out.append(text[i:])
            return ''.join(out)
        out.append(text[i:j] + ' at 0x')
        i = j + 6
        while i < len(text) and text[i] in '0123456789abcdefABCDEF':
            i += 1


def plain_path(path):
    """Paths are spelled with whatever prefixes are in scope when they are rendered: keep local names and positions."""
    if path is None:
        return None
    return '/'.join(step.rsplit('}', 1)[-1].rsplit(':', 1)[-1] for step in path.split('/'))


_QUOTED_NAME = re.compile(r"'(?:\{[^}']*\})?(?:[A-Za-z_][\w.\-]*:)?([A-Za-z_][\w.\-]*)'")


def plain_reason(reason):
    """A quoted qualified name is rendered as '{uri}local', 'p:local' or 'local' depending on the prefixes known when
    the message is made: keep the local name."""
    return _QUOTED_NAME.sub(r"'\1'", mask(reason))


def esig(e):
    return (type(e).__name__, plain_reason(str(e.reason)), plain_path(e.path))


def skey(sig):
    return tuple(x or '' for x in sig)


def exc_text(e):
    return '%s: %s' % (type(e).__name__, mask(str(e))[:160])


def canon(x):
    """Decoded data as plain comparable values."""
    if isinstance(x, dict):
        return {k: canon(v) for k, v in x.items()}
    if isinstance(x, (list, tuple)):
        return [canon(v) for v in x]
    if isinstance(x, xmlschema.DataElement):
        return ['DataElement', x.tag, canon(x.value), canon(x.attrib), x.tail, [canon(c) for c in x]]
    if x is None or isinstance(x, (str, int, float, bool)):
        return x
    return repr(x)


def materialise(x, errors, gens):
    """Consume the chunk placeholders of a lazily decoded value in document order (as to_json does)."""
    if isinstance(x, Iterator):
        if not any(x is g for g in gens):
            gens.append(x)
        for item in x:
            if isinstance(item, XMLSchemaValidationError):
                errors.append(item)
            else:
                return materialise(item, errors, gens)
        return MISSING
    if isinstance(x, dict):
        for k in list(x):
            x[k] = materialise(x[k], errors, gens)
    elif isinstance(x, list):
        for k in range(len(x)):
            x[k] = materialise(x[k], errors, gens)
    elif isinstance(x, xmlschema.DataElement):
        for k in range(len(x)):
            x[k] = materialise(x[k], errors, gens)
    return x


def drain(gens, errors):
    extra = 0
    for g in gens:
        for item in g:
            if isinstance(item, XMLSchemaValidationError):
                errors.append(item)
            else:
                extra += 1
    return extra


_HERE = os.path.dirname(os.path.dirname(os.path.abspath(__file__)))


def call(fn):
    try:
        return fn()
    except Exception as e:                                    # noqa - the class is the observation
        tb = e.__traceback__
        while tb.tb_next is not None:
            tb = tb.tb_next
        if tb.tb_frame.f_code.co_filename.startswith(_HERE):
            raise                                             # raised by the harness itself: a harness error
        own = isinstance(e, XMLSchemaException) or type(e).__module__.split('.')[0] == 'elementpath'
        return ('exc', exc_text(e), 'library' if own else 'foreign')


def schema_obs(schema, mk, path=None, nsm=None):
    """Observations of the validation / decoding APIs; mk() makes a fresh resource.  With a path the same entry
    points are also observed on the elements selected by it (path=, namespaces=)."""
    obs = {}
    if path:
        obs['iter_errors_path'] = call(lambda: ('ok', [esig(e) for e in schema.iter_errors(mk(), path, namespaces=nsm)]))
        obs['is_valid_path'] = call(lambda: ('ok', bool(schema.is_valid(mk(), path, namespaces=nsm))))

        def decode_path():
            errs, datas = [], []
            for item in schema.iter_decode(mk(), path, namespaces=nsm):
                (errs if isinstance(item, XMLSchemaValidationError) else datas).append(item)
            return ('ok', canon(datas), sorted((esig(e) for e in errs), key=skey), 0)
        obs['iter_decode_path'] = call(decode_path)
    obs['iter_errors'] = call(lambda: ('ok', [esig(e) for e in schema.iter_errors(mk())]))
    obs['is_valid'] = call(lambda: ('ok', bool(schema.is_valid(mk()))))

    def decode(method, **kw):
        data, errs = getattr(schema, method)(mk(), validation='lax', **kw)
        errs, gens = list(errs), []
        data = materialise(data, errs, gens)
        extra = drain(gens, errs)
        return ('ok', canon(data), sorted((esig(e) for e in errs), key=skey), extra)
    obs['decode'] = call(lambda: decode('decode'))
    obs['to_objects'] = call(lambda: decode('to_objects'))

    def iter_decode():
        errs, gens, datas = [], [], []
        for item in schema.iter_decode(mk()):
            if isinstance(item, XMLSchemaValidationError):
                errs.append(item)
            else:
                datas.append(item)
        datas = [materialise(d, errs, gens) for d in datas]
        extra = drain(gens, errs)
        return ('ok', canon(datas), sorted((esig(e) for e in errs), key=skey), extra)
    obs['iter_decode'] = call(iter_decode)
    return obs


def is_elem(e):
    return not callable(e.tag)


def nsitems(res, e):
    m = res.get_nsmap(e)
    return None if m is None else tuple(sorted(m.items()))


def flat(res, e):
    return [e.tag, e.text, tuple(sorted(e.attrib.items())), nsitems(res, e)]


def subtree(res, e, prune_below=None, level=0):
    """Snapshot of a whole subtree taken now (thin resources prune elements after use)."""
    kids = ()
    if prune_below is None or level < prune_below:
        kids = tuple(subtree(res, c, prune_below, level + 1) for c in e if is_elem(c))
    return (e.tag, e.text, tuple(sorted(e.attrib.items())), nsitems(res, e), kids)


def chain(res, ancestors):
    """The tracked ancestors of a yielded element, as the caller can see them now: (tag, attributes, nsmap)."""
    return tuple((a.tag, tuple(sorted(a.attrib.items())), nsitems(res, a)) for a in ancestors)


def find_all(res, path, nsm):
    anc = []
    return [(subtree(res, e), chain(res, anc)) for e in res.iterfind(path, nsm, ancestors=anc)]


def longer(a, b):
    return a if len(a or '') >= len(b or '') and a is not None else b


def stream_of(res, it):
    """(tag, text, attrib, nsmap) of every yielded element; the text is read now and again one step later."""
    out, prev = [], None
    for e in it:
        if prev is not None:
            prev[0][1] = longer(prev[0][1], prev[1].text)
        if not is_elem(e):
            prev = None
            continue
        rec = flat(res, e)
        out.append(rec)
        prev = (rec, e)
    if prev is not None:
        prev[0][1] = longer(prev[0][1], prev[1].text)
    return [tuple(x) for x in out]


def star(depth):
    return '/'.join('*' * depth)


def resource_obs(mk, lazy, tag, named):
    """Observations of the resource iteration APIs. For the eager resource the loaded tree is described so that
    every lazy depth can be judged against it."""
    obs = {}
    if not lazy:
        res = mk()
        root = res.root
        obs['stream'] = stream_of(res, res.iter())
        levels = {}

        chains = {}

        def walk(e, level, above):
            levels.setdefault(level, []).append(e)
            chains.setdefault(level, []).append(chain(res, above))
            for c in e:
                if is_elem(c):
                    walk(c, level + 1, above + [e])
        walk(root, 0, [])
        obs['height'] = max(levels)
        obs['level_counts'] = {k: len(v) for k, v in levels.items()}
        obs['chunks'] = {d: [subtree(res, e) for e in levels.get(d, [])] for d in LAZIES}
        obs['tracked'] = {d: list(zip(obs['chunks'][d], chains.get(d, []))) for d in LAZIES}
        obs['pruned'] = {d: subtree(res, root, d) for d in LAZIES}
        obs['root'] = tuple(flat(res, root))
        obs['iterfind'] = {}
        for path, nsm in [(star(d), None) for d in LAZIES] + ([named] if named else []):
            obs['iterfind'][path] = call(lambda: ('ok', find_all(res, path, nsm)))
    else:
        res = mk()
        obs['iter'] = call(lambda: ('ok', stream_of(res, res.iter())))
        res = mk()
        obs['iter_tag'] = call(lambda: ('ok', stream_of(res, res.iter(tag))))
        for mode in (1, 2, 3, 4, 5):
            res = mk()

            def depth_run(res=res, mode=mode):
                out, anc = [], []
                for k, e in enumerate(res.iter_depth(mode, ancestors=anc)):
                    if mode == 5 and k == 0:
                        out.append((e.tag, tuple(sorted(e.attrib.items())), nsitems(res, e)))
                    elif mode <= 2:
                        out.append((subtree(res, e), chain(res, anc)))     # with the tracked ancestors
                    else:
                        out.append(subtree(res, e))
                return ('ok', out)
            obs['iter_depth%d' % mode] = call(depth_run)
        obs['iterfind'] = {}
        for path, nsm in [(star(d), None) for d in LAZIES] + ([named] if named else []):
            res = mk()
            obs['iterfind'][path] = call(lambda: ('ok', find_all(res, path, nsm)))
    res = mk()
    obs['get_namespaces'] = call(lambda: ('ok', res.get_namespaces(), res.get_namespaces(root_only=False)))
    res = mk()
    obs['get_nsmap'] = call(lambda: ('ok', nsitems(res, res.root)))
    return obs


# --- judgement ------------------------------------------------------------------------------

def short(x, n=220):
    s = x if isinstance(x, str) else repr(x)
    return s if len(s) <= n else s[:n] + '...'


def diff_errors(exp, got, ordered):
    """-> (category, explanation) or None for two lists of error signatures."""
    if (exp == got) if ordered else (Counter(exp) == Counter(got)):
        return None
    ce, cg = Counter(exp), Counter(got)
    if ce == cg:
        return ('order', 'same errors in another order: eager %s, lazy %s'
                % (short([e[2] for e in exp]), short([e[2] for e in got])))
    if Counter(e[:2] for e in exp) == Counter(e[:2] for e in got):
        return ('path', 'same errors with other paths: eager %s, lazy %s'
                % (short(sorted(e[2] or '' for e in (ce - cg).elements())),
                   short(sorted(e[2] or '' for e in (cg - ce).elements()))))
    miss, extra = list((ce - cg).elements()), list((cg - ce).elements())
    if miss and not extra:
        return ('missing:%d' % len(miss), 'lazy run loses %d of %d errors, e.g. %s' % (len(miss), len(exp), short(miss[0])))
    if extra and not miss:
        return ('extra:%d' % len(extra), 'lazy run adds %d errors to %d, e.g. %s' % (len(extra), len(exp), short(extra[0])))
    return ('differs:-%d+%d' % (len(miss), len(extra)), 'eager only %s; lazy only %s' % (short(miss[0]), short(extra[0])))


def first_diff(a, b):
    for k, (x, y) in enumerate(zip(a, b)):
        if x != y:
            return 'item %d: eager %s, lazy %s' % (k, short(x, 150), short(y, 150))
    return 'eager has %d items, lazy %d' % (len(a), len(b))


def judge(eager, lazy_obs, d):
    """-> ([(api, category, explanation)], notes, foreign) for one lazy run against the eager observations;
    foreign = the (api, category) pairs where an exception that is not one of the library's own classes escaped."""
    out, notes, foreign = [], [], set()

    def raised(api, o, what):
        cat = 'raises:' + o[1].split(':')[0]
        out.append((api, cat, what))
        if o[2] == 'foreign':
            foreign.add((api, cat))

    def both_ok(api, e, o):
        if e[0] == 'exc' or o[0] == 'exc':
            if e != o:
                if o[0] == 'exc':
                    raised(api, o, 'lazy run raises %s, eager %s' % (o[1], 'raises ' + e[1] if e[0] == 'exc' else 'returns'))
                else:
                    out.append((api, 'returns', 'eager run raises %s, lazy run returns' % e[1]))
            return False
        return True

    e, o = eager['iter_errors'], lazy_obs['iter_errors']
    if both_ok('iter_errors', e, o):
        r = diff_errors(e[1], o[1], True)
        if r:
            out.append(('iter_errors',) + r)
    e, o = eager['is_valid'], lazy_obs['is_valid']
    if both_ok('is_valid', e, o) and e[1] != o[1]:
        out.append(('is_valid', 'verdict:%s' % o[1], 'is_valid() is %s on the lazy resource, %s on the loaded one' % (o[1], e[1])))
    if 'iter_errors_path' in eager:
        e, o = eager['iter_errors_path'], lazy_obs['iter_errors_path']
        if both_ok('iter_errors_path', e, o):
            r = diff_errors(e[1], o[1], True)
            if r:
                out.append(('iter_errors_path',) + r)
        e, o = eager['is_valid_path'], lazy_obs['is_valid_path']
        if both_ok('is_valid_path', e, o) and e[1] != o[1]:
            out.append(('is_valid_path', 'verdict:%s' % o[1],
                        'is_valid(path=) is %s on the lazy resource, %s on the loaded one' % (o[1], e[1])))
    for api in ('decode', 'iter_decode', 'to_objects', 'iter_decode_path'):
        if api not in eager:
            continue
        e, o = eager[api], lazy_obs[api]
        if not both_ok(api, e, o):
            continue
        if e[1] != o[1]:
            what = 'decoded data differ: eager %s, lazy %s' % (short(e[1], 300), short(o[1], 300))
            if isinstance(e[1], list) and isinstance(o[1], list) and len(e[1]) != len(o[1]):
                what = '%d items decoded from the lazy resource, %d from the loaded one' % (len(o[1]), len(e[1]))
            out.append((api, 'data', what))
        elif o[3]:
            out.append((api, 'data-extra:%d' % o[3], 'the chunk decoder yields %d more data items than placeholders' % o[3]))
        r = diff_errors(e[2], o[2], False)
        if r:
            out.append((api, 'errors-' + r[0], r[1]))

    # iteration: multiset of elements
    for api, exp in (('iter', eager['stream']), ('iter_tag', [x for x in eager['stream'] if x[0] == eager['tag']])):
        o = lazy_obs[api]
        if o[0] == 'exc':
            raised(api, o, 'lazy %s raises %s' % (api, o[1]))
            continue
        ce, cg = Counter(exp), Counter(o[1])
        if ce != cg:
            miss, extra = list((ce - cg).elements()), list((cg - ce).elements())
            if len(exp) != len(o[1]) and Counter(x[0] for x in exp) != Counter(x[0] for x in o[1]):
                cat = 'elements:%d-vs-%d' % (len(o[1]), len(exp))
            elif Counter(x[:3] for x in exp) == Counter(x[:3] for x in o[1]):
                cat = 'nsmap'
            elif Counter((x[0], x[2], x[3]) for x in exp) == Counter((x[0], x[2], x[3]) for x in o[1]):
                cat = 'text'
            else:
                cat = 'content'
            out.append((api, cat, 'loaded tree only: %s; lazy only: %s' % (short(miss[:1]), short(extra[:1]))))
        elif exp != o[1]:
            notes.append('iter_order_differs')
    chunks, pruned = eager['chunks'][d], eager['pruned'][d]
    for mode in (1, 2, 3, 4, 5):
        api = 'iter_depth%d' % mode
        o = lazy_obs[api]
        if o[0] == 'exc':
            raised(api, o, 'lazy %s raises %s' % (api, o[1]))
            continue
        exp = {1: eager['tracked'][d], 2: eager['tracked'][d], 3: [pruned], 4: chunks + [pruned],
               5: [(eager['root'][0], eager['root'][2], eager['root'][3])] + chunks + [pruned]}[mode]
        if exp != o[1]:
            cat = 'count:%d-vs-%d' % (len(o[1]), len(exp)) if len(exp) != len(o[1]) else 'content'
            out.append((api, cat, first_diff(exp, o[1])))
    for path, e in eager['iterfind'].items():
        o = lazy_obs['iterfind'][path]
        if o[0] == 'exc' and o[1].startswith('XMLSchemaValueError') and "on a lazy resource" in o[1] \
                and path.count('/') + 1 < d:
            notes.append('iterfind_refused_shallow_path')
            continue
        if both_ok('iterfind[%s]' % path, e, o) and e[1] != o[1]:
            cat = 'count:%d-vs-%d' % (len(o[1]), len(e[1])) if len(e[1]) != len(o[1]) else 'content'
            out.append(('iterfind[%s]' % path, cat, first_diff(e[1], o[1])))
    e, o = eager['get_namespaces'], lazy_obs['get_namespaces']
    if both_ok('get_namespaces', e, o) and e != o:
        # with root_only=False the generated prefixes follow the iteration order, which lazy resources do not keep
        if e[1] != o[1] or sorted(e[2].values()) != sorted(o[2].values()) \
                or {k: v for k, v in e[2].items() if k in e[1]} != {k: v for k, v in o[2].items() if k in o[1]}:
            out.append(('get_namespaces', 'differs', 'eager %s, lazy %s' % (short(e[1:]), short(o[1:]))))
        else:
            notes.append('get_namespaces_generated_prefixes_differ')
    e, o = eager['get_nsmap'], lazy_obs['get_nsmap']
    if both_ok('get_nsmap', e, o) and e != o:
        out.append(('get_nsmap', 'differs', 'eager %s, lazy %s' % (short(e[1:]), short(o[1:]))))
    return out, notes, foreign


# --- one document ---------------------------------------------------------------------------

def run_document(schema, source, ident, tag, named, ref_stream=None, judge_decode=True, lazies=LAZIES, path=None):
    """-> (judged discrepancies [(key, what)], info).  ident names the input inside the key.
    Lazy depth 1 is judged; deeper depths (and, when judge_decode is false, the decoding APIs) run under the same
    oracle and their differences are counted in info['counted'].  An exception that is not one of the library's own
    classes escaping at a deeper depth stays judged, under one key per (API group, depth, exception class)."""
    discs, notes, counted = [], [], Counter()

    def mk(lazy=False, thin=True):
        return XMLResource(source, lazy=lazy, thin_lazy=thin)

    pnsm = path or (None, None)
    eager = schema_obs(schema, mk, *pnsm)
    eager.update(resource_obs(mk, False, tag, named))
    eager['tag'] = tag
    info = {'eager_errors': len(eager['iter_errors'][1]) if eager['iter_errors'][0] == 'ok' else -1,
            'level_counts': eager['level_counts'], 'runs': 0, 'judged': 0}
    if ref_stream is not None:
        exp = [(t, x, tuple(sorted(a.items())), tuple(sorted(n.items()))) for _l, t, x, a, n in ref_stream]
        if exp != eager['stream']:
            discs.append(('C06|%s|eager|iter|reference' % ident,
                          'the loaded tree differs from the generated document: %s' % first_diff(exp, eager['stream'])))
    per, foreign = {}, {}
    for d in lazies:
        for thin in (True, False):
            lazy_obs = schema_obs(schema, lambda: mk(d, thin), *pnsm)
            lazy_obs.update(resource_obs(lambda: mk(d, thin), d, tag, named))
            found, nn, ff = judge(eager, lazy_obs, d)
            if ref_stream is not None and lazy_obs['iter'][0] == 'ok' and Counter(lazy_obs['iter'][1]) != Counter(exp) \
                    and not any(api == 'iter' for api, _c, _w in found):
                found.append(('iter', 'reference', 'lazy and loaded tree agree but differ from the generated document: %s'
                              % first_diff(sorted(exp, key=repr), sorted(lazy_obs['iter'][1], key=repr))))
            notes.extend(nn)
            info['runs'] += 1
            info['judged'] += len(APIS) if d in JUDGED else 0
            per[(d, thin)] = found
            foreign.setdefault(d, set()).update(ff)
    for d in lazies:
        a = {(api, cat): what for api, cat, what in per[(d, True)]}
        b = {(api, cat): what for api, cat, what in per[(d, False)]}
        merged = {}
        for k in sorted(set(a) | set(b)):
            thins = '*' if k in a and k in b else ('T' if k in a else 'F')
            api, cat = k
            group = GROUP[api.split('[')[0]]
            if d not in JUDGED or (group in 'do' and not judge_decode):
                label = 'lazy%d' % d if d not in JUDGED else 'unjudged-large-document lazy%d' % d
                counted['%s:%s|%s' % (label, api.split('[')[0], cat.split(':')[0] if not cat.startswith('raises:') else cat)] += 1
                if k in foreign[d]:
                    # an exception that is not the library's own stays a judged discrepancy, one key per class
                    exc = cat.split(':', 1)[1]
                    key = 'C06|%s|lazy=%d|raises:%s|class' % (GROUP_NAME[group], d, exc)
                    if d in JUDGED and api == 'to_objects' and exc == 'AssertionError' and eager['level_counts'].get(d, 0):
                        key = 'C06|to_objects|lazy=%d|raises:AssertionError|any document with an element at level %d' % (d, d)
                    if not any(key == x[0] for x in discs):
                        discs.append((key, '%s API at lazy=%d lets %s escape, e.g. %s, %s: %s'
                                      % (GROUP_NAME[group], d, exc, ident, api, a.get(k) or b.get(k))))
                continue
            # APIs of one family that fail in the same way share one key
            merged.setdefault((thins, group, cat), []).append((api, a.get(k) or b.get(k)))
        for (thins, _group, cat), items in sorted(merged.items()):
            apis = '+'.join(api for api, _w in items)
            if apis == 'to_objects' and cat == 'raises:AssertionError' and thins == '*' \
                    and eager['level_counts'].get(d, 0) and eager['to_objects'][0] == 'ok':
                # independent of the content: the data objects cannot hold the placeholder of a streamed chunk
                discs.append(('C06|to_objects|lazy=%d|raises:AssertionError|any document with an element at level %d'
                              % (d, d), 'to_objects() on a lazy resource raises AssertionError (DataElement.insert) '
                              'as soon as the document has an element at the lazy depth, e.g. %s' % ident))
                continue
            discs.append(('C06|%s|lazy=%d|thin=%s|%s|%s' % (ident, d, thins, apis, cat),
                          '%s, lazy=%d, thin_lazy=%s, %s: %s'
                          % (ident, d, {'*': 'True and False', 'T': 'True', 'F': 'False'}[thins], apis, items[0][1])))
    info['notes'] = Counter(notes)
    info['counted'] = counted
    info['per'] = per
    return discs, info


_schemas = {}


def gen_schema(flavour):
    if flavour not in _schemas:
        _schemas[flavour] = XMLSchema10(gen.SCHEMAS[flavour])
    return _schemas[flavour]


def run_generated(flavour, shape, faults):
    tree = gen.parse_shape(shape)
    text, stream = gen.render(flavour, tree, faults)
    ns = flavour == 'ns'
    named = ('p:n/p:n', {'p': 'urn:t'}) if ns else ('n/n', None)
    ident = '%s|%s|%s' % (flavour, shape, gen.show_faults(faults))
    judge_decode = shape.count('(') <= DECODE_NODES and len(faults) <= 1
    discs, info = run_document(gen_schema(flavour), text, ident, '{urn:t}n' if ns else 'n', named, stream, judge_decode)
    info['stream'] = stream
    return discs, info


def wide_schema(flavour):
    if ('wide', flavour) not in _schemas:
        _schemas[('wide', flavour)] = XMLSchema10(gen.WIDE_SCHEMAS[flavour])
    return _schemas[('wide', flavour)]


def run_wide(flavour, size, variant):
    """A root with many leaf children whose serialisation crosses the reads of the pull parser: lazy depth 1 only,
    the entry points also with path='n'; decoding without a path is counted, not judged."""
    n = gen.wide_children(flavour, size)
    text, stream = gen.render_wide(flavour, n, variant)
    ns = flavour == 'ns'
    named = ('p:n', {'p': 'urn:t'}) if ns else ('n', None)
    fault = '-' if variant == '-' else '%s:%s' % (variant, gen.WIDE_FAULT[flavour])
    ident = 'wide-%s|%s n=%d|%s' % (flavour, size, n, fault)
    discs, info = run_document(wide_schema(flavour), text, ident, '{urn:t}n' if ns else 'n', named, stream,
                               judge_decode=False, lazies=(1,), path=named)
    info['stream'] = stream
    info['chars'] = len(text)
    return discs, info


def corpus_schema(rec):
    key = ('corpus', rec['xml'], rec['version'])
    if key not in _schemas:
        try:
            source, locations = xmlschema.fetch_schema_locations(rec['xml'], rec['locations'])
            _schemas[key] = VERSIONS[rec['version']](source, validation='lax', locations=locations)
        except Exception as e:                                # noqa - no schema: not in the domain
            _schemas[key] = exc_text(e)
    return _schemas[key]


def run_corpus(rec):
    schema = corpus_schema(rec)
    if isinstance(schema, str):
        return None, {'skipped': schema}
    rel = os.path.relpath(rec['xml'], os.path.join(REPO, 'tests', 'test_cases'))
    ident = 'corpus|%s|%s' % (rel, rec['version'])
    root = XMLResource(rec['xml']).root
    first = next((c for c in root if is_elem(c)), root)
    return run_document(schema, rec['xml'], ident, first.tag, None)


# --- sharding -------------------------------------------------------------------------------

def shards(tier, seed):
    plan = shape_plan(tier, seed)
    out = []
    limit = 900 if tier == 'quick' else 2500          # ~ documents x nodes per shard
    for flavour in gen.FLAVOURS:
        batch, cost = [], 0
        for shape, full, res, k in plan:
            n = sum(1 for _f in documents(flavour, shape, full, res, k, seed))
            if not n:
                continue
            batch.append((shape, full, res, k))
            cost += n * (2 + shape.count('('))
            if cost >= limit:
                out.append(('gen', flavour, seed, tuple(batch)))
                batch, cost = [], 0
        if batch:
            out.append(('gen', flavour, seed, tuple(batch)))
    for flavour in gen.WIDE_FLAVOURS:
        for size in gen.WIDE_SIZES:
            out.append(('wide', flavour, size))
    files = gen.corpus(REPO)
    for lo in range(0, len(files), 4):
        out.append(('corpus', lo, min(lo + 4, len(files))))
    return out


def account(acc, ident_sig, discs, info, case, stream_levels):
    lc = stream_levels
    for d in sorted({d for d, _thin in info['per']}):
        chunks = lc.get(d, 0)
        # transitions = chunks streamed: every lazy run passes over the document once per streaming call
        # (iter_errors, is_valid, decode and iter_decode twice - root then chunk decoder -, to_objects, iter x 2,
        # iter_depth x 5, every iterfind path not shallower than the lazy depth, get_namespaces x 2), thin on and off
        passes = 1 + 1 + 2 + 2 + 1 + 2 + 5 + (4 - d + (1 if d <= 2 else 0)) + 2
        acc.st(transitions=chunks * 2 * passes, traces=2 * len(APIS))
    acc.ev(info['runs'])
    for (d, thin), found in info['per'].items():
        acc.nt('%s|lazy=%d' % (ident_sig, d))
        apis = sorted({api.split('[')[0] + ':' + cat.split(':')[0] for api, cat, _w in found})
        invalid = 'invalid' if info['eager_errors'] else 'valid'
        if not found:
            acc.out('lazy=%d %s agree' % (d, invalid))
        else:
            acc.out('lazy=%d %s differ in %d apis' % (d, invalid, len({a.split(':')[0] for a in apis})))
    for k, v in info['notes'].items():
        acc.cnt(k, v)
    for k, v in info['counted'].items():
        acc.cnt(k, v)
    seen = acc.__dict__.setdefault('c06_class_keys', set())
    for key, what in discs:
        if key.endswith('|class') or key.startswith('C06|to_objects|'):
            if key in seen:                       # a class key is reported once per shard
                continue
            seen.add(key)
        acc.disc(key, what, case)


def run_shard(shard, acc):
    if shard[0] == 'gen':
        _kind, flavour, seed, batch = shard
        for shape, full, res, k in batch:
            tree = gen.parse_shape(shape)
            counts = gen.level_counts(tree)
            # reference states: (shape, lazy depth, chunk boundary) - one per element at the lazy depth plus the pruned root
            acc.st(states=sum(counts.get(d, 0) + 1 for d in LAZIES))
            for faults in documents(flavour, shape, full, res, k, seed):
                case = {'kind': 'gen', 'flavour': flavour, 'shape': shape, 'faults': gen.show_faults(faults)}
                with acc.guard(120):
                    discs, info = run_generated(flavour, shape, faults)
                levels = Counter(x[0] for x in info['stream'])
                by_level = ','.join(sorted('%s%d' % (kind, gen.nodes_of(tree)[i][1]) for i, kind in faults))
                account(acc, '%s|%s|%s' % (flavour, shape, by_level), discs, info, case, levels)
                if not faults and shape.count('(') in (3, 6):
                    acc.sample({'flavour': flavour, 'shape': shape, 'faults': '-', 'eager_errors': info['eager_errors'],
                                'discrepancies': len(discs)})
    elif shard[0] == 'wide':
        _kind, flavour, size = shard
        for variant in gen.WIDE_VARIANTS:
            case = {'kind': 'wide', 'flavour': flavour, 'size': size, 'variant': variant}
            with acc.guard(600):
                discs, info = run_wide(flavour, size, variant)
            levels = Counter(x[0] for x in info['stream'])
            acc.st(states=levels.get(1, 0) + 1)
            acc.cnt('wide documents (%d-%d KiB)' % (info['chars'] // 16384 * 16, info['chars'] // 16384 * 16 + 16))
            account(acc, 'wide-%s|%s|%s' % (flavour, size, variant), discs, info, case, levels)
            if variant == '-' and size == 'x2.5':
                acc.sample({'wide': flavour, 'size': size, 'chars': info['chars'], 'children': levels.get(1, 0),
                            'discrepancies': len(discs)})
    else:
        _kind, lo, hi = shard
        for rec in gen.corpus(REPO)[lo:hi]:
            rel = os.path.relpath(rec['xml'], os.path.join(REPO, 'tests', 'test_cases'))
            case = {'kind': 'corpus', 'xml': rel, 'version': rec['version'], 'locations': rec['locations']}
            with acc.guard(300):
                discs, info = run_corpus(rec)
            if discs is None:
                acc.cnt('corpus file without a usable schema (skipped)')
                continue
            acc.cnt('corpus files paired with a schema')
            lc = {int(k): v for k, v in info['level_counts'].items()}
            acc.st(states=sum(lc.get(d, 0) + 1 for d in LAZIES))
            account(acc, 'corpus|%s|%s' % (rel, rec['version']), discs, info, case, lc)
            if lo % 30 == 0:
                acc.sample({'corpus': rel, 'version': rec['version'], 'eager_errors': info['eager_errors'],
                            'discrepancies': len(discs)})


def replay(case):
    if case['kind'] == 'gen':
        discs, _ = run_generated(case['flavour'], case['shape'], gen.parse_faults(case['faults']))
        return discs
    if case['kind'] == 'wide':
        discs, _ = run_wide(case['flavour'], case['size'], case['variant'])
        return discs
    rec = {'xml': os.path.join(REPO, 'tests', 'test_cases', case['xml']), 'version': case['version'],
           'locations': case['locations']}
    discs, _ = run_corpus(rec)
    return discs or []


def bounds(tier, seed):
    out = {'size': ['height<=%d nodes<=%d faults<=%d' % s for s in space(tier)], 'fan_out': 3,
           'judged_lazy_depths': list(JUDGED), 'decoding_apis_judged_on': 'nodes<=%d faults<=1 and the corpus' % DECODE_NODES,
           'flavours': list(gen.FLAVOURS), 'lazy': list(LAZIES), 'thin_lazy': [True, False], 'apis': list(APIS),
           'corpus_files': len(gen.corpus(REPO)),
           'wide_documents': 'root with N leaf children, %s x sizes %s of the 16 KiB parser read x %s; lazy=1, also with path=n'
                             % (list(gen.WIDE_FLAVOURS), list(gen.WIDE_SIZES), list(gen.WIDE_VARIANTS))}
    res = residue(tier)
    if res:
        out['residue_slice'] = 'height<=%d nodes<=%d faults<=%d, documents with hash = %d mod %d' % (res[:3] + (seed % res[3], res[3]))
    return out
