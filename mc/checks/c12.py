"""C12 - resource access control confines every fetch to the allowed class of locations.

Complete product: allow mode x XSD version x kind of main source x reference mechanism x spelling of
the target location.  Every case is run against a symlink-free fixture tree

    T/sand/            the sandbox base: main.xsd, doc.xml, sub/{inc,imp}.xsd
    T/sand_evil/       a sibling that shares the base name as a string prefix
    T/other/           an ordinary sibling

plus a virtual remote tree answered by a stub urllib opener.  While the library builds the schema /
validates the document, an interpreter audit hook records every 'open' and 'urllib.Request'.  The
reference model (mc/ref/access.py) classifies each observed access by realpath + commonpath and
says whether the mode admits that class.  Every target declares a uniquely named element, so content
of a denied location that reaches the result shows in schema.maps.elements.
"""
import os
import pickle
import shutil
import signal
import tempfile
import traceback
import urllib.request
import warnings

import xmlschema
from xmlschema import XMLSchema10, XMLSchema11, XMLResource
from xmlschema.exceptions import XMLSchemaException, XMLResourceBlocked
from xmlschema.loaders import LocationSchemaLoader, SafeSchemaLoader

from mc.core.runner import in_slice, CaseTimeout
from mc.ref import access
from mc.explore import audit_c12

ID = 'C12'
TITLE = 'Resource access control confines every fetch to the allowed class of locations'
RULE = ('complete product allow {all,remote,local,sandbox,none} x XSD version x main source kind {path, file URL, '
        'relative path + base_url, open file whose .url is a file URL, open file whose .url is an http URL, text + '
        'base_url, http URL via stub opener} x mechanism {include, import (default / location / safe loader), '
        'redefine, override (1.1), include of a sibling that imports the target, xsi:schemaLocation on a nested '
        'element with use_location_hints (the instance is the main source), xsi:schemaLocation on the root through '
        'XmlDocument, locations=, uri_mapper dict, uri_mapper callable} x target spelling; a case is non-trivial '
        'when the main source is admitted so the mechanism is exercised; distinct = distinct (version, allow, '
        'source kind, mechanism, spelling); states = distinct (version, allow, source kind, mechanism, role, location '
        'class) situations met, transitions = audit events judged, traces = library calls replayed')
ASSUMPTIONS = [
    'the base directory of sandbox mode is the base_url argument or, when absent, the directory of the main source '
    '(the schema, or the XML document when the schema is found through its location hints)',
    'an access is what the interpreter reports as audit event open / urllib.Request; only events that touch the '
    'fixture tree, a fixture file name or a non-file URL are judged (imports of Python modules etc. are ignored)',
    'an already open file object is judged by its .url attribute, as the library documents; the open performed by '
    'the harness itself happens before recording starts',
    'spellings whose reading RFC 3986 does not force (percent-encoded dots/slashes, backslashes, drive letters, '
    'network-path references, rooted path against a remote base) are judged on observed accesses and influence '
    'only, not on whether a denial is reported',
    'an allowed location that the library refuses or fails to load is counted, not judged (confinement is a '
    'safety property)',
    'sandbox mode with a remote main source and no base_url is refused by the library as a configuration error; '
    'the refusal counts as a report',
]
BUDGET_S = {'quick': 900, 'thorough': 1800}
VERSIONS = {'1.0': XMLSchema10, '1.1': XMLSchema11}
KINDS = ('path', 'fileurl', 'rel+base', 'fp+fileurl', 'fp+httpurl', 'text+base', 'http')
REMOTE_KINDS = ('fp+httpurl', 'http')
MECHS = ('include', 'import', 'import/location-loader', 'import/safe-loader', 'redefine', 'override', 'chain',
         'hint-elem', 'hint-root', 'locations', 'map-dict', 'map-call', 'locations-late', 'hint-xmlns')
DOC_MECHS = ('hint-elem', 'locations-late', 'hint-xmlns')     # a document is validated after the schema is built
FORKED_MECHS = ('hint-xmlns',)                                # may alter the shared meta-schema: run in a forked child
INC_MECHS = ('include', 'redefine', 'override', 'hint-root', 'map-dict')      # target in the main namespace
HOST = 'stub.test'
RBASE = 'http://%s/sand' % HOST
FILENAMES = ('inc.xsd', 'imp.xsd', 'main.xsd', 'doc.xml', 'chain.xsd', 'innocent.xsd', 'xml.xsd')
XMLNS = 'http://www.w3.org/XML/1998/namespace'
TARGETS = (('inc', 'urn:m'), ('imp', 'urn:t'), ('xml', XMLNS))     # file kind -> target namespace

# The catalogue (the 14 of the design + 4 authority-less / made-up scheme URLs + 2 absolute '..' escapes) is the completed bound of both tiers; EXTRA is the next bound:
# thorough takes all of it, quick the seed-selected residue slice.  {T} = fixture root, {F} = file name.
CATALOGUE = (
    'sub/{F}', './sub/../sub/{F}',
    '../other/{F}', 'sub/../../other/{F}', '{T}/other/{F}', 'file://{T}/other/{F}', 'file:{T}/other/{F}',
    '%2e%2e/other/{F}', '../sand_evil/{F}', 'FILE://{T}/other/{F}',
    'http://stub.test/r/{F}', 'https://stub.test/r/{F}', 'ftp://stub.test/r/{F}',
    'c:/{F}',
    # a scheme that is neither a file scheme nor http-like, without and with an authority part
    'mem:{F}', 'mem:/dir/{F}', 'MEM:{F}', 'mem://host/{F}',
    # absolute spellings that start inside the base and leave it through '..' (string prefix = base)
    '{T}/sand/../other/{F}', 'file://{T}/sand/../sand_evil/{F}',
    # dot segments percent-encoded twice: one decoding leaves the literal directory name '%2e%2e', a second one '..'
    '%252e%252e/other/{F}', '%252E%252E/other/{F}', '%252e./other/{F}',
    # a URN: not a file, resolvable only by the opener the application passes
    'urn:c12:{F}', 'URN:c12:{F}',
)
EXTRA = (
    '{T}/sand/sub/{F}', 'file://{T}/sand/sub/{F}', '../sand/sub/{F}',
    '{T}/sand_evil/{F}', 'file://{T}/sand_evil/{F}',
    'sub/%2e%2e/%2e%2e/sand_evil/{F}', '..%2fother/{F}', '..\\other\\{F}', ' ../other/{F}',
    'file://localhost{T}/other/{F}', 'HTTP://stub.test/r/{F}', '//stub.test/r/{F}',
    'http://stub.test/sand/../other/{F}', 'file://{T}/sand%5fevil/{F}',
)
SLICE_K = 4

XSD = 'http://www.w3.org/2001/XMLSchema'
XSI = 'http://www.w3.org/2001/XMLSchema-instance'
ROOT_DECL = ('<xs:element name="root"><xs:complexType><xs:sequence>'
             '<xs:element name="box" minOccurs="0" maxOccurs="unbounded"><xs:complexType><xs:sequence>'
             '<xs:any minOccurs="0" maxOccurs="unbounded" processContents="lax"/></xs:sequence></xs:complexType>'
             '</xs:element></xs:sequence></xs:complexType></xs:element>\n')


def spellings(tier, seed):
    extra = EXTRA if tier == 'thorough' else tuple(s for s in EXTRA if in_slice(s, seed, SLICE_K))
    return CATALOGUE + extra


# --- fixture ----------------------------------------------------------------------------------

def target_xsd(ns, elem):
    return ('<xs:schema xmlns:xs="%s" targetNamespace="%s" elementFormDefault="qualified">\n'
            '<xs:element name="%s" type="xs:string"/>\n'
            '<xs:simpleType name="st"><xs:restriction base="xs:string"/></xs:simpleType>\n'
            '</xs:schema>\n' % (XSD, ns, elem))


def main_xsd(mech, loc):
    if mech == 'chain':
        ref = '<xs:include schemaLocation="chain.xsd"/>\n'
    elif mech in ('include', 'map-dict'):
        ref = '<xs:include schemaLocation="%s"/>\n' % loc
    elif mech.startswith('import') or mech == 'map-call':
        ref = '<xs:import namespace="urn:t" schemaLocation="%s"/>\n' % loc
    elif mech == 'redefine':
        ref = ('<xs:redefine schemaLocation="%s"><xs:simpleType name="st"><xs:restriction base="m:st">'
               '<xs:maxLength value="9"/></xs:restriction></xs:simpleType></xs:redefine>\n' % loc)
    elif mech == 'override':
        ref = ('<xs:override schemaLocation="%s"><xs:simpleType name="st"><xs:restriction base="xs:token"/>'
               '</xs:simpleType></xs:override>\n' % loc)
    else:
        ref = ''
    return ('<xs:schema xmlns:xs="%s" xmlns:m="urn:m" xmlns:t="urn:t" targetNamespace="urn:m" '
            'elementFormDefault="qualified">\n%s%s</xs:schema>\n' % (XSD, ref, ROOT_DECL))


def chain_xsd(loc):
    return ('<xs:schema xmlns:xs="%s" targetNamespace="urn:m" elementFormDefault="qualified">\n'
            '<xs:import namespace="urn:t" schemaLocation="%s"/>\n<xs:element name="chained"/>\n</xs:schema>\n'
            % (XSD, loc))


def doc_xml(mech, loc):
    if mech == 'hint-root':
        return ('<m:root xmlns:m="urn:m" xmlns:xsi="%s" xsi:schemaLocation="urn:m %s"><m:box/></m:root>\n'
                % (XSI, loc))
    if mech == 'locations-late':                  # no hint: the wildcard of m:box meets an element of urn:t
        return '<m:root xmlns:m="urn:m" xmlns:t="urn:t"><m:box><t:probe/></m:box></m:root>\n'
    ns = XMLNS if mech == 'hint-xmlns' else 'urn:t'
    return ('<m:root xmlns:m="urn:m" xmlns:t="urn:t" xmlns:xsi="%s"><m:box xsi:schemaLocation="%s %s">'
            '<t:probe/></m:box></m:root>\n' % (XSI, ns, loc))


class Tree:
    """The fixture tree plus the stub opener; owners maps a unique element name to the file / URL declaring it."""
    LOCAL_DIRS = (('sub', 'sand/sub'), ('other', 'other'), ('evil', 'sand_evil'))
    REMOTE_DIRS = ('/sand/sub', '/other', '/sand_evil', '/r')
    MEM_DIRS = ('', '/dir', '/')

    def __init__(self):
        self.root = os.path.realpath(tempfile.mkdtemp(prefix='c12_', dir='/var/tmp'))
        self.sand = os.path.join(self.root, 'sand')
        self.owners = {}                                    # element local name -> ('local', path) | ('remote', None)
        for tag, rel in self.LOCAL_DIRS:
            d = os.path.join(self.root, rel)
            os.makedirs(d)
            for kind, ns in TARGETS:
                name = 'l_%s_%s' % (tag, kind)
                path = os.path.join(d, kind + '.xsd')
                with open(path, 'w') as f:
                    f.write(target_xsd(ns, name))
                self.owners[name] = ('local', path)
        self.opener, self.stub = audit_c12.make_opener()
        for d in self.REMOTE_DIRS:
            for kind, ns in TARGETS:
                for scheme in ('http', 'https', 'ftp'):
                    self.owners[self.rname(scheme, d, kind)] = ('remote', None)
                self.stub.table['%s/%s.xsd' % (d, kind)] = \
                    (lambda scheme, d=d, kind=kind, ns=ns: target_xsd(ns, self.rname(scheme, d, kind)).encode())
        for d in self.MEM_DIRS:                             # mem:inc.xsd, mem:/dir/inc.xsd, mem://host/inc.xsd
            for kind, ns in TARGETS:
                self.owners[self.rname('mem', d, kind)] = ('remote', None)
                self.stub.table['%s/%s.xsd' % (d.rstrip('/'), kind) if d else kind + '.xsd'] = \
                    (lambda scheme, d=d, kind=kind, ns=ns: target_xsd(ns, self.rname(scheme, d, kind)).encode())
        for kind, ns in TARGETS:                                      # urn:c12:inc.xsd (path 'c12:inc.xsd')
            self.owners['r_urn_c12_' + kind] = ('remote', None)
            self.stub.table['c12:%s.xsd' % kind] = \
                (lambda scheme, kind=kind, ns=ns: target_xsd(ns, 'r_urn_c12_' + kind).encode())
        self.remote_text = {}
        for name in FILENAMES[2:5]:
            self.stub.table['/sand/' + name] = lambda scheme, name=name: self.remote_text[name]
        self.prev_opener = urllib.request._opener
        urllib.request.install_opener(self.opener)

    @staticmethod
    def rname(scheme, d, kind):
        return 'r_%s%s_%s' % (scheme, d.replace('/', '_'), kind)

    def close(self):
        urllib.request.install_opener(self.prev_opener)
        shutil.rmtree(self.root, ignore_errors=True)

    def sym(self, text):
        return text.replace(self.root, '{T}')

    def in_tree(self, path):
        try:
            return os.path.commonpath([os.path.realpath(path), self.root]) == self.root
        except ValueError:
            return False


# --- one case ---------------------------------------------------------------------------------

def make_source(tree, kind, name, text):
    """Returns (source, base_url, fp to close).  Files / stub entries are written here, before recording."""
    path = os.path.join(tree.sand, name)
    if kind in REMOTE_KINDS:
        tree.remote_text[name] = text.encode()
    elif kind != 'text+base' or name == 'chain.xsd':
        with open(path, 'w') as f:
            f.write(text)
    if kind == 'path':
        return path, None, None
    if kind == 'fileurl':
        return 'file://' + path, None, None
    if kind == 'rel+base':
        return name, tree.sand, None
    if kind == 'fp+fileurl':
        fp = tree.opener.open('file://' + path)
        return fp, tree.sand, fp
    if kind == 'fp+httpurl':
        fp = tree.opener.open('%s/%s' % (RBASE, name))
        return fp, RBASE, fp
    if kind == 'text+base':
        return text, 'file://' + tree.sand, None
    if kind == 'http':
        return '%s/%s' % (RBASE, name), None, None
    raise ValueError(kind)


def mapper_for(tree, mech, loc):
    if mech == 'map-dict':
        return {'innocent.xsd': loc, tree.sand + '/innocent.xsd': loc, 'file://' + tree.sand + '/innocent.xsd': loc,
                RBASE + '/innocent.xsd': loc}
    if mech == 'map-call':
        return lambda uri: loc if uri.endswith('innocent.xsd') else uri
    return None


def run_case(tree, version, allow, kind, mech, spelling):
    """Returns (list of (key, what), info)."""
    with warnings.catch_warnings():
        warnings.simplefilter('ignore')
        if mech in FORKED_MECHS:
            return _forked(_run_case, tree, version, allow, kind, mech, spelling)
        return _run_case(tree, version, allow, kind, mech, spelling)


def _forked(func, *args):
    """Runs func(*args) in a forked child and returns its (picklable) result, so that whatever the case does to
    process-wide state of the library (the shared meta-schema maps) dies with the child."""
    rfd, wfd = os.pipe()
    pid = os.fork()
    if pid == 0:
        status = 1
        try:
            os.close(rfd)
            try:
                payload = pickle.dumps(('ok', func(*args)))
            except BaseException:                                   # noqa
                payload = pickle.dumps(('error', traceback.format_exc()))
            with os.fdopen(wfd, 'wb') as w:
                w.write(payload)
            status = 0
        finally:
            os._exit(status)
    os.close(wfd)
    try:
        with os.fdopen(rfd, 'rb') as r:
            data = r.read()
    except BaseException:
        os.kill(pid, signal.SIGKILL)
        raise
    finally:
        os.waitpid(pid, 0)
    if not data:
        raise RuntimeError('forked case died without an answer: %r' % (args[1:],))
    tag, value = pickle.loads(data)
    if tag == 'error':
        raise RuntimeError('forked case failed: ' + value)
    return value


def _run_case(tree, version, allow, kind, mech, spelling):
    fname = 'xml.xsd' if mech == 'hint-xmlns' else 'inc.xsd' if mech in INC_MECHS else 'imp.xsd'
    loc = spelling.replace('{T}', tree.root).replace('{F}', fname)
    written = 'innocent.xsd' if mech in ('map-dict', 'map-call') else loc
    remote_main = kind in REMOTE_KINDS
    sandbox_base = None if remote_main else tree.sand
    main_cls = None if kind == 'text+base' else ('remote' if remote_main else 'inside')
    target_cls = access.spelling_class(loc, tree.sand, sandbox_base, RBASE if remote_main else None)
    base = 'C12|%s|%s|%s|%s|%s' % (version, allow, kind, mech, spelling)
    info = {'events': 0, 'calls': 0, 'main_cls': main_cls, 'target_cls': target_cls, 'outcome': None,
            'classes_seen': set(), 'notes': []}

    symptoms = []

    def disc(tag, what):
        symptoms.append((tag, what))

    def verdict():
        # one discrepancy per case: the key names every symptom, the text explains the first
        if not symptoms:
            return []
        return [(base + '|' + '+'.join(t for t, _w in symptoms),
                 symptoms[0][1] + ('' if len(symptoms) == 1 else ' [+%d related symptoms]' % (len(symptoms) - 1)))]

    cls = VERSIONS[version]
    kwargs = {'allow': allow, 'opener': tree.opener}
    mapper = mapper_for(tree, mech, loc)
    if mapper is not None:
        kwargs['uri_mapper'] = mapper
    if mech in ('locations', 'locations-late'):
        kwargs['locations'] = {'urn:t': loc}
    if '/' in mech:
        kwargs['loader_class'] = LocationSchemaLoader if mech.endswith('location-loader') else SafeSchemaLoader
    fps = []
    for name in FILENAMES[2:5]:                              # never leave a stale main / doc / chain behind
        try:
            os.unlink(os.path.join(tree.sand, name))
        except OSError:
            pass
    log = []
    schema = None
    doc = None
    raised = None
    try:
        if mech == 'hint-root':
            source, base_url, fp = make_source(tree, kind, 'doc.xml', doc_xml(mech, written))
            fps.append(fp)
            with audit_c12.recording() as log:
                del tree.stub.served[:]
                try:
                    info['calls'] += 1
                    doc = xmlschema.XmlDocument(source, cls=cls, validation='lax', base_url=base_url, **kwargs)
                    schema = doc.schema
                except (XMLSchemaException, OSError) as e:
                    raised = e
        else:
            # hint-elem / hint-xmlns: the instance is the main source; its schema is text that cannot be denied.
            # locations-late: schema and instance are both of the kind
            hinted = mech in ('hint-elem', 'hint-xmlns')
            skind = kind if not hinted else 'text+base'
            source, base_url, fp = make_source(tree, skind, 'main.xsd', main_xsd(mech, written))
            if hinted and kind in REMOTE_KINDS:
                base_url = RBASE
            fps.append(fp)
            if mech == 'chain':
                fps.append(make_source(tree, 'path' if kind not in REMOTE_KINDS else 'http', 'chain.xsd',
                                       chain_xsd(written))[2])
            dsource = None
            if mech in DOC_MECHS:
                dsource, _b, fp = make_source(tree, kind, 'doc.xml', doc_xml(mech, written))
                fps.append(fp)
            with audit_c12.recording() as log:
                del tree.stub.served[:]
                try:
                    info['calls'] += 1
                    schema = cls(source, base_url=base_url, **kwargs)
                    if dsource is not None:
                        info['calls'] += 1
                        list(schema.iter_errors(dsource, use_location_hints=hinted))
                except (XMLSchemaException, OSError) as e:
                    raised = e
    finally:
        for fp in fps:
            if fp is not None:
                fp.close()

    # 1. every observed access must be of an admitted class
    seen = set()
    for ekind, arg in log:
        if ekind == 'socket':
            disc('socket', 'a network call was attempted: %s' % arg)
            continue
        if ekind == 'open':
            if not (tree.in_tree(arg) or os.path.basename(arg) in FILENAMES):
                continue
        else:
            where, target = access.url_target(arg)
            if where == 'local' and not (tree.in_tree(target) or os.path.basename(target) in FILENAMES):
                continue
        ecls = access.event_class(ekind, arg, sandbox_base)
        info['events'] += 1
        info['classes_seen'].add(ecls)
        if not access.allowed(ecls, allow):
            where, target = ('local', arg) if ekind == 'open' else access.url_target(arg)
            tag = 'fetch:%s:%s' % (ecls, tree.sym(os.path.normpath(target) if where == 'local' else target))
            if tag not in seen:
                seen.add(tag)
                disc(tag, "allow=%r but the library %s %s, a location of class '%s' (main source %s, %s of %r)"
                     % (allow, 'opened file' if ekind == 'open' else 'requested', tree.sym(arg), ecls, kind, mech,
                        spelling))
    for url, _found in tree.stub.served:
        if not access.allowed('remote', allow):
            tag = 'fetch:remote:%s' % url
            if tag not in seen:
                seen.add(tag)
                disc(tag, 'allow=%r but the stub opener was asked for %s' % (allow, url))

    # 2. content of a denied location must not reach the result
    loaded = set()
    if schema is not None:
        qnames = set(schema.maps.elements)
        if schema.meta_schema is not None:
            qnames.update(schema.meta_schema.maps.elements)         # shared by every schema of the process
        for qname in sorted(qnames):
            local = qname.split('}')[-1]
            owner = tree.owners.get(local)
            if owner is None:
                continue
            loaded.add(local)
            ocls = 'remote' if owner[0] == 'remote' else access.path_class(owner[1], sandbox_base)
            if not access.allowed(ocls, allow):
                disc('influence:%s' % local,
                     "allow=%r but element %r, declared only in a location of class '%s', is in the element maps of the result"
                     % (allow, local, ocls))

    # 3. a denied main source / a denied target is reported
    main_denied = main_cls is not None and not access.allowed(main_cls, allow)
    if main_denied:
        if raised is None:
            disc('main-not-blocked', "allow=%r but a main source of class '%s' (%s) was accepted without error"
                 % (allow, main_cls, kind))
            info['outcome'] = 'main:accepted-though-denied'
        elif isinstance(raised, XMLResourceBlocked):
            info['outcome'] = 'main:blocked'
        else:
            info['outcome'] = 'main:refused(%s)' % type(raised).__name__
        return verdict(), info

    reported = raised is not None
    if schema is not None and not reported:
        reported = bool(schema.warnings) or bool(schema.maps.loader.missing_locations)
    if mech == 'chain' and not access.allowed(main_cls or 'inside', allow):
        how = 'via-denied'                 # the intermediate chain.xsd (next to the main source) is itself denied
        if not reported:
            disc('silent-chain', 'allow=%r denies the intermediate chain.xsd but nothing reports it' % allow)
    elif target_cls is None:
        how = 'open-reading'
    elif access.allowed(target_cls, allow):
        how = 'admitted'
    else:
        how = 'denied'
        # a hint for a namespace that the processor already owns (hint-xmlns: the XML namespace of the meta-schema)
        # may be ignored without notice, like any hint for an already loaded namespace: such a location is never
        # consulted, hence not "denied"; what is judged there is that nothing is fetched and nothing influences
        if not reported and mech != 'hint-xmlns':
            disc('silent', "allow=%r denies %r (class '%s') reached by %s, but nothing reports it: no exception, no "
                 'warning, no missing location' % (allow, spelling, target_cls, mech))
    if raised is not None:
        res = 'blocked' if isinstance(raised, XMLResourceBlocked) else 'error(%s)' % type(raised).__name__
    elif loaded:
        res = 'loaded'
    elif reported:
        res = 'skipped+reported'
    else:
        res = 'not-loaded'
    info['outcome'] = '%s:%s' % (how, res)
    if raised is not None:
        info['notes'].append('%s: %s' % (type(raised).__name__, tree.sym(str(raised))[:160]))
    return verdict(), info


# --- sharding ---------------------------------------------------------------------------------

def shards(tier, seed):
    return [(tier, seed, version, allow, kind) for version in VERSIONS for allow in access.MODES for kind in KINDS]


def mechs_of(version):
    return tuple(m for m in MECHS if m != 'override' or version == '1.1')


def run_shard(shard, acc):
    tier, seed, version, allow, kind = shard
    tree = Tree()
    situations = set()
    try:
        for mech in mechs_of(version):
            for spelling in spellings(tier, seed):
                case = {'version': version, 'allow': allow, 'kind': kind, 'mech': mech, 'spelling': spelling}
                try:
                    with acc.guard(30):
                        discs, info = run_case(tree, version, allow, kind, mech, spelling)
                except CaseTimeout:
                    acc.ev()
                    acc.out('hang')
                    acc.disc('C12|%s|%s|%s|%s|%s|hang' % (version, allow, kind, mech, spelling),
                             'no answer within 30 s', case)
                    continue
                acc.ev()
                acc.st(transitions=info['events'], traces=info['calls'])
                situations.add((version, allow, kind, mech, 'main', info['main_cls']))
                if not info['outcome'].startswith('main:'):
                    acc.nt('%s|%s|%s|%s|%s' % (version, allow, kind, mech, spelling))
                    situations.add((version, allow, kind, mech, 'target', info['target_cls']))
                for c in info['classes_seen']:
                    situations.add((version, allow, kind, mech, 'event', c))
                acc.out('disc' if discs else info['outcome'])
                if info['outcome'].startswith('admitted:') and not info['outcome'].endswith(':loaded'):
                    acc.cnt('admitted target not loaded (not judged)')
                if info['target_cls'] is None:
                    acc.cnt('open reading: report rule not judged')
                if not discs and mech == 'import' and spelling in (CATALOGUE[0], CATALOGUE[8], CATALOGUE[10]) \
                        and version == '1.0' and kind in ('path', 'text+base'):
                    acc.sample(dict(case, outcome=info['outcome'], events=info['events'], notes=info['notes']))
                for key, what in discs:
                    acc.disc(key, what, case)
    finally:
        tree.close()
    acc.st(states=len(situations))


def replay(case):
    tree = Tree()
    try:
        discs, _info = run_case(tree, case['version'], case['allow'], case['kind'], case['mech'], case['spelling'])
    finally:
        tree.close()
    return discs


def bounds(tier, seed):
    sp = spellings(tier, seed)
    return {'size': '%d allow x %d versions x %d source kinds x %d mechanisms (override: 1.1 only) x %d spellings'
                    % (len(access.MODES), len(VERSIONS), len(KINDS), len(MECHS), len(sp)),
            'deviations': 'complete product',
            'completed_bound': 'catalogue of %d spellings' % len(CATALOGUE),
            'next_bound': '%d further spellings: %s' % (len(EXTRA), 'all' if tier == 'thorough'
                                                       else 'residue slice %d of %d' % (seed % SLICE_K, SLICE_K)),
            'spellings': list(sp)}
