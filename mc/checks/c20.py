"""C20 - schema paths match instance paths; partial decoding equals the full result.

For every document of a bounded, completely enumerated set (all valid instances of 15 generated schema
templates x namespace variants up to a node bound, single-fault variants of the small ones, the
vehicles / collection example files) and for EVERY element of it, every path form of the element
(absolute with / without positional predicates, one `*` step at every position, //name, /root//name,
//parent/name[i], prefixed and default-namespace spellings) is evaluated by a plain path walker over
the instance tree and then

 (a) looked up on the schema (find / findall / iterfind / get_element) and compared with the declaration
     that governed the selected element(s) in a full validation (recorded through the public
     extra_validator callback, cross-checked against the declaration the generator built the element from);
 (b) used for path-restricted iter_errors / is_valid / decode, compared with the restriction of the
     whole-document errors and data to the selected subtree(s);
 (c) combined with max_depth in {0, 1, 2, 3, None}: data and errors above the cut equal the full result.
"""
import io
import json
import os
import re
import xml.etree.ElementTree as ET
from collections import Counter

import xmlschema
from xmlschema.validators import XsdElement

from mc.core import runner
from mc.gen import docs_c20 as g

ID = 'C20'
TITLE = 'Schema paths match instance paths; partial decoding equals the full result'
RULE = ('every valid instance (<= N elements; leaf and attribute values rotate through a small catalogue) of every '
        'generated schema (15 templates: local declarations, references, substitution members, one local name with '
        'different types under different parents, a local name equal to a global one, a named type shared by two '
        'parents, nested same name, duplicate name in one model, simple content with attributes, identity constraints, '
        'xs:unique / xs:key owned by a repeated element with duplicates in its 1st, 2nd, 3rd instance, two global root '
        'candidates with the same local child path and different types) '
        'in no-namespace / qualified (prefixed and default-namespace documents) / unqualified-local variants + every '
        'single-fault variant (bad value, bad attribute, unknown child, unknown attribute, dropped leaf at every node) '
        'of the instances <= Nf elements + the vehicles / collection example files; x every element x every path form '
        '(own path with and without positional predicates, absolute and relative to the root, one * step at each '
        'position (absolute, and relative to the root when the * is below it), '
        '//name, /root//name, //parent/name[i], //*) x prefixed / default-namespace / document-own spelling '
        'x {find, findall, iterfind, get_element, iter_errors, is_valid, decode (default and JsonML converters)} '
        'x max_depth in {0,1,2,3,None} (whole document, and combined with the own positional path); one evaluation = '
        'one (document, path, spelling, API) comparison; non-trivial = new (schema, path without positions, spelling, '
        'API group, selected governing declarations / expected error signature); discrepancy keys name schema, API, '
        'path shape, spelling and the kind of wrong result, the document is the recorded witness; additionally every '
        'small qualified document is processed back-to-back, in both orders, with its twin in a second target namespace '
        '(same prefix / default-namespace spelling, same path strings), each judged against its own whole-document result')
ASSUMPTIONS = [
    'the governing declaration of an element is the one passed to extra_validator during a whole-document '
    'iter_errors() run; for generated documents it must also carry the XSD id the generator built the element from',
    'schema.find() on the path of a substitution-group member may return the particle of the head (the library '
    'resolves the member by name in get_element); get_element() must return the member declaration itself',
    'two distinct declarations with the same name, type object, default, fixed, nillable and no identity '
    'constraints are interchangeable (Element Declarations Consistent): counted, not judged',
    'for paths selecting several elements findall() must cover the governing declarations of all of them; whether it '
    'selects more (declarations not instantiated in the document) and whether find() is one of them is only counted',
    'errors are compared as multisets of (class, reason, element) and must carry the same path string; errors raised '
    'by identity constraints are judged only where the statement clearly applies (templates uniq/keyd: an owner instance '
    'is an ancestor-or-self of every selected element and every element its selector reaches lies in the selected '
    'subtrees); otherwise, and for xs:ID/IDREF, they are skipped and counted on both sides',
    'namespace declarations (@xmlns...) that converters attach to the outermost decoded element are stripped on both sides',
    'max_depth=k on a whole document keeps elements of depth <= k (root = 1) with their attributes, simple content '
    'and content-model errors (tests/validation/test_decoding.py::test_max_depth_argument); k=0 may equal k=1; '
    'combined with a path, decode() cuts k levels below each selected element; iter_errors(path, max_depth=k) may '
    'cut at k or k-1 levels (the library starts the selected element at level 1 there): counted',
    'lazy resources, xs:list values and mixed content are outside the alphabet',
]
BUDGET_S = {'quick': 900, 'thorough': 3600}
DEPTHS = (0, 1, 2, 3)

TIERS = {      # N: valid documents complete up to N elements, N+1 sliced in quick; Nf likewise for faulty documents
    'quick': {'N': 11, 'Nf': 5, 'rots': (0,), 'K': 4, 'Np': 7},
    'thorough': {'N': 15, 'Nf': 7, 'rots': (0, 1), 'K': 1, 'Np': 10},      # N = 15 exhausts the (finite) instance set of every template
}


# --- schemas and documents --------------------------------------------------------------------------------

_SCHEMAS = {}


def schema_names():
    return ['%s.%s' % kv for kv in g.schema_keys()] + sorted(g.CORPUS)


def load_schema(name):
    if name not in _SCHEMAS:
        if name in g.CORPUS:
            schema = xmlschema.XMLSchema(g.corpus_path(g.CORPUS[name][0]))
            text = None
        else:
            tname, variant = name.split('.')
            text = g.render_xsd(g.TEMPLATES[tname], variant)
            schema = xmlschema.XMLSchema(text)
        labels = {}
        for k, x in enumerate(schema.iter_components(XsdElement)):
            labels[id(x)] = x.elem.get('id') or '%s#%d' % (x.prefixed_name, k)
        _SCHEMAS[name] = (schema, text, labels)
    return _SCHEMAS[name]


_DOCS = {}


def documents(name, tier, seed):
    key = (name, tier, seed)
    if key not in _DOCS:
        _DOCS.clear()
        _DOCS[key] = _documents(name, tier, seed)
    return _DOCS[key]


def _documents(name, tier, seed):
    """deterministic list of document descriptors of one schema:
    {'docid', 'xml', 'govs' (governing ids in document order or None), 'valid' (by construction), 'size'}"""
    cfg = TIERS[tier]
    out = []
    if name in g.CORPUS:
        for rel in g.CORPUS[name][1]:
            with open(g.corpus_path(rel), encoding='utf-8') as f:
                xml = f.read()
            out.append({'docid': rel, 'xml': xml, 'govs': None, 'valid': 'error' not in rel, 'size': 0})
        return out
    tname, variant = name.split('.')
    tpl = g.TEMPLATES[tname]
    top = cfg['N'] + (1 if cfg['K'] > 1 else 0)
    for bp in g.shapes(tpl, top):
        size = g.bsize(bp)
        text = g.shape_text(bp)
        if size > cfg['N'] and not runner.in_slice('%s|%s' % (name, text), seed, cfg['K']):
            continue
        for rot in cfg['rots']:
            root = g.instantiate(bp, rot)
            if tname == 'ident':
                g.fix_identity_values(root)
            govs = [n.gov for n in g.preorder(root)]
            for form in g.doc_forms(variant):
                out.append({'docid': '%s:%s:r%d' % (form, text, rot), 'xml': g.serialise(root, variant, form),
                            'govs': govs, 'valid': True, 'size': size})
            ftop = cfg['Nf'] + (1 if cfg['K'] > 1 else 0)
            if rot == 0 and size <= ftop:
                if size > cfg['Nf'] and not runner.in_slice('%s|%s|f' % (name, text), seed, cfg['K']):
                    continue
                form = g.doc_forms(variant)[0]
                for fault in g.faults(root):
                    bad = g.apply_fault(root, fault)
                    out.append({'docid': '%s:%s:r%d:%s@%d' % (form, text, rot, fault[0], fault[1]),
                                'xml': g.serialise(bad, variant, form), 'govs': None, 'valid': False, 'size': size})
            if rot == 0 and tpl.identities:
                # identity faults at every size: the duplicate sits in the first, second, third owner in turn
                form = g.doc_forms(variant)[0]
                for fault in g.dup_faults(root, {m['target'] for m in tpl.identities}):
                    bad = g.apply_fault(root, fault)
                    out.append({'docid': '%s:%s:r%d:%s@%d' % (form, text, rot, fault[0], fault[1]),
                                'xml': g.serialise(bad, variant, form), 'govs': None, 'valid': False, 'size': size})
    return out


CHUNK = 12          # documents per shard


def pair_documents(tname, tier, seed):
    """documents of the qualified variant that are also processed back-to-back with their twin in the second
    target namespace (same prefix, same default-namespace spelling): valid ones up to Np elements and the
    bad-value / bad-attribute fault variants (non-empty error lists)"""
    cfg = TIERS[tier]
    return [d for d in documents(tname + '.q', tier, seed)
            if (d['valid'] and d['size'] <= cfg['Np']) or ':badval@' in d['docid'] or ':badattr@' in d['docid']]


def pair_templates():
    return [t.name for t in g.templates() if 'q' in t.variants]


def shards(tier, seed):
    out = []
    for name in schema_names():
        n = len(documents(name, tier, seed))
        step = 2 if name in g.CORPUS else CHUNK
        for lo in range(0, n, step):
            out.append((tier, seed, name, lo, min(lo + step, n)))
    for tname in pair_templates():
        n = len(pair_documents(tname, tier, seed))
        for lo in range(0, n, 2 * CHUNK):
            out.append((tier, seed, 'PAIR:' + tname, lo, min(lo + 2 * CHUNK, n)))
    only = os.environ.get('C20_ONLY')        # developer aid: restrict a run to one schema (never used by MANIFEST commands)
    if only:
        out = [x for x in out if x[2] == only]
    return out


def bounds(tier, seed):
    cfg = TIERS[tier]
    return {'size': 'valid instances of every generated schema complete up to %d elements%s; single-fault variants of '
                    'instances up to %d elements%s; corpus files as they are'
                    % (cfg['N'], ' + residue slice %d/%d of %d' % (seed % cfg['K'], cfg['K'], cfg['N'] + 1) if cfg['K'] > 1 else '',
                       cfg['Nf'], ' + the same slice of %d' % (cfg['Nf'] + 1) if cfg['K'] > 1 else ''),
            'deviations': 'faults <= 1 per document; value rotations %s; max_depth in %s + None'
                          % (list(cfg['rots']), list(DEPTHS)),
            'twins': 'qualified documents <= %d elements and all bad-value variants, x their twin in %s, both orders' % (cfg['Np'], g.TNS2),
            'instance_sets_exhausted': cfg['N'] >= 15,     # every template has finitely many instances, all <= 15 elements
            'schemas': schema_names()}


# --- helpers ----------------------------------------------------------------------------------------------

def res(x):
    return x.ref if getattr(x, 'ref', None) is not None else x


def is_member_of(schema, member, head):
    seen = 0
    while member is not None and getattr(member, 'substitution_group', None) and seen < 8:
        if member.substitution_group == head.name:
            return True
        member = schema.maps.elements.get(member.substitution_group)
        seen += 1
    return False


def equivalent(a, b):
    return (isinstance(a, XsdElement) and isinstance(b, XsdElement) and a.name == b.name and a.type is b.type
            and a.default == b.default and a.fixed == b.fixed and a.nillable == b.nillable
            and not a.identities and not b.identities)


def is_identity_error(e):
    v = getattr(e, 'validator', None)
    return type(v).__name__ in ('XsdKey', 'XsdKeyref', 'XsdUnique', 'XsdIdentity', 'Xsd11Key', 'Xsd11Keyref',
                                'Xsd11Unique') or bool(_IDENTITY.search(e.reason or ''))


_IDENTITY = re.compile(r"IDREF|not found for Xsd|duplicated value|missing key field|field selects|[Dd]uplicated xs:ID")


_POS = re.compile(r'\[\d+\]')
_PREFIX = re.compile(r'(?<![\w:])[A-Za-z_][\w.-]*:(?=[A-Za-z_])')


def tkind(got, want):
    return '%s-for-%s' % (type(got).__name__, type(want).__name__)


_IDENT_NAME = re.compile(r"Xsd\w+\(name='(?:[\w.-]+:)?([\w.-]+)'")


class Nav(Exception):
    pass


def child_key(d, local):
    for k in d:
        if isinstance(k, str) and k[:1] != '@' and k != '$' and k.split(':')[-1] == local:
            return k
    raise Nav(local)


def sub_default(data, chain):
    cur = data
    for n in chain[1:]:
        if not isinstance(cur, dict):
            raise Nav(n.local)
        x = cur[child_key(cur, n.local)]
        if isinstance(x, list):
            if n.pos > len(x):
                raise Nav(n.local)
            cur = x[n.pos - 1]
        elif n.pos == 1:
            cur = x
        else:
            raise Nav(n.local)
    return cur


def strip_top_default(x):
    if isinstance(x, dict):
        y = {k: v for k, v in x.items() if not (isinstance(k, str) and k.startswith('@xmlns'))}
        if not y:
            return None
        if list(y) == ['$']:
            return y['$']
        return y
    return x


def cut_default(data, node, k):
    """decoded value of `node` (default converter) with every element deeper than k levels below removed;
    k = 1 keeps the node itself with attributes and simple content"""
    if not isinstance(data, dict):
        return data
    out = {}
    for key, v in data.items():
        if isinstance(key, str) and (key[:1] == '@' or key == '$'):
            out[key] = v
        elif k > 1:
            kids = [c for c in node.kids if c.local == key.split(':')[-1]]
            if isinstance(v, list):
                if len(kids) != len(v):
                    raise Nav(key)
                out[key] = [cut_default(x, c, k - 1) for x, c in zip(v, kids)]
            else:
                if len(kids) != 1:
                    raise Nav(key)
                out[key] = cut_default(v, kids[0], k - 1)
    return out or None


def jkids(item):
    return [x for x in item[1:] if isinstance(x, list)]


def sub_jsonml(data, chain):
    cur = data
    for n in chain[1:]:
        same = [x for x in jkids(cur) if isinstance(x[0], str) and x[0].split(':')[-1] == n.local]
        if n.pos > len(same):
            raise Nav(n.local)
        cur = same[n.pos - 1]
    return cur


def strip_top_jsonml(x):
    if isinstance(x, list) and len(x) > 1 and isinstance(x[1], dict):
        a = {k: v for k, v in x[1].items() if not k.startswith('xmlns')}
        return [x[0]] + ([a] if a else []) + x[2:]
    return x


def cut_jsonml(item, k):
    if not isinstance(item, list):
        return item
    out = []
    for x in item:
        if isinstance(x, list):
            if k > 1:
                out.append(cut_jsonml(x, k - 1))
        else:
            out.append(x)
    return out


def short(x, n=160):
    s = json.dumps(x, default=repr, sort_keys=True)
    return s if len(s) <= n else s[:n] + '...'


# --- analysis of one document ---------------------------------------------------------------------------------

class Stats:
    def __init__(self):
        self.ev = 0
        self.traces = 0
        self.transitions = 0
        self.outcomes = Counter()
        self.counters = Counter()
        self.reached = set()
        self.nts = set()


def ns_forms(nodes, prefixes, xml):
    """[(label, {ns: prefix} for rendering, namespaces argument, all path forms and schema lookups?)]
    'auto' = the spelling of the document itself with namespaces=None (own and //name paths only)"""
    spaces = {n.ns for n in nodes}
    if spaces == {''}:
        return [('n', {}, None, True)]
    pre = {ns: p for p, ns in prefixes.items()}
    forms = [('pre', pre, dict(prefixes), True)]
    if len(spaces) == 1:
        ns = next(iter(spaces))
        forms.append(('def', {ns: ''}, {'': ns}, True))
    own = {}
    for _ev, (pfx, uri) in ET.iterparse(io.StringIO(xml), events=('start-ns',)):
        own.setdefault(uri, pfx)
    if all(ns in own for ns in spaces if ns) and not ('' in spaces and '' in own.values()):
        forms.append(('auto', own, None, False))
    return forms


def analyse(name, doc):
    """returns (discrepancies [(key, what)], Stats)"""
    schema, _text, labels = load_schema(name)
    st = Stats()
    discs = []
    base = 'C20|%s' % name

    def lab(x):
        if x is None:
            return 'None'
        return labels.get(id(x)) or '%s:%s' % (type(x).__name__, getattr(x, 'name', '?'))

    def disc(kind, path, form, observed, what):
        """key: schema, check, path with positions and prefixes made anonymous, spelling, kind of wrong result
        (the document is the witness kept in the case, not part of the key)"""
        shape = _PREFIX.sub('P:', _POS.sub('[i]', path))
        discs.append(('%s|%s|%s|%s|%s' % (base, kind, shape, form, observed), '%s: %s' % (doc['docid'], what)))

    xml = doc['xml']
    nodes = g.ref_tree(xml)
    resource = xmlschema.XMLResource(xml)
    lib_elems = [e for e in resource.root.iter() if isinstance(e.tag, str)]
    if len(lib_elems) != len(nodes):
        raise RuntimeError('parsers disagree on %s' % doc['docid'])
    index = {id(e): i for i, e in enumerate(lib_elems)}
    if doc['govs'] is not None:
        for n, gv in zip(nodes, doc['govs']):
            n.gov = gv
    if name in g.CORPUS:
        prefixes = dict(g.CORPUS[name][2])
    else:
        prefixes = {'t': g.TNS}

    # ---- whole-document baseline ------------------------------------------------------------------------
    governing = {}

    def ev(elem, xsd_element):
        governing.setdefault(index.get(id(elem)), xsd_element)

    def errsig(e):
        return type(e).__name__, e.reason or '', index.get(id(e.elem), -1)

    full_errors = list(schema.iter_errors(resource, extra_validator=ev))
    st.traces += 1
    plain = [e for e in full_errors if not is_identity_error(e)]
    st.counters['identity_errors_skipped'] += len(full_errors) - len(plain)
    full_sigs = [errsig(e) for e in plain]
    full_paths = {errsig(e): e.path for e in full_errors}
    metas = {m['name']: m for m in (g.TEMPLATES[name.split('.')[0]].identities if name not in g.CORPUS else ())}

    def ident_meta(e):
        m = _IDENT_NAME.search(e.reason or '')
        return metas.get(m.group(1)) if m else None

    applicable_memo = {}

    def applicable(meta, sel):
        """the statement clearly applies to this identity constraint under this selection: an owner instance is an
        ancestor-or-self of every selected element and everything its selector reaches lies in the selected subtrees"""
        key = (meta['name'], tuple(sel))
        if key not in applicable_memo:
            ok, owners = True, {}
            for i in sel:
                n = nodes[i]
                while n is not None and n.local != meta['owner']:
                    n = n.parent
                if n is None:
                    ok = False
                    break
                owners[n.i] = n
            for o in owners.values():
                for t in o.kids:
                    if t.local == meta['target'] and not any(nodes[i].i <= t.i < nodes[i].end for i in sel):
                        ok = False
            applicable_memo[key] = ok
        return applicable_memo[key]

    def judged(errors, sel):
        """errors that are compared: all but the identity errors the statement does not clearly cover"""
        out = []
        for e in errors:
            if is_identity_error(e):
                meta = ident_meta(e)
                if meta is None or not applicable(meta, sel):
                    continue
            out.append(e)
        return out

    full_ident = [e for e in full_errors if is_identity_error(e)]
    valid = not full_errors
    if doc['valid'] and not valid:
        st.counters['generated_valid_document_rejected_by_library'] += 1
        disc('baseline', '-', '-', 'rejected', 'a document built from the schema as a valid instance is rejected: %s'
             % short([s[:2] for s in full_sigs]))
    st.outcomes['document:%s' % ('valid' if valid else 'invalid')] += 1

    if valid:
        for n in nodes:
            x = governing.get(n.i)
            if x is None:
                disc('governing', '-', '-', 'unvisited:' + n.local, 'element %d (%s) of a valid document was never passed '
                     'to extra_validator' % (n.i, n.local))
                continue
            st.reached.add('%s|%s' % (name, lab(x)))
            if n.gov is not None:
                st.ev += 1
                if x.elem.get('id') != n.gov:
                    disc('governing', '-', '-', '%s-for-%s' % (lab(x), n.gov), 'element %d (%s) was generated from declaration %s but '
                         'validated by %s' % (n.i, n.local, n.gov, lab(x)))
                    st.outcomes['governing:DISC'] += 1
                else:
                    st.outcomes['governing:as-constructed'] += 1

    forms = ns_forms(nodes, prefixes, xml)
    fulldata = {}          # form label -> (default data, decode errors sigs, jsonml data)
    for flabel, _pre, nsarg, _j in forms:
        try:
            d, errs = schema.decode(resource, validation='lax', namespaces=nsarg)
            j, _ = schema.decode(resource, validation='lax', namespaces=nsarg, converter=xmlschema.JsonMLConverter)
        except Exception as e:       # noqa
            disc('baseline', '-', flabel, type(e).__name__, 'whole-document decode raises %r' % e)
            return discs, st
        st.traces += 2
        dsigs = Counter(errsig(e) for e in errs if not is_identity_error(e))
        if dsigs != Counter(full_sigs):
            st.counters['decode_errors_differ_from_iter_errors'] += 1
        fulldata[flabel] = (d, j)

    # ---- the distinct paths of the document ------------------------------------------------------------------
    paths = {}             # steps -> set of labels
    for n in nodes:
        for label, steps in g.path_forms(n).items():
            paths.setdefault(steps, set()).add(label.rstrip('0123456789'))
    paths.setdefault((('d', '*', None),), set()).add('allstar')
    selections = {}
    for steps in paths:
        sel, work = g.walk_path(nodes, steps)
        st.transitions += work
        selections[steps] = sel
        if not sel:
            raise RuntimeError('walker selects nothing for %r' % (steps,))

    def subtree_sigs(sel, sigs):
        c = Counter()
        for i in sel:
            n = nodes[i]
            for s in sigs:
                if n.i <= s[2] < n.end:
                    c[s] += 1
        return c

    def diff(exp, got):
        miss = sorted((exp - got).elements())
        extra = sorted((got - exp).elements())
        def names(sigs):
            return ','.join(sorted({'%s@%s' % (a, nodes[i].local if i >= 0 else '-') for a, _, i in sigs})) or '-'
        return 'missing=%s,extra=%s' % (names(miss), names(extra)), \
               'missing %s, unexpected %s' % (short(miss[:3], 300), short(extra[:3], 300))

    def partial_checks(path, sel, shape, flabel, nsarg, with_depth):
        # ---------- (b) path-restricted validation and decoding -------------------------------------------
        if any(governing.get(i) is None for i in sel):
            st.counters['path selects an element no declaration governed in the whole-document run: skipped'] += 1
            return
        exp_ident = [errsig(e) for e in judged(full_ident, sel)]
        exp = subtree_sigs(sel, full_sigs + exp_ident)
        unjudged_exp = sum(subtree_sigs(sel, [errsig(e) for e in full_ident]).values()) - \
            sum(subtree_sigs(sel, exp_ident).values())
        if exp_ident:
            st.counters['identity errors judged in a path-restricted run'] += 1
        st.nts.add('%s|%s|%s|partial|%s' % (name, shape, flabel, sorted((a, b) for a, b, _ in exp)))
        part_gov = {}

        def ev2(elem, xsd_element):
            part_gov.setdefault(index.get(id(elem)), xsd_element)

        st.ev += 2
        st.traces += 2
        try:
            perrs = list(schema.iter_errors(resource, path=path, namespaces=nsarg, extra_validator=ev2))
            pvalid = schema.is_valid(resource, path=path, namespaces=nsarg)
        except Exception as e:      # noqa
            disc('iter_errors', path, flabel, type(e).__name__, 'iter_errors(path=%r) raises %r' % (path, e))
            st.outcomes['partial-errors:exception'] += 1
            perrs = pvalid = None
        if perrs is not None:
            pplain = judged(perrs, sel)
            st.counters['identity_errors_skipped'] += len(perrs) - len(pplain)
            got = Counter(errsig(e) for e in pplain)
            wrong_decl = sorted('%s: %s instead of %s' % (nodes[i].local, lab(x), lab(governing.get(i)))
                                for i, x in part_gov.items()
                                if i is not None and governing.get(i) is not None and res(x) is not res(governing[i]))
            if wrong_decl:
                st.counters['partial run used another declaration for some element'] += 1
            if got != exp:
                o, w = diff(exp, got)
                disc('iter_errors', path, flabel, o, 'iter_errors(path=%r) on %d selected subtree(s): %s%s'
                     % (path, len(sel), w, '; declarations used: %s' % wrong_decl[:3] if wrong_decl else ''))
                st.outcomes['partial-errors:DISC'] += 1
            else:
                st.outcomes['partial-errors:agree-%s' % ('empty' if not exp else 'nonempty')] += 1
                for e in pplain:
                    want = full_paths.get(errsig(e))
                    if want != e.path and not (want or '').endswith((e.path or '').lstrip('/')):
                        disc('error-path', path, flabel, 'differs', 'error path %r in the partial run, %r in '
                             'the whole-document run' % (e.path, want))
            if pvalid != (not exp) and len(perrs) == len(pplain) and not unjudged_exp:
                disc('is_valid', path, flabel, str(pvalid), 'is_valid(path=%r) is %s; the selected subtree(s) '
                     'carry %d error(s) in the whole-document run' % (path, pvalid, sum(exp.values())))
                st.outcomes['is_valid:DISC'] += 1
            else:
                st.outcomes['is_valid:%s' % pvalid] += 1

        fd, fj = fulldata[flabel]
        reported = set()       # the JsonML run repeats a discrepancy of the default converter: one key, not two
        for conv, full, sub, strip, convarg in (('default', fd, sub_default, strip_top_default, None),
                                                ('jsonml', fj, sub_jsonml, strip_top_jsonml, xmlschema.JsonMLConverter)):
            st.ev += 1
            st.traces += 1
            try:
                wants = [strip(sub(full, g.chain(nodes[i]))) for i in sel]
            except (Nav, KeyError, IndexError, TypeError):
                st.counters['data restriction not computable (faulty neighbourhood)'] += 1
                wants = None
            kw = {'converter': convarg} if convarg else {}
            try:
                pdata, perr2 = schema.decode(resource, path=path, namespaces=nsarg, validation='lax', **kw)
            except Exception as e:      # noqa
                disc('decode-' + conv, path, flabel, type(e).__name__, 'decode(path=%r) raises %r' % (path, e))
                st.outcomes['partial-data:exception'] += 1
                continue
            got = Counter(errsig(e) for e in judged(perr2, sel))
            if got != exp:
                o, w = diff(exp, got)
                if ('errors', o) not in reported:
                    reported.add(('errors', o))
                    disc('decode-errors-' + conv, path, flabel, o, 'errors of decode(path=%r): %s' % (path, w))
                st.outcomes['partial-decode-errors:DISC'] += 1
            if wants is None:
                continue
            if len(sel) == 1:
                gotd = [strip(pdata)]
            elif isinstance(pdata, list) and len(pdata) == len(sel):
                gotd = [strip(x) for x in pdata]
            else:
                gotd = None
            if gotd is not None and gotd != wants and len(sel) > 1 and \
                    sorted(map(short, gotd)) == sorted(map(short, wants)) and \
                    Counter(json.dumps(x, default=repr, sort_keys=True) for x in gotd) == \
                    Counter(json.dumps(x, default=repr, sort_keys=True) for x in wants):
                st.counters['selected parts returned in another order than document order'] += 1
                st.outcomes['partial-data:agree-reordered'] += 1
            elif gotd != wants:
                k = 0
                if gotd is not None:
                    k = next(i for i in range(len(sel)) if gotd[i] != wants[i])
                if 'data' not in reported:
                    reported.add('data')
                    disc('decode-' + conv, path, flabel,
                         tkind(gotd[k], wants[k]) if gotd is not None else 'shape-of-result',
                         'decode(path=%r) item %d of %d: %s; the whole-document result holds %s there'
                         % (path, k, len(sel), short(gotd[k] if gotd is not None else pdata, 300), short(wants[k], 300)))
                st.outcomes['partial-data:DISC'] += 1
            else:
                st.outcomes['partial-data:agree'] += 1

        # ---------- (c) path + max_depth (own positional path only) ---------------------------------------
        if with_depth and len(sel) == 1:
            node = nodes[sel[0]]
            for k in DEPTHS:
                st.ev += 2
                st.traces += 2
                try:
                    pdata, perr2 = schema.decode(resource, path=path, namespaces=nsarg, validation='lax', max_depth=k)
                    perrs = list(schema.iter_errors(resource, path=path, namespaces=nsarg, max_depth=k))
                except Exception as e:      # noqa
                    disc('path-depth', path, flabel, type(e).__name__,
                         'decode/iter_errors(path=%r, max_depth=%d) raises %r' % (path, k, e))
                    st.outcomes['path-depth:exception'] += 1
                    continue
                try:
                    mine = sub_default(fd, g.chain(node))
                    wants = [strip_top_default(cut_default(mine, node, kk)) for kk in ((0, 1) if k == 0 else (k,))]
                    if k == 0:
                        wants[0] = None
                except (Nav, KeyError, IndexError, TypeError):
                    st.counters['data restriction not computable (faulty neighbourhood)'] += 1
                    wants = None
                if wants is not None:
                    if strip_top_default(pdata) not in wants:
                        disc('path-depth-data', path, flabel, tkind(strip_top_default(pdata), wants[-1]),
                             'decode(path=%r, max_depth=%d) = %s; the full data cut %d level(s) below the selected '
                             'element is %s' % (path, k, short(pdata, 300), k, short(wants[-1], 300)))
                        st.outcomes['path-depth-data:DISC'] += 1
                    else:
                        st.outcomes['path-depth-data:agree'] += 1
                for what, errs in (('decode', perr2), ('iter_errors', perrs)):
                    got = Counter(errsig(e) for e in errs if not is_identity_error(e))
                    cuts = {}
                    for c in range(0, max(k, 1) + 1):
                        cuts[c] = Counter(s for s in full_sigs
                                          if node.i <= s[2] < node.end and nodes[s[2]].depth - node.depth + 1 <= c)
                    if k == 0:
                        allowed = (1, 0)
                    elif what == 'decode':
                        allowed = (k,)
                    else:
                        allowed = (k, max(k - 1, 1))      # iter_errors(path=...) starts one level down
                    hit = [c for c in allowed if cuts[c] == got]
                    if not hit:
                        o, w = diff(cuts[k], got)
                        disc('path-depth-errors', path, flabel, '%s:%s' % (what, o),
                             '%s(path=%r, max_depth=%d): %s' % (what, path, k, w))
                        st.outcomes['path-depth-errors:DISC'] += 1
                    else:
                        st.outcomes['path-depth-errors:agree'] += 1
                        if k and cuts[hit[0]] != cuts[k]:
                            st.counters['%s(path, max_depth=k>0) reports the errors of a cut above k' % what] += 1

    for steps in sorted(paths, key=repr):
        sel = selections[steps]
        shape = g.render_path(tuple((a, t, None) for a, t, _ in steps), {ns: 'P' for ns in {n.ns for n in nodes} if ns})
        for flabel, pre, nsarg, judge in forms:
            path = g.render_path(steps, pre)
            if not judge and not ({'pos', 'desc'} & paths[steps]):
                continue
            # ---------- (a) schema lookups --------------------------------------------------------------
            if valid and judge:
                govs = [governing.get(i) for i in sel]
                if all(x is not None for x in govs):
                    gres = []
                    for x in govs:
                        if not any(res(x) is y for y in gres):
                            gres.append(res(x))
                    st.ev += 3
                    st.traces += 3
                    # the schema-side calls document namespaces=None as "the schema document's own declarations":
                    # a schema document that binds a default namespace (variant nd) is therefore asked with the
                    # explicit empty map, which is what the path-driven loops pass for a document without declarations
                    sarg = {} if nsarg is None and name.endswith('.nd') else nsarg
                    try:
                        found = schema.find(path, sarg)
                        fa = schema.findall(path, sarg)
                        fi = list(schema.iterfind(path, sarg))
                        rel = schema.find(path[1:], sarg) if path[:1] == '/' and path[:2] != '//' else found
                    except Exception as e:      # noqa
                        disc('find', path, flabel, type(e).__name__, 'schema.find(%r) raises %r' % (path, e))
                        st.outcomes['find:exception'] += 1
                        found, fa, fi, rel = None, [], [], None
                    st.nts.add('%s|%s|%s|find|%s' % (name, shape, flabel, ','.join(sorted(lab(x) for x in gres))))

                    def matches(f, x):
                        """f (a find result) stands for the governing declaration x"""
                        if f is None or not isinstance(f, XsdElement):
                            return None
                        if f is x or res(f) is res(x):
                            return 'exact'
                        if is_member_of(schema, res(x), res(f)):
                            return 'via-head'
                        if equivalent(res(f), res(x)):
                            return 'equivalent'
                        return None

                    if len(fa) != len(fi) or any(a is not b for a, b in zip(fa, fi)) or \
                            (found is not (fa[0] if fa else None)) or rel is not found:
                        disc('find-consistency', path, flabel, '%s/%s/%s/%s' % (lab(found), lab(rel), len(fa), len(fi)),
                             'find(%r) -> %s, without leading slash -> %s, findall -> %s, iterfind -> %s'
                             % (path, lab(found), lab(rel), [lab(x) for x in fa], [lab(x) for x in fi]))
                        st.outcomes['find-consistency:DISC'] += 1
                    own = bool({'pos', 'nopos'} & paths[steps])       # the path of the element itself
                    if len(gres) == 1 and own:
                        m = matches(found, gres[0])
                        if m is None:
                            disc('find', path, flabel, '%s-for-%s' % (lab(found), lab(gres[0])),
                                 'schema.find(%r) is %s but the %d selected element(s) are governed by %s'
                                 % (path, lab(found), len(sel), lab(govs[0])))
                            st.outcomes['find:DISC'] += 1
                        else:
                            st.outcomes['find:%s' % m] += 1
                    else:
                        missing = [x for x in gres if not any(matches(f, x) for f in fa)]
                        if missing:
                            disc('findall', path, flabel, '%s-misses-%s' % (','.join(sorted(lab(x) for x in fa)) or 'nothing',
                                                                            ','.join(sorted(lab(x) for x in missing))),
                                 'schema.findall(%r) = %s does not cover governing declaration(s) %s of the selected '
                                 'elements' % (path, [lab(x) for x in fa], [lab(x) for x in missing]))
                            st.outcomes['findall:DISC'] += 1
                        else:
                            st.outcomes['findall:covers'] += 1
                        st.counters['multi: find() %s a governing declaration of the selection'
                                    % ('is' if any(matches(found, x) for x in gres) else 'is not')] += 1
                    extra_f = [f for f in fa if not any(matches(f, x) for x in gres)]
                    st.counters['findall %s' % ('selects also declarations not instantiated' if extra_f else 'exact')] += 1
                    # get_element as used by the path-driven loops: one selected element
                    if len(sel) == 1 and own:
                        st.ev += 1
                        st.traces += 1
                        tag = lib_elems[sel[0]].tag
                        try:
                            got = schema.get_element(tag, path, sarg)
                        except Exception as e:      # noqa
                            got = e
                        x = govs[0]
                        if isinstance(got, XsdElement) and (got is x or res(got) is res(x)):
                            st.outcomes['get_element:exact'] += 1
                        elif isinstance(got, XsdElement) and equivalent(res(got), res(x)):
                            st.outcomes['get_element:equivalent'] += 1
                        else:
                            disc('get_element', path, flabel, '%s-for-%s' % (
                                lab(got) if not isinstance(got, Exception) else type(got).__name__, lab(x)),
                                 'schema.get_element(%r, %r) is %s but the element is governed by %s'
                                 % (tag, path, got if isinstance(got, Exception) else lab(got), lab(x)))
                            st.outcomes['get_element:DISC'] += 1

            own_path = bool({'pos', 'nopos'} & paths[steps])
            partial_checks(path, sel, shape, flabel, nsarg, 'pos' in paths[steps])
            rel_star = 'star' in paths[steps] and len(steps) >= 2 and steps[0][1] != '*' and \
                all(a == 'c' for a, _t, _p in steps)
            if (own_path or rel_star) and judge:
                # the same path written relative to the root element (own paths, and */name forms)
                partial_checks(g.render_path(steps[1:], pre, absolute=False) or '.', sel, shape + '|rel', flabel, nsarg, False)

    # ---- (c) whole document with max_depth --------------------------------------------------------------------
    flabel, _pre, nsarg, _j = forms[0]
    fd, fj = fulldata[flabel]
    root = nodes[0]
    for k in DEPTHS + (None,):
        st.ev += 4
        st.traces += 4
        try:
            d, derrs = schema.decode(resource, validation='lax', namespaces=nsarg, max_depth=k)
            j, _ = schema.decode(resource, validation='lax', namespaces=nsarg, max_depth=k,
                                 converter=xmlschema.JsonMLConverter)
            errs = list(schema.iter_errors(resource, max_depth=k))
            ok = schema.is_valid(resource, max_depth=k)
        except Exception as e:      # noqa
            disc('depth', '-', flabel, '%s@%s' % (type(e).__name__, k), 'max_depth=%s raises %r' % (k, e))
            st.outcomes['depth:exception'] += 1
            continue
        kk = 99 if k is None else k
        try:
            wd = [cut_default(fd, root, c) for c in ((0, 1) if k == 0 else (kk,))]
            wj = [cut_jsonml(fj, c) for c in ((1,) if k == 0 else (kk,))]
            if k == 0:
                wd[0] = None
                wj.append(None)
        except Nav:
            st.counters['data restriction not computable (faulty neighbourhood)'] += 1
            wd = wj = None
        st.nts.add('%s|depth|%s|%s' % (name, k, max(n.depth for n in nodes)))
        if wd is not None:
            if d not in wd or j not in wj:
                disc('depth-data', '-', flabel, '%s:%s' % (k, tkind(d, wd[-1]) if d not in wd else 'jsonml'),
                     'decode(max_depth=%s) = %s; the full data cut at depth %s is %s'
                     % (k, short(d if d not in wd else j, 400), k, short(wd[-1] if d not in wd else wj[0], 400)))
                st.outcomes['depth-data:DISC'] += 1
            else:
                st.outcomes['depth-data:agree%s' % ('' if kk > max(n.depth for n in nodes) - 1 else '-cutting')] += 1
        want = Counter(s for s in full_sigs if s[2] >= 0 and nodes[s[2]].depth <= kk)
        if k == 0:
            alts = [Counter(), want, Counter(s for s in full_sigs if s[2] >= 0 and nodes[s[2]].depth <= 1)]
        else:
            alts = [want]
        for what, es in (('decode', derrs), ('iter_errors', errs)):
            got = Counter(errsig(e) for e in es if not is_identity_error(e))
            if got not in alts:
                o, w = diff(alts[-1], got)
                disc('depth-errors', '-', flabel, '%s@%s:%s' % (what, k, o),
                     '%s(max_depth=%s): %s (errors of the whole-document run located at depth <= %s)' % (what, k, w, k))
                st.outcomes['depth-errors:DISC'] += 1
            else:
                st.outcomes['depth-errors:agree-%s' % ('empty' if not got else 'nonempty')] += 1
        if ok != (not [e for e in errs]):
            disc('depth-is_valid', '-', flabel, '%s@%s' % (ok, k), 'is_valid(max_depth=%s) is %s with %d errors'
                 % (k, ok, len(errs)))
    return discs, st


# --- twins: the same paths on two documents that bind the same prefixes to different namespaces -----------------

def analyse_pair(tname, doc):
    """The document (variant q) and its twin (variant q2: other target namespace, same prefix / default-namespace
    spelling) are processed back-to-back in both orders with the same path strings (own path with and without
    positions, absolute and relative); every result is judged against the whole-document result of its own document.
    Paths whose schema lookup is already wrong in isolation (reported by analyse) are skipped."""
    st = Stats()
    discs = []
    ctxs = []
    for variant, ns, xml in (('q', g.TNS, doc['xml']),
                             ('q2', g.TNS2, doc['xml'].replace('"%s"' % g.TNS, '"%s"' % g.TNS2))):
        c = Stats()
        c.variant = variant
        c.schema = load_schema('%s.%s' % (tname, variant))[0]
        c.nodes = g.ref_tree(xml)
        c.resource = xmlschema.XMLResource(xml)
        c.elems = [e for e in c.resource.root.iter() if isinstance(e.tag, str)]
        c.index = {id(e): i for i, e in enumerate(c.elems)}
        c.gov = {}
        errs = list(c.schema.iter_errors(c.resource, extra_validator=lambda e, x, c=c: c.gov.setdefault(c.index.get(id(e)), x)))
        c.has_ident = any(is_identity_error(e) for e in errs)
        c.sigs = [(type(e).__name__, e.reason or '', c.index.get(id(e.elem), -1)) for e in errs if not is_identity_error(e)]
        c.forms = ns_forms(c.nodes, {'t': ns}, xml)
        c.data = {f[0]: c.schema.decode(c.resource, validation='lax', namespaces=f[2])[0] for f in c.forms}
        st.traces += 1 + len(c.forms)
        ctxs.append(c)
    a, b = ctxs
    if len(a.nodes) != len(b.nodes) or [f[0] for f in a.forms] != [f[0] for f in b.forms]:
        raise RuntimeError('twins differ in shape: %s' % doc['docid'])
    seen = set()
    for k in range(len(a.nodes)):
        for label in ('pos', 'nopos'):
            for fi, (flabel, pre, nsarg, _j) in enumerate(a.forms):
                steps = {c.variant: g.path_forms(c.nodes[k])[label] for c in ctxs}
                for rel in (False, True):
                    path = (g.render_path(steps['q'][1:], pre, absolute=False) or '.') if rel else g.render_path(steps['q'], pre)
                    if (path, flabel) in seen:
                        continue
                    seen.add((path, flabel))
                    sels, usable = {}, True
                    for c in ctxs:
                        sel, work = g.walk_path(c.nodes, steps[c.variant])
                        st.transitions += work
                        sels[c.variant] = sel
                        x = c.gov.get(sel[0])
                        lookup_ns = c.forms[fi][2] if c.forms[fi][2] is not None else \
                            {pfx: ns for ns, pfx in c.forms[fi][1].items()}
                        try:
                            got = c.schema.get_element(c.elems[sel[0]].tag, g.render_path(steps[c.variant], c.forms[fi][1]),
                                                       lookup_ns)
                        except Exception:      # noqa
                            got = None
                        if x is None or got is None or res(got) is not res(x) or any(c.gov.get(i) is None for i in sel):
                            usable = False
                    if not usable:
                        st.counters['twins: path already wrong or not governed in isolation: skipped'] += 1
                        continue
                    for order in ((a, b), (b, a)):
                        for pos, c in enumerate(order):
                            sel = sels[c.variant]
                            nsa = c.forms[fi][2]
                            tag = '%s-%s' % (c.variant, ('first', 'second')[pos])
                            st.ev += 3
                            st.traces += 3
                            try:
                                perrs = list(c.schema.iter_errors(c.resource, path=path, namespaces=nsa))
                                pvalid = c.schema.is_valid(c.resource, path=path, namespaces=nsa)
                                pdata, derrs = c.schema.decode(c.resource, path=path, namespaces=nsa, validation='lax')
                            except Exception as e:      # noqa
                                discs.append(_pair_disc(tname, 'seq-exception', path, flabel, '%s:%s' % (tag, type(e).__name__),
                                                        '%s: %s raises %r for path %r' % (doc['docid'], tag, e, path)))
                                continue
                            exp = Counter()
                            for i in sel:
                                n = c.nodes[i]
                                exp.update(s for s in c.sigs if n.i <= s[2] < n.end)
                            for api, es in (('iter_errors', perrs), ('decode-errors', derrs)):
                                got = Counter((type(e).__name__, e.reason or '', c.index.get(id(e.elem), -1))
                                              for e in es if not is_identity_error(e))
                                if got != exp:
                                    discs.append(_pair_disc(tname, 'seq-' + api, path, flabel,
                                                            '%s:missing=%d,extra=%d' % (tag, bool(exp - got), bool(got - exp)),
                                                            '%s: %s(path=%r) on the %s document (%s) after its twin: %d error(s), the '
                                                            'whole-document run has %d in the selected subtree(s)'
                                                            % (doc['docid'], api, path, c.variant, tag, sum(got.values()), sum(exp.values()))))
                                    st.outcomes['twins-errors:DISC'] += 1
                                else:
                                    st.outcomes['twins-errors:agree-%s' % ('empty' if not exp else 'nonempty')] += 1
                            if not c.has_ident and not any(is_identity_error(e) for e in perrs) and pvalid != (not exp):
                                discs.append(_pair_disc(tname, 'seq-is_valid', path, flabel, '%s:%s' % (tag, pvalid),
                                                        '%s: is_valid(path=%r) on the %s document (%s) is %s; %d error(s) expected'
                                                        % (doc['docid'], path, c.variant, tag, pvalid, sum(exp.values()))))
                                st.outcomes['twins-is_valid:DISC'] += 1
                            try:
                                wants = [strip_top_default(sub_default(c.data[flabel], g.chain(c.nodes[i]))) for i in sel]
                            except (Nav, KeyError, IndexError, TypeError):
                                st.counters['data restriction not computable (faulty neighbourhood)'] += 1
                                continue
                            gotd = [strip_top_default(pdata)] if len(sel) == 1 else \
                                ([strip_top_default(x) for x in pdata] if isinstance(pdata, list) and len(pdata) == len(sel) else None)
                            if gotd != wants:
                                discs.append(_pair_disc(tname, 'seq-decode', path, flabel,
                                                        '%s:%s' % (tag, tkind(gotd[0], wants[0]) if gotd else 'shape-of-result'),
                                                        '%s: decode(path=%r) on the %s document (%s) gives %s; whole-document result: %s'
                                                        % (doc['docid'], path, c.variant, tag, short(pdata, 200), short(wants, 200))))
                                st.outcomes['twins-data:DISC'] += 1
                            else:
                                st.outcomes['twins-data:agree'] += 1
    return discs, st


def _pair_disc(tname, kind, path, form, observed, what):
    shape = _PREFIX.sub('P:', _POS.sub('[i]', path))
    return 'C20|%s.q+q2|%s|%s|%s|%s' % (tname, kind, shape, form, observed), what


# --- runner interface -------------------------------------------------------------------------------------------

def run_shard(shard, acc):
    tier, seed, name, lo, hi = shard
    pair = name.startswith('PAIR:')
    docs = (pair_documents(name[5:], tier, seed) if pair else documents(name, tier, seed))[lo:hi]
    first = {}
    for doc in docs:
        with acc.guard(300):
            discs, st = analyse_pair(name[5:], doc) if pair else analyse(name, doc)
        acc.ev(st.ev)
        acc.st(transitions=st.transitions, traces=st.traces)
        for k, v in st.outcomes.items():
            acc.out(k, v)
        for k, v in st.counters.items():
            acc.cnt(k, v)
        for r in st.reached:
            acc.cnt('reach|' + r)
        for s in st.nts:
            acc.nt(s)
        case = {'schema': name, 'docid': doc['docid'], 'xml': doc['xml'], 'govs': doc['govs'], 'valid': doc['valid']}
        if not discs and lo % 97 == 0 and doc is docs[0]:
            acc.sample({'schema': name, 'document': doc['docid'], 'xml': doc['xml'][:300],
                        'outcomes': dict(st.outcomes)})
        acc.cnt('discrepant evaluations (all documents, before grouping by key)', len(discs))
        for key, what in discs:
            if key not in first:
                first[key] = (what, dict(case, want=key))
    for key in sorted(first):
        acc.disc(key, first[key][0], first[key][1])


def finish(tier, seed, acc):
    reach = [k for k in acc.counters if k.startswith('reach|')]
    acc.states = len(reach)
    per = Counter(k.split('|')[1] for k in reach)
    for k in reach:
        del acc.counters[k]
    for name, n in per.items():
        acc.counters['declarations reached in %s' % name] = n


def replay(case):
    doc = {'docid': case['docid'], 'xml': case['xml'], 'govs': case.get('govs'), 'valid': case.get('valid', False),
           'size': 0}
    if case['schema'].startswith('PAIR:'):
        discs, _ = analyse_pair(case['schema'][5:], doc)
    else:
        discs, _ = analyse(case['schema'], doc)
    want = case.get('want')
    if want and any(k == want for k, _ in discs):
        return [(k, w) for k, w in discs if k == want]
    return discs


if __name__ == '__main__':
    import sys
    for nm in schema_names():
        print(nm, len(documents(nm, sys.argv[1] if len(sys.argv) > 1 else 'quick', 0)))
    print(os.getpid())
