"""C18 - one schema object can be built and used from many threads with unchanged results.

Every schedule of 2 real threads (3 in one thorough harness) up to a preemption bound is explored by the
stateless scheduler of mc/explore/threadsched.py (iterative context bounding).
  Layer A: every call of a function defined under xmlschema/ is a scheduling point, preemption bound 1.
  Layer L: the interface plus every SOURCE LINE of the small functions that read-modify-write shared caches.
  Layer E: the interface plus every call from library code into third-party code (XPath evaluation in elementpath).
  Layer C: (build race) the interface plus every call made directly from the body of XsdGlobals.build().
  Layer B: points restricted to the shared-state interface (caches, cached properties, build, staged maps,
           scratch context, identity widening, lock operations), preemption bound 2 (quick) / 3 (thorough).
Oracle: every thread's result equals the result of the same call on a fresh schema, single-threaded;
after a build race every global is built exactly once and the globals equal a sequential build.
"""
import functools
import os
import threading

import xmlschema
from xmlschema import XMLSchema10, XMLSchema11, XMLResource

from mc.explore import threadsched as T
from mc.gen import pool_c10 as P

ID = 'C18'
TITLE = 'One schema object can be built and used from many threads with unchanged results'
RULE = ('harnesses H1 build race, H2 two validations of xsi:type-in-key documents on a cold schema, H3 validation || simple-type calls through '
        'the scratch context, H4 first use of cached properties / XPath find, H5 decode || encode, H6 two iterations of one lazy resource; for each '
        'harness every schedule of its threads with at most B preemptions at the selected scheduling points; distinct = distinct schedules '
        '(choice sequences); non-trivial = the schedule contains at least one preemption')
ASSUMPTIONS = [
    'a scheduling point is the call event of a Python function (sys.settrace); preemption inside C code or between two bytecodes of one function body without a call is not modelled, except inside the functions of layer L (shared-cache read-modify-write functions) where every source line is a point',
    'the library locks (SchemaCache, XsdGlobals build lock, lazy resource lock, XMLResource context lock) are replaced by cooperative locks with the same interface',
    'free-threaded (no-GIL) builds are out of scope; a free-running stress pass is not part of the decision (sampling)',
    'the single-threaded baseline of each call is its result on a fresh schema (history independence is C10)',
    'the library iterates sets hashed by id(), so two fresh object graphs can differ by a few call events: a schedule prefix that cannot be replayed after 3 attempts is counted (unrealisable_prefixes_skipped) and skipped, never reported',
]
PKG = os.path.dirname(os.path.abspath(xmlschema.__file__)) + os.sep
STDLIB = os.path.dirname(os.path.abspath(os.__file__)) + os.sep
VERSIONS = {'1.0': XMLSchema10, '1.1': XMLSchema11}

INTERFACE = {
    'SchemaCache.__call__', 'SchemaCache.clear', 'SchemaCache.register', 'SchemaCache._create_caches',
    'schema_cached_property.__get__', 'cached_property.__get__',
    'XsdGlobals.build', 'XsdGlobals.clear', 'XsdGlobals.check', 'XsdGlobals.check_validator', 'XsdGlobals.built',
    'StagedMap._build_global', 'StagedMap.build', 'GlobalMaps.build', 'GlobalMaps.load',
    'XsdSimpleType.text_decode', 'XsdSimpleType.text_is_valid', 'XMLSchemaBase.validation_context', 'ValidationContext.clear',
    'XsdIdentity.update_elements', 'XsdIdentity.get_counter', 'XsdIdentity.build', 'XsdElement.collect_key_fields',
    'XMLSchemaBase.build', 'XMLSchemaBase.clear', 'XMLSchemaBase.xpath_node', 'XsdElement.xpath_node', 'XsdGlobals.get_instance_type',
    'LazyXMLLoader.iter_depth', 'XMLResource.iter_depth', 'LazyXMLLoader._lazy_iterparse', 'XMLResource.lazy_depth',
}
_installed = False


class _ThreadingShim:
    def __init__(self):
        self.Lock = T.CoopLock
        self.RLock = T.CoopRLock

    def __getattr__(self, name):
        return getattr(threading, name)


def install():
    """Replaces every lock of the library by a cooperative one (once per process)."""
    global _installed
    if _installed:
        return
    _installed = True
    import xmlschema.caching as caching
    import xmlschema.validators.xsd_globals as xg
    import xmlschema.resources.xml_loader as xl
    import xmlschema.resources.xml_resource as xr
    import xmlschema.utils.streams as st
    caching.Lock = T.CoopLock
    xg.threading = _ThreadingShim()
    xl.Lock = T.CoopLock
    xl.RLock = T.CoopRLock
    xl.LazyLockType = T.CoopLock
    xr.threading = _ThreadingShim()
    xr.XMLResource._context_lock = T.CoopLock()
    st.Lock = T.CoopLock
    for cls in (XMLSchema10, XMLSchema11):
        ms = cls.meta_schema
        if ms is not None:
            object.__setattr__(ms.maps, '_build_lock', T.CoopLock())
            object.__setattr__(ms.maps.cache, '_lock', T.CoopLock())


_LABELS = {}


def _label(code):
    lab = _LABELS.get(code)
    if lab is None:
        fn = code.co_filename
        if fn.startswith(PKG):
            lab = getattr(code, 'co_qualname', code.co_name)
        elif fn.endswith('functools.py') and code.co_name == '__get__':
            lab = 'cached_property.__get__'
        else:
            lab = ''
        _LABELS[code] = lab
    return lab


def point_all(frame):
    """Layer A: every Python-level call of a library function and every Python-level call made BY library code
    into third-party code (elementpath), i.e. every call boundary at which library state can be observed half-updated."""
    lab = _label(frame.f_code)
    if lab:
        return lab
    back = frame.f_back
    if back is not None and back.f_code.co_filename.startswith(PKG) and not frame.f_code.co_filename.startswith(STDLIB):
        return 'ext:' + frame.f_code.co_name
    return None


def point_interface(frame):
    lab = _label(frame.f_code)
    return lab if lab in INTERFACE else None


def point_build(frame):
    """Layer C (build race): the interface plus every call made directly from the body of XsdGlobals.build(),
    i.e. every step boundary of the build critical section."""
    lab = _label(frame.f_code)
    if lab in INTERFACE:
        return lab
    back = frame.f_back
    if back is not None and _label(back.f_code) == 'XsdGlobals.build':
        return 'build-step:' + (lab or frame.f_code.co_name)
    return None


def point_ext(frame):
    """Layer E: the interface plus every call from library code into third-party code (elementpath)."""
    lab = _label(frame.f_code)
    if lab:
        return lab if lab in INTERFACE else None
    back = frame.f_back
    if back is not None and back.f_code.co_filename.startswith(PKG) and not frame.f_code.co_filename.startswith(STDLIB):
        return 'ext:' + frame.f_code.co_name
    return None


LINE_FUNCS = {'ElementSelector.cached_selector', 'SchemaCache.__call__', 'schema_cached_property.__get__',
              'XsdSimpleType.text_is_valid', 'XsdSimpleType.text_decode', 'NamespaceMapper.set_xmlns_context'}


def point_lines(frame):
    """Layer L: the interface, plus EVERY SOURCE LINE of the small functions that read-modify-write process-wide
    or per-schema caches (check-then-act windows without a call in between)."""
    lab = _label(frame.f_code)
    if lab in LINE_FUNCS:
        return 'LINE:' + lab
    return lab if lab in INTERFACE else None


POINTS = {'A': point_all, 'B': point_interface, 'C': point_build, 'E': point_ext, 'L': point_lines}


# --- harnesses -----------------------------------------------------------------------------------------

def _fresh(version, build=True):
    return VERSIONS[version](P.schema_text(version), build=build)


_EXPECT = {}
_ORIG_BUILD_GLOBAL = None


def expected(version, ev, enc):
    k = (version, ev)
    if k not in _EXPECT:
        _EXPECT[k] = P.run_event(_fresh(version), ev, enc)
    return _EXPECT[k]


_ENC = {}


def enc_inputs(version):
    if version not in _ENC:
        _ENC[version] = P.encode_inputs(version)
    return _ENC[version]


def events_harness(version, events_per_thread, build=True, count_builds=False):
    """Generic harness: thread i executes its list of (op, doc) events on ONE shared schema."""
    enc = enc_inputs(version)
    exp = [[expected(version, ev, enc) for ev in evs] for evs in events_per_thread]

    def make():
        schema = _fresh(version, build=build)
        ctx = {'schema': schema, 'expected': exp, 'builds': {}}
        if count_builds:
            from xmlschema.validators import builders
            global _ORIG_BUILD_GLOBAL
            if _ORIG_BUILD_GLOBAL is None:
                _ORIG_BUILD_GLOBAL = builders.StagedMap._build_global
            orig = _ORIG_BUILD_GLOBAL
            counts = ctx['builds']

            def counting(self, qname, _orig=orig):
                counts[(type(self).__name__, qname)] = counts.get((type(self).__name__, qname), 0) + 1
                return _orig(self, qname)
            ctx['unpatch'] = (builders.StagedMap, orig)
            builders.StagedMap._build_global = counting

        def body(evs):
            def run():
                out = []
                if not build:
                    schema.build()
                for ev in evs:
                    out.append(P.run_event(schema, ev, enc))
                return out
            return run
        return [body(evs) for evs in events_per_thread], ctx
    return make


def lazy_harness(version):
    doc = P.DOCS['plain'].replace('<root>', '<root>' + '<item k="7"/>' * 3)

    def make():
        schema = _fresh(version)
        res = XMLResource(doc, lazy=True)
        exp = [(e.tag, sorted(e.attrib.items())) for e in XMLResource(doc).iter()]
        ctx = {'schema': schema, 'expected': [exp, exp]}

        def body():
            return [(e.tag, sorted(e.attrib.items())) for e in res.iter()]
        return [body, body], ctx
    return make


def paths_harness(version):
    """Thread 0 validates a document part selected by a path while thread 1 makes path-restricted calls with fresh
    paths; the process-wide selector cache is pre-filled so that thread 1's calls push it over its 100-entry limit
    (the cache is emptied when it exceeds 100 entries)."""
    doc = P.DOCS['four']
    paths = ['/root/item[%d]' % i for i in (1, 2, 3)]

    def make():
        from xmlschema.xpath import selectors
        selectors._selectors_cache.clear()
        for i in range(99):
            selectors.ElementSelector.cached_selector('/filler%d' % i)
        schema = _fresh(version)
        exp0 = [P.norm_errors(_fresh(version).iter_errors(doc, path='/root/item'))]
        selectors._selectors_cache.pop(('/root/item', selectors.ElementSelector), None)
        for k in [k for k in selectors._selectors_cache if k[0].startswith('/root/item')]:
            del selectors._selectors_cache[k]
        exp1 = ['done']
        ctx = {'schema': schema, 'expected': [exp0, exp1]}

        def body0():
            return [P.norm_errors(schema.iter_errors(doc, path='/root/item'))]

        def body1():
            for p in paths:
                schema.is_valid(doc, path=p)
            return ['done']
        return [body0, body1], ctx
    return make


def check_results(x, ctx):
    probs = []
    unp = ctx.get('unpatch')
    if unp:
        unp[0]._build_global = unp[1]
    for i, r in enumerate(x.results):
        exp = ctx['expected'][i]
        if r is None or r[0] != 'ok':
            if ctx.get('lazy') and r and r[0] == 'exc' and r[1] in ('XMLResourceError',):
                continue            # documented refusal: the lazy resource is already under iteration
            probs.append('thread %d raised or did not finish: %r' % (i, r))
        elif r[1] != exp:
            diff = [(a, b) for a, b in zip(r[1], exp) if a != b] if isinstance(exp, list) and len(exp) == len(r[1]) else [(r[1], exp)]
            probs.append('thread %d result differs from the single-threaded result: got %s expected %s'
                         % (i, str(diff[0][0])[:200], str(diff[0][1])[:200]))
    for k, c in ctx.get('builds', {}).items():
        if c != 1:
            probs.append('global %s built %d times' % (k, c))
    return probs


def harnesses(tier):
    """name -> (make_bodies factory(version), layers)"""
    H = {
        'H1-build-race': lambda v: events_harness(v, [[('is_valid', 'ext-ok')], [('iter_errors', 'subst')]], build=False,
                                                  count_builds=True),
        # both documents retype gl under s1 (unique US1, selector .//sub): the first two uses of the substituted type on one
        # schema object are concurrent, so the permanent augmentation of the identity constraint is raced
        'H2-xsitype-keys': lambda v: events_harness(v, [[('iter_errors', 'g1-dup')], [('iter_errors', 'g1-ext')]]),
        'H2b-xsitype-simple': lambda v: events_harness(v, [[('iter_errors', 'val-type')], [('decode', 'val-type')]]),
        'H3-scratch-context': lambda v: events_harness(v, [[('st-valid', '7'), ('st-valid', 'a')], [('st-valid', '11'), ('st-decode', '7')]]),
        'H3b-validate-vs-scratch': lambda v: events_harness(v, [[('iter_errors', 'fixed-bad')], [('st-valid', '11'), ('st-valid', '7')]]),
        'H4-first-use': lambda v: events_harness(v, [[('iter_errors', 'dangling')], [('decode', 'plain')]]),
        'H5-decode-encode': lambda v: events_harness(v, [[('decode', 'wild-fixed')], [('encode', 'plain')]]),
        'H6-lazy-shared': lazy_harness,
        'H8-assertion-facets': lambda v: events_harness('1.1', [[('iter_errors', 'assert-lo')], [('iter_errors', 'assert-hi')]]),
        'H9-selector-cache': paths_harness,
    }
    if tier == 'thorough':
        H['H7-three-threads'] = lambda v: events_harness(v, [[('is_valid', 'ext-ok')], [('iter_errors', 'dupkey')], [('st-valid', '7')]])
    return H


def plan(tier):
    """[(harness, version, layer, preemption bound)]"""
    out = []
    both = ('1.0', '1.1')
    if tier == 'quick':
        out += [('H1-build-race', v, 'C', 1) for v in both]
        out += [('H2-xsitype-keys', '1.0', 'A', 1), ('H2-xsitype-keys', '1.0', 'B', 2), ('H2-xsitype-keys', '1.1', 'B', 1)]
        out += [('H2b-xsitype-simple', '1.0', 'B', 1)]
        out += [('H3-scratch-context', v, lay, b) for v in both for lay, b in (('A', 1), ('B', 2))]
        out += [('H3b-validate-vs-scratch', '1.0', 'B', 2), ('H4-first-use', '1.0', 'B', 1), ('H5-decode-encode', '1.0', 'B', 1)]
        out += [('H6-lazy-shared', v, lay, b) for v in both for lay, b in (('A', 1), ('B', 2))]
        out += [('H8-assertion-facets', '1.1', 'E', 1), ('H9-selector-cache', '1.0', 'L', 1), ('H3-scratch-context', '1.0', 'L', 1)]
        return out
    if not os.environ.get('C18_DEEP'):
        # the registered thorough tier: the quick plan plus the extensions that were run to completion on the final
        # tree; the open-ended plan below (layer A on every harness and both processors, bound 3 on the small
        # harnesses) needs several hours and is kept behind C18_DEEP=1 for exploration outside the registered commands
        out = plan('quick')
        out += [('H2-xsitype-keys', '1.1', 'A', 1), ('H7-three-threads', '1.0', 'B', 1), ('H7-three-threads', '1.1', 'B', 1),
                ('H9-selector-cache', '1.1', 'L', 1)]
        return out
    for name in harnesses(tier):
        for v in both:
            if name == 'H8-assertion-facets':
                if v == '1.1':
                    out += [(name, v, 'A', 1), (name, v, 'E', 2)]
                continue
            if name == 'H7-three-threads':
                out.append((name, v, 'B', 1))
                continue
            if name == 'H9-selector-cache':
                out.append((name, v, 'L', 1))
                continue
            out += [(name, v, 'A', 1), (name, v, 'B', 2)]
            if name == 'H1-build-race':
                out.append((name, v, 'C', 1))
            if name in ('H3-scratch-context', 'H3b-validate-vs-scratch', 'H6-lazy-shared'):
                out.append((name, v, 'B', 3))
    return out


NSHARD = 8


def shards(tier, seed):
    out = []
    for name, version, layer, bound in plan(tier):
        for k in range(NSHARD):
            out.append((tier, name, version, layer, bound, k))
    return out


def shard_filter(k):
    """Shard k owns the deviations at index = k (mod NSHARD) of the default schedule and of the
    'other thread starts' schedule; the two roots themselves are re-run by every shard."""
    def flt(prefix, i):
        if len(prefix) == 0:
            return i == 0 or i % NSHARD == k
        if len(prefix) == 1:
            return i % NSHARD == k
        return True
    return flt


def run_shard(shard, acc):
    tier, name, version, layer, bound, k = shard
    install()
    make = harnesses(tier)[name](version)
    is_point = POINTS[layer]
    ctx_flags = {'lazy': name.startswith('H6')}

    def make_bodies():
        bodies, ctx = make()
        ctx.update(ctx_flags)
        return bodies, ctx

    npre = [0]

    def on_exec(x):
        pre = sum(1 for (re_, n, lab), c in zip(x.points, x.choices) if re_ and c != 0)
        acc.ev()
        acc.st(states=len(x.points), transitions=x.switches, traces=1)
        if pre:
            acc.nt('%s|%s|%s|%r' % (name, version, layer, tuple(x.choices)))
        acc.out('%s:%s' % (name, 'preempted' if pre else 'default'))
        npre[0] += pre

    stats = T.explore(make_bodies, is_point, bound, check_results,
                      first_level=shard_filter(k), on_execution=on_exec)
    acc.cnt('executions_%s_%s' % (name, layer), stats['executions'])
    acc.cnt('max_points_%s_%s_%s' % (name, layer, version), 0)
    acc.counters['max_points_%s_%s_%s' % (name, layer, version)] = max(
        acc.counters['max_points_%s_%s_%s' % (name, layer, version)], stats['points_max'])
    acc.cnt('distinct_result_vectors_%s' % name, len(stats['distinct_results']))
    acc.cnt('divergent_replays_retried', stats['divergent_replays'])
    acc.cnt('unrealisable_prefixes_skipped', stats['unrealisable_prefixes'])
    if k == 0 and layer == 'B':
        acc.sample({'harness': name, 'version': version, 'layer': layer, 'preemption_bound': bound,
                    'executions_in_this_shard': stats['executions'], 'max_points_per_execution': stats['points_max']})
    seen = set()
    for prefix, prob in stats['problems']:
        if prob.startswith('HARNESS'):
            acc.cnt('unrealisable_prefixes_skipped')
            continue
        kind = prob.split(':')[0][:60]
        key = 'C18 %s %s %s' % (name, version, kind)
        if key in seen:
            continue
        seen.add(key)
        acc.disc(key, '%s under schedule %r (layer %s, bound %d)' % (prob, list(prefix), layer, bound),
                 {'tier': tier, 'harness': name, 'version': version, 'layer': layer, 'schedule': list(prefix)})


def replay(case):
    install()
    make = harnesses(case.get('tier', 'thorough'))[case['harness']](case['version'])
    is_point = POINTS[case['layer']]
    out = []
    obs = []
    for _ in range(2):
        bodies, ctx = make()
        ctx['lazy'] = case['harness'].startswith('H6')
        x = T.Execution(bodies, tuple(case['schedule']), is_point).run()
        probs = []
        if x.divergence:
            probs = ['HARNESS divergence: ' + x.divergence]
        elif x.deadlock:
            probs = ['deadlock: no enabled thread while some thread is blocked on a lock']
        elif getattr(x, 'hang', False):
            probs = ['execution did not finish within the horizon']
        else:
            probs = check_results(x, ctx)
        obs.append((repr(x.results), len(x.points), tuple(probs)))
    if obs[0] != obs[1]:
        return [('C18 %s %s HARNESS-nondeterministic-replay' % (case['harness'], case['version']),
                 'the same schedule gave two different observations: %r vs %r' % (obs[0][1:], obs[1][1:]))]
    for prob in obs[0][2]:
        kind = prob.split(':')[0][:60]
        out.append(('C18 %s %s %s' % (case['harness'], case['version'], kind), prob))
    return out


def bounds(tier, seed):
    return {'threads': '2 (3 in H7, thorough)', 'layer_A': 'every xmlschema function call is a point, preemption bound 1',
            'layer_B': 'interface points (%d functions + lock operations), preemption bound 2 (3 for the small harnesses in thorough)' % len(INTERFACE),
            'plan': ['%s %s layer %s bound %d' % p for p in plan(tier)]}
