"""C13 - defused parsing refuses every entity declaration before any expansion.

Complete product  defuse mode x channel x locality (base_url) x role x payload.  The reference model
(`expected_defused`, `PAYLOADS[..].declares`) says for every case whether defusing applies and whether
the payload declares an entity / references an external DTD subset; the case is then replayed against
the library through XMLResource() / to_dict() / XMLSchema() and judged on the exception class, the
audit events (`open`, `urllib.Request`) for the entity system ids and the parsed tree compared with the
same input parsed with defuse='never'.
"""
import io
import os
import shutil
import tempfile
import warnings
import xml.etree.ElementTree as StdET

import xmlschema
from xmlschema import XMLResource, XMLSchema10, XMLSchema11
from xmlschema.exceptions import XMLResourceForbidden

from mc.core import runner
from mc.explore import audit_c13 as au

ID = 'C13'
TITLE = 'Defused parsing refuses every entity declaration before any expansion'
RULE = ('complete product defuse {always, remote, nonlocal, never} x 12 channels {str, bytes, StringIO, BytesIO, text '
        'file, binary file, non-seekable raw stream, non-seekable buffered stream, path, file:// URL, http:// via stub '
        'opener= , http:// via globally installed stub} x base_url {none, local, remote} x role {instance '
        '(XMLResource), validate (to_dict), main schema, included schema, imported schema} x 25 payloads; a case is '
        'non-trivial when its (mode, applies?, channel, role, payload, observed outcome class) signature is new')
ASSUMPTIONS = [
    'reading of "when defusing applies" (xml_resource.py is_defused/BaseUrlOption): the locality of a resource is '
    'that of its URL when the source is a path or URL (a base_url argument is then ignored), otherwise that of the '
    'base_url argument, otherwise none; always => defused; never => not; remote => defused iff locality is remote; '
    'nonlocal => defused iff locality is not local (so URL-less data without base_url is defused under nonlocal, not '
    'under remote); an included/imported schema is judged by the locality of its own resolved location',
    'open cell, either behaviour accepted and counted: a file object opened on a local file without base_url under '
    'nonlocal (the docstring says "except local files", the code cannot know the file is local and defuses it)',
    'when defusing does not apply the documented behaviour "is not defused" is taken as: same outcome (exception '
    'class or tree) as defuse=never on the same input',
    'an import whose target is refused is accepted as "surfaced" when XMLResourceForbidden is raised or the location '
    'is recorded in loader.missing_locations / an import warning quoting the forbidden error, and no component of '
    'the refused document is in the maps',
    'text channels (str, StringIO, text file) carry decoded characters: encoding payloads differ there only in the '
    'XML declaration; a clean payload the library does not parse with defuse=never is skipped and counted',
    'include/import cases where the (entity-free) main document itself is refused before the inclusion is attempted '
    'are counted as skipped; that refusal is judged under role main',
    'entity system ids are file:// URLs into the fixture tree and http://stub.test/ent/ URLs; audit events outside '
    'these are ignored by path',
]
BUDGET_S = {'quick': 900, 'thorough': 3000}

MARK = 'MARKc13'
XSD = 'http://www.w3.org/2001/XMLSchema'
BASE = 'http://stub.test/base/'
ENT = 'http://stub.test/ent/'
MODES = ('always', 'remote', 'nonlocal', 'never')
CHANNELS = ('str', 'bytes', 'StringIO', 'BytesIO', 'textfile', 'binfile', 'raw-nonseek', 'buf-nonseek',
            'path', 'fileurl', 'http', 'http-global')
CHANGROUPS = (CHANNELS[0:4], CHANNELS[4:8], CHANNELS[8:12])
URL_LOCALITY = {'path': 'local', 'fileurl': 'local', 'http': 'remote', 'http-global': 'remote'}
TEXT_CHANNELS = ('str', 'StringIO', 'textfile')
LOCS = ('none', 'local', 'remote')
BASE_ROLES = ('instance', 'validate', 'main', 'include', 'import')
NEXT_K = 4          # quick explores 1/4 of the next bound (lazy instances, XSD 1.1 schema roles), thorough all of it


# --- payload catalogue ------------------------------------------------------------------------------
# (id, declares, encoding, prolog bytes, doctype kind, use)   use: where the entity is referenced
PAYLOADS = [
    ('int-text', True, 'utf-8', 0, 'int', 'text'),
    ('int-attr', True, 'utf-8', 0, 'int', 'attr'),
    ('int-unused', True, 'utf-8', 0, 'int', None),
    ('ext-sys-used', True, 'utf-8', 0, 'ext-sys', 'text'),
    ('ext-pub-unused', True, 'utf-8', 0, 'ext-pub', None),
    ('param-int', True, 'utf-8', 0, 'param-int', None),
    ('param-ext', True, 'utf-8', 0, 'param-ext', None),
    ('unparsed', True, 'utf-8', 0, 'unparsed', None),
    ('dtd-system', True, 'utf-8', 0, 'dtd-system', None),
    ('dtd-public', True, 'utf-8', 0, 'dtd-public', None),
    ('nested', True, 'utf-8', 0, 'nested', 'text'),
    ('late-64k', True, 'utf-8', 70000, 'int', 'text'),
    ('late-200k', True, 'utf-8', 200000, 'int', 'text'),
    ('int-bom', True, 'utf-8-sig', 0, 'int', 'text'),
    ('int-utf16le', True, 'utf-16-le', 0, 'int', 'text'),
    ('int-utf16be', True, 'utf-16-be', 0, 'int', 'text'),
    ('int-latin1', True, 'iso-8859-1', 0, 'int', 'text'),
    ('doctype-noent', False, 'utf-8', 0, 'noent', None),
    ('clean', False, 'utf-8', 0, None, None),
    ('clean-bom', False, 'utf-8-sig', 0, None, None),
    ('clean-utf16le', False, 'utf-16-le', 0, None, None),
    ('clean-utf16be', False, 'utf-16-be', 0, None, None),
    ('clean-latin1', False, 'iso-8859-1', 0, None, None),
    ('clean-64k', False, 'utf-8', 70000, None, None),
    ('clean-200k', False, 'utf-8', 200000, None, None),
]
PAYLOAD = {p[0]: p for p in PAYLOADS}
DECLARED_ENC = {'utf-8': 'UTF-8', 'utf-8-sig': 'UTF-8', 'utf-16-le': 'UTF-16', 'utf-16-be': 'UTF-16',
                'iso-8859-1': 'ISO-8859-1'}
TEXT_CODEC = {'utf-8': 'utf-8', 'utf-8-sig': 'utf-8-sig', 'utf-16-le': 'utf-16', 'utf-16-be': 'utf-16',
              'iso-8859-1': 'iso-8859-1'}


def doctype(kind, rootname, fix):
    f = 'file://' + fix + '/ent/'
    if kind is None:
        return ''
    if kind == 'int':
        sub = '<!ENTITY e "%s">' % MARK
    elif kind == 'nested':
        sub = '<!ENTITY a "%s"><!ENTITY e "&a;-&a;">' % MARK
    elif kind == 'ext-sys':
        sub = '<!ENTITY e SYSTEM "%sx.txt">' % f
    elif kind == 'ext-pub':
        sub = '<!ENTITY e PUBLIC "-//C13//ENT x//EN" "%sx.txt">' % ENT
    elif kind == 'param-int':
        sub = '<!ENTITY %% pe "<!ATTLIST %s c13 CDATA #IMPLIED>"> %%pe;' % rootname
    elif kind == 'param-ext':
        sub = '<!ENTITY %% pe SYSTEM "%spe.dtd"> %%pe;' % f
    elif kind == 'unparsed':
        sub = '<!NOTATION n SYSTEM "n"><!ENTITY u SYSTEM "%su.bin" NDATA n>' % f
    elif kind == 'noent':
        sub = '<!ATTLIST %s c13 CDATA #IMPLIED>' % rootname
    elif kind == 'dtd-system':
        return '<!DOCTYPE %s SYSTEM "%sext.dtd">\n' % (rootname, ENT)
    elif kind == 'dtd-public':
        return '<!DOCTYPE %s PUBLIC "-//C13//DTD x//EN" "%sext.dtd">\n' % (rootname, f)
    else:
        raise ValueError(kind)
    return '<!DOCTYPE %s [%s]>\n' % (rootname, sub)


def render(pid, kind, fix):
    """Document bytes of payload `pid` as an instance ('instance') or a schema ('schema', 'schema-imp')."""
    _, _, enc, prolog, dkind, use = PAYLOAD[pid]
    text = '&e;' if use == 'text' else 'x'
    attr = '&e;' if use == 'attr' else '1'
    extra = 'é' if enc == 'iso-8859-1' else ''
    head = '<?xml version="1.0" encoding="%s"?>\n' % DECLARED_ENC[enc]
    if prolog:
        head += '<!--' + 'c' * (prolog - 7) + '-->\n'
    if kind == 'instance':
        body = '<root a="%s"><item>%s%s</item><n>plain</n></root>' % (attr, text, extra)
        rootname = 'root'
    else:
        tns = ' targetNamespace="urn:imp"' if kind == 'schema-imp' else ''
        body = ('<xs:schema xmlns:xs="%s"%s>\n<xs:element name="pay%s" type="xs:string">'
                '<xs:annotation><xs:documentation>%s%s</xs:documentation></xs:annotation></xs:element>\n</xs:schema>'
                % (XSD, tns, attr, text, extra))
        rootname = 'xs:schema'
    doc = head + doctype(dkind, rootname, fix) + body
    if enc == 'utf-16-le':
        return b'\xff\xfe' + doc.encode('utf-16-le')
    if enc == 'utf-16-be':
        return b'\xfe\xff' + doc.encode('utf-16-be')
    return doc.encode(enc)          # utf-8-sig writes the BOM itself


def main_doc(role, location):
    if role == 'include':
        ref = '<xs:include schemaLocation="%s"/>' % location
    else:
        ref = '<xs:import namespace="urn:imp" schemaLocation="%s"/>' % location
    return ('<?xml version="1.0" encoding="UTF-8"?>\n<xs:schema xmlns:xs="%s">\n%s\n'
            '<xs:element name="root" type="xs:string"/>\n</xs:schema>' % (XSD, ref)).encode('utf-8')


INSTANCE_SCHEMA = (
    '<xs:schema xmlns:xs="%s">\n<xs:element name="root"><xs:complexType><xs:sequence>'
    '<xs:element name="item" type="xs:string"/><xs:element name="n" type="xs:string"/></xs:sequence>'
    '<xs:attribute name="a" type="xs:string"/><xs:attribute name="c13" type="xs:string"/>'
    '</xs:complexType></xs:element>\n</xs:schema>' % XSD)
_cache = {}


def instance_schema():
    if 'S' not in _cache:
        _cache['S'] = XMLSchema10(INSTANCE_SCHEMA)
    return _cache['S']


# --- reference model ---------------------------------------------------------------------------------

def resource_locality(channel, loc):
    return URL_LOCALITY.get(channel, loc)


def payload_locality(role, channel, loc):
    """Locality of the resource that carries the payload."""
    base = resource_locality(channel, loc)
    if role in ('include', 'import') and base == 'none':
        return 'remote'            # location is then the absolute http URL
    return base


def expected_defused(mode, role, channel, loc):
    """'yes' / 'no' / 'open' (statement silent)."""
    locality = payload_locality(role, channel, loc)
    if mode == 'always':
        return 'yes'
    if mode == 'never':
        return 'no'
    if mode == 'remote':
        return 'yes' if locality == 'remote' else 'no'
    if locality == 'local':
        return 'no'
    if locality == 'none' and channel in ('textfile', 'binfile') and role not in ('include', 'import'):
        return 'open'
    return 'yes'


def canon(elem):
    return [elem.tag if isinstance(elem.tag, str) else 'node', (elem.text or ''), (elem.tail or '').strip(),
            sorted(elem.attrib.items()), [canon(c) for c in elem if isinstance(c.tag, str)]]


def has_mark(obj):
    return MARK in repr(obj)


# --- fixture ---------------------------------------------------------------------------------------

class Fixture:
    def __init__(self):
        self.dir = tempfile.mkdtemp(dir='/var/tmp', prefix='c13_fix_')
        os.mkdir(self.dir + '/inc')
        os.mkdir(self.dir + '/ent')
        self.stub = au.stub_opener()
        self.stub.table.clear()
        for name, data in (('x.txt', b'FETCHEDc13'), ('ext.dtd', b'<!ENTITY fetched "FETCHEDc13">'),
                           ('pe.dtd', b'<!ENTITY fetched "FETCHEDc13">'), ('u.bin', b'FETCHEDc13')):
            with open(self.dir + '/ent/' + name, 'wb') as f:
                f.write(data)
            self.stub.table[ENT + name] = data

    def put(self, rel, data):
        with open(os.path.join(self.dir, rel), 'wb') as f:
            f.write(data)
        self.stub.table[BASE + rel] = data

    def close(self):
        self.stub.table.clear()
        shutil.rmtree(self.dir, ignore_errors=True)

    def is_entity_target(self, event):
        kind, arg = event
        if kind == 'open':
            return arg.startswith(self.dir + '/ent/')
        return arg.startswith(ENT) or arg.startswith('file://' + self.dir + '/ent/')

    def is_inclusion(self, event):
        return '/inc/' in event[1] and (event[1].startswith(self.dir) or event[1].startswith(BASE)
                                        or event[1].startswith('file://' + self.dir))


def make_source(channel, rel, data, enc, fix):
    """Returns (source, extra kwargs, closer)."""
    path = os.path.join(fix.dir, rel)
    kw = {'opener': fix.stub}
    noop = lambda: None                                                    # noqa: E731
    if channel == 'str':
        return data.decode(TEXT_CODEC[enc]), kw, noop
    if channel == 'bytes':
        return data, kw, noop
    if channel == 'StringIO':
        return io.StringIO(data.decode(TEXT_CODEC[enc])), kw, noop
    if channel == 'BytesIO':
        return io.BytesIO(data), kw, noop
    if channel == 'textfile':
        f = open(path, 'r', encoding=TEXT_CODEC[enc])
        return f, kw, f.close
    if channel == 'binfile':
        f = open(path, 'rb')
        return f, kw, f.close
    if channel == 'raw-nonseek':
        return au.RawStream(data), kw, noop
    if channel == 'buf-nonseek':
        return au.buffered_stream(data), kw, noop
    if channel == 'path':
        return path, kw, noop
    if channel == 'fileurl':
        return 'file://' + path, kw, noop
    if channel == 'http':
        return BASE + rel, kw, noop
    if channel == 'http-global':
        return BASE + rel, {}, noop
    raise ValueError(channel)


def base_kw(loc, fix):
    if loc == 'local':
        return {'base_url': fix.dir}
    if loc == 'remote':
        return {'base_url': BASE}
    return {}


# --- one observation of the library ---------------------------------------------------------------------

def observe(mode, channel, loc, role, version, pid, fix):
    """Runs the library once. Returns dict(exc, msg, tree, names, surfaced, ent_events, inclusion_seen)."""
    enc = PAYLOAD[pid][2]
    cls = XMLSchema11 if version == '1.1' else XMLSchema10
    if role in ('instance', 'validate', 'lazy'):
        rel, data, denc = 'doc.xml', render(pid, 'instance', fix.dir), enc
    elif role in ('main', 'docschema'):
        rel, data, denc = 'main.xsd', render(pid, 'schema', fix.dir), enc
    else:
        inc_rel = 'inc/p.xsd' if role == 'include' else 'inc/q.xsd'
        fix.put(inc_rel, render(pid, 'schema' if role == 'include' else 'schema-imp', fix.dir))
        location = inc_rel if resource_locality(channel, loc) != 'none' else BASE + inc_rel
        rel, data, denc = 'main.xsd', main_doc(role, location), 'utf-8'
    fix.put(rel, data)
    source, kw, closer = make_source(channel, rel, data, denc, fix)
    kw.update(base_kw(loc, fix))
    kw['defuse'] = mode
    obs = {'exc': None, 'msg': '', 'tree': None, 'names': [], 'surfaced': False}
    try:
        with warnings.catch_warnings(record=True) as caught, au.watch() as events:
            warnings.simplefilter('always')
            try:
                if role == 'instance':
                    res = XMLResource(source, **kw)
                    obs['tree'] = canon(res.root)
                elif role == 'lazy':
                    res = XMLResource(source, lazy=True, **kw)
                    first = [res.root.tag, sorted(res.root.attrib.items())]
                    try:
                        rest = [[e.tag, e.text or ''] for e in res.iter() if e is not res.root]
                    except Exception as e:                                     # noqa
                        rest = 'iter: ' + type(e).__name__
                    obs['tree'] = [first, rest]
                elif role == 'validate':
                    obs['tree'] = xmlschema.to_dict(source, schema=instance_schema(), **kw)
                elif role == 'docschema':
                    # document-level API, the payload is in the schema given as a SOURCE: the keyword arguments
                    # (defuse among them) must reach the schema that the API builds
                    obs['tree'] = ['is_valid', xmlschema.is_valid('<pay1>v</pay1>', schema=source, cls=cls, **kw)]
                else:
                    schema = cls(source, **kw)
                    obs['tree'] = canon(schema.source.root)
                    obs['names'] = sorted(k for k in schema.maps.elements if XSD not in k)
                    missing = schema.maps.loader.missing_locations
                    texts = list(schema.warnings) + [str(w.message) for w in caught]
                    obs['surfaced'] = bool(any('/inc/' in m for m in missing)
                                           or any('forbidden' in t.lower() for t in texts))
            except Exception as e:                                             # noqa
                obs['exc'] = type(e).__name__
                obs['msg'] = str(e)[:160]
                obs['forbidden'] = isinstance(e, XMLResourceForbidden)
    finally:
        closer()
    obs['ent_events'] = sorted(set('%s %s' % (k, a.replace(fix.dir, '<fix>')) for k, a in events
                                   if fix.is_entity_target((k, a))))
    obs['inclusion_seen'] = any(fix.is_inclusion(e) for e in events)
    return obs


def outcome_of(obs):
    return obs['exc'] or 'tree'


def same_outcome(a, b):
    return a['exc'] == b['exc'] and a['tree'] == b['tree'] and a['names'] == b['names']


def stdlib_tree(pid, role, fix):
    kind = 'instance' if role in ('instance', 'validate', 'lazy') else 'schema'
    return canon(StdET.fromstring(render(pid, kind, fix.dir)))


# --- judging one case ---------------------------------------------------------------------------------

def judge(mode, channel, loc, role, version, pid, fix, baseline=None):
    """Returns (discs [(key, what)], info)."""
    declares = PAYLOAD[pid][1]
    exp = expected_defused(mode, role, channel, loc)
    key = 'C13|%s|%s|base=%s|%s%s|%s' % (mode, channel, loc, role, '' if version == '1.0' else '@1.1', pid)
    info = {'exp': exp, 'judged': 0, 'runs': 0, 'skipped': None, 'label': None}
    discs = []

    def disc(tag, what):
        discs.append((key + '|' + tag, what))

    if baseline is None:
        baseline = observe('never', channel, loc, role, version, pid, fix)
        info['runs'] += 1
    info['baseline'] = baseline
    if mode == 'never':
        obs = baseline
    else:
        obs = observe(mode, channel, loc, role, version, pid, fix)
        info['runs'] += 1
    info['obs'] = obs
    where = '%s via %s (base_url %s), defuse=%r, payload %s' % (role, channel, loc, mode, pid)

    if not declares and baseline['exc'] is not None:
        info['skipped'] = 'clean payload not parsed by defuse=never on this channel (%s)' % baseline['exc']
        info['label'] = 'skip:baseline-refuses'
        return discs, info
    if role in ('include', 'import') and obs['exc'] is not None and not obs['inclusion_seen'] \
            and not obs.get('forbidden'):
        info['skipped'] = 'main document refused before the inclusion (judged under role main)'
        info['label'] = 'skip:main-refused'
        return discs, info

    if mode == 'never':
        info['judged'] += 1
        if obs.get('forbidden'):
            disc('forbidden', '%s: refused with XMLResourceForbidden although defuse=never' % where)
        info['label'] = 'never:' + ('declares' if declares else 'clean') + ':' + outcome_of(obs).replace(
            'XMLResource', '').replace('XMLSchema', '')
        return discs, info

    refused = bool(obs.get('forbidden')) or (role == 'import' and obs['exc'] is None and obs['surfaced']
                                            and not any('pay' in n for n in obs['names']))
    if declares and exp in ('yes', 'open') and refused:
        # the refusal branch: nothing may have been fetched or expanded
        info['judged'] += 3
        if obs['ent_events']:
            disc('fetched', '%s: refused, but the entity/DTD system id was accessed first: %s'
                 % (where, obs['ent_events']))
        if has_mark(obs['tree']) or has_mark(obs['names']):
            disc('expanded', '%s: refused, but expanded entity text is visible in the result' % where)
        info['label'] = ('open' if exp == 'open' else 'defused') + ':declares:' + (
            'forbidden' if obs.get('forbidden') else 'import-blocked')
        return discs, info
    if declares and exp == 'yes':
        info['judged'] += 3
        got = obs['exc'] or ('parsed' + (' with expanded entity' if has_mark(obs['tree']) or has_mark(obs['names'])
                                         else ''))
        disc('not-forbidden:' + (obs['exc'] or 'parsed'),
             '%s: defusing applies and the payload declares an entity / external subset, expected '
             'XMLResourceForbidden, observed %s %s; entity targets accessed: %s'
             % (where, got, obs['msg'], obs['ent_events'] or 'none'))
        info['label'] = 'defused:declares:VIOLATION'
        return discs, info

    # defusing does not apply, or nothing to refuse: same outcome as defuse='never'
    info['judged'] += 2
    if not same_outcome(obs, baseline):
        if obs['exc'] != baseline['exc']:
            tag = 'differs:%s-vs-%s' % (obs['exc'] or 'parsed', baseline['exc'] or 'parsed')
        else:
            tag = 'differs:tree'
        disc(tag, '%s: %s, so the outcome must equal the one with defuse=never (%s), observed %s %s'
             % (where, 'the payload declares nothing' if not declares else 'defusing does not apply',
                outcome_of(baseline), outcome_of(obs), obs['msg']))
    info['label'] = ('defused' if exp == 'yes' else 'open' if exp == 'open' else 'undefused') + ':' + (
        'declares' if declares else 'clean') + ':same-as-never' if not discs else 'same-as-never:VIOLATION'
    return discs, info


# --- enumeration -------------------------------------------------------------------------------------

def role_versions(tier, seed):
    """(role, version, next_bound?)"""
    out = [(r, '1.0', False) for r in BASE_ROLES]
    out += [('lazy', '1.0', True), ('main', '1.1', True), ('include', '1.1', True), ('import', '1.1', True),
            ('docschema', '1.0', True)]
    return out


def shards(tier, seed):
    out = []
    for role, version, nxt in role_versions(tier, seed):
        for p in PAYLOADS:
            if nxt and tier == 'quick':
                out.append((tier, seed, role, version, p[0], -1, nxt))      # a quarter of the work: one shard
                continue
            for g in range(len(CHANGROUPS)):
                out.append((tier, seed, role, version, p[0], g, nxt))
    return out


def run_shard(shard, acc):
    tier, seed, role, version, pid, g, nxt = shard
    fix = Fixture()
    states = set()
    try:
        for channel in (CHANNELS if g < 0 else CHANGROUPS[g]):
            for loc in LOCS:
                if nxt and tier == 'quick' and not runner.in_slice(
                        '%s|%s|%s|%s|%s' % (role, version, pid, channel, loc), seed, NEXT_K):
                    acc.cnt('next_bound_cases_outside_slice', len(MODES))
                    continue
                baseline = None
                for mode in ('never', 'always', 'remote', 'nonlocal'):
                    with acc.guard(60):
                        discs, info = judge(mode, channel, loc, role, version, pid, fix, baseline)
                    baseline = info['baseline']
                    acc.ev()
                    acc.st(transitions=info['judged'], traces=1)
                    states.add((mode, info['exp'], channel, role, version, pid))
                    acc.out(info['label'])
                    acc.nt('%s|%s|%s|%s|%s|%s|%s' % (mode, info['exp'], channel, role, version, pid,
                                                     outcome_of(info['obs'])))
                    if info['skipped']:
                        acc.cnt('skipped: ' + info['skipped'].split(' (')[0])
                    if info['exp'] == 'open':
                        acc.cnt('open_cell_cases (statement silent, either behaviour accepted)')
                    if mode == 'never':
                        sanity(acc, role, pid, info['obs'], fix)
                    case = {'mode': mode, 'channel': channel, 'loc': loc, 'role': role, 'version': version,
                            'payload': pid}
                    if not discs and mode in ('always', 'remote') and loc == 'none' and channel in ('bytes', 'buf-nonseek', 'http'):
                        acc.sample(dict(case, expected_defused=info['exp'], observed=outcome_of(info['obs']),
                                        never=outcome_of(info['baseline'])))
                    for key, what in discs:
                        acc.disc(key, what, case)
    finally:
        fix.close()
    acc.st(states=len(states))


def sanity(acc, role, pid, obs, fix):
    """Liveness of the catalogue under defuse='never' (counters only, not part of the property)."""
    declares, use = PAYLOAD[pid][1], PAYLOAD[pid][5]
    if role in ('instance', 'main') and obs['exc'] is None:
        if not declares or use is None:
            try:
                ok = obs['tree'] == stdlib_tree(pid, role, fix)
            except StdET.ParseError:
                ok = False
            acc.cnt('never_tree_equals_stdlib_ElementTree' if ok else 'never_tree_differs_from_stdlib_ElementTree')
        elif PAYLOAD[pid][4] in ('int', 'nested'):
            acc.cnt('payload_live (entity expanded under never)' if has_mark(obs['tree']) or has_mark(obs['names'])
                    else 'payload_not_live')


def replay(case):
    fix = Fixture()
    try:
        discs, _ = judge(case['mode'], case['channel'], case['loc'], case['role'], case.get('version', '1.0'),
                         case['payload'], fix)
        return discs
    finally:
        fix.close()


def bounds(tier, seed):
    n = len(MODES) * len(CHANNELS) * len(LOCS) * len(PAYLOADS)
    return {'size': 'complete product %d modes x %d channels x %d base_url x %d payloads x %d roles = %d cases'
                    % (len(MODES), len(CHANNELS), len(LOCS), len(PAYLOADS), len(BASE_ROLES), n * len(BASE_ROLES)),
            'deviations': 'complete product (no deviation bound)',
            'next_bound': 'lazy instances + XSD 1.1 for main/include/import (%d cases): %s'
                          % (n * 4, 'residue slice 1/%d selected by seed' % NEXT_K if tier == 'quick' else 'complete'),
            'payloads': [p[0] for p in PAYLOADS], 'channels': list(CHANNELS), 'roles': list(BASE_ROLES)}
