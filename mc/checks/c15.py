"""C15 - schema build accepts a content model exactly when it is deterministic (UPA + EDC).

Every content-model tree up to the bound is built by the real schema constructor; the oracle is the
position automaton of mc/ref/glushkov.py with occurrence ranges unrolled.
"""
import xmlschema
from xmlschema import XMLSchema10, XMLSchema11
from xmlschema.validators.exceptions import XMLSchemaParseError, XMLSchemaModelError

from mc.core.runner import in_slice
from mc.gen import models as M
from mc.ref import glushkov

ID = 'C15'
TITLE = 'Schema build accepts a content model exactly when it is deterministic'
RULE = ('all content-model trees M(N nodes, occurrence set, D non-default occurrences) canonical up to leaf renaming, '
        'plus every single-leaf replacement by a typed leaf (EDC), a wildcard (4 namespace constraints), a substitution '
        'head or a member ref; a case is (version, model); non-trivial/distinct = distinct (version, model) whose '
        'position automaton has >= 2 positions')
ASSUMPTIONS = [
    'UPA reference: Glushkov position automaton over unrolled occurrence ranges; two positions conflict only when they stem from different particles',
    'wildcard symbol sets are computed over a 9-symbol partition of names (target declared/undeclared, other namespace, no namespace)',
    'packed lax builds attribute model errors to the complex type that carries them; every disagreement and a 1/16 slice of agreements is re-checked with a strict single-model build',
    'XSD 1.1: element-vs-wildcard competition is not an error; wildcard-vs-wildcard and element-vs-element are',
]
VERSIONS = {'1.0': XMLSchema10, '1.1': XMLSchema11}
PACK = 40
SLICES = 16


def variants(model):
    """Single-leaf replacements (each one deviation), plus anonymous-type pairs for EDC."""
    lvs = M.leaves(model)
    # two same-named leaves with distinct anonymous types (same base / different base), or one anonymous one named
    for i in range(len(lvs)):
        for j in range(i + 1, len(lvs)):
            if lvs[i][0] == 'el' and lvs[j][0] == 'el' and lvs[i][4] == lvs[j][4]:
                for ta, tb in (('anon1', 'anon2'), ('anon1', 'anon3'), ('anon1', None),
                               ('untyped', 'anyType'), ('anyType', 'untyped'), ('anyType', 'anyType')):
                    m2 = M.replace_leaf(model, i, lambda o, ta=ta: M.el_typed(o[4], ta, o[1], o[2]))
                    if tb:
                        m2 = M.replace_leaf(m2, j, lambda o, tb=tb: M.el_typed(o[4], tb, o[1], o[2]))
                    yield m2
    # a deep substitution group (z substitutes y only through an abstract member) against a reference to its
    # head, its deep member or the head again: two leaves replaced
    for i in range(len(lvs)):
        for j in range(len(lvs)):
            if i != j:
                m2 = M.replace_leaf(model, i, lambda o: M.head(o[1], o[2], deep=True))
                yield M.replace_leaf(m2, j, lambda o: M.el_ref('z', o[1], o[2]))
    for i, lf in enumerate(lvs):
        name = lf[4]
        yield M.replace_leaf(model, i, lambda o: M.el_typed(o[4], 'int', o[1], o[2]))
        for w in ('~any', '~other', '~tns', '~local'):
            yield M.replace_leaf(model, i, lambda o, w=w: M.wild(w, o[1], o[2]))
        yield M.replace_leaf(model, i, lambda o: M.head(o[1], o[2]))
        yield M.replace_leaf(model, i, lambda o: M.head(o[1], o[2], abstract=True))
        yield M.replace_leaf(model, i, lambda o: M.el_ref('m', o[1], o[2]))


def spaces(tier):
    """(name, N, occs, maxdev, with_variants, sliced).  Every quick space is contained in a thorough space."""
    small = [('M2-O8', 2, M.O8, None, False, False), ('M3-O8', 3, M.O8, None, False, False)]
    if tier == 'quick':
        return small + [
            ('M4-O5', 4, M.O5, None, False, False), ('M5-O8-D1', 5, M.O8, 1, False, False),
            ('M3-O5-D1-variants', 3, M.O5, 1, True, False),
            # seed-selected 1/16 residue slices of the thorough bound (each slice enumerated completely)
            ('M4-O5-D2-variants', 4, M.O5, 2, True, True), ('M5-O5-D2', 5, M.O5, 2, False, True),
            ('M4-O8', 4, M.O8, None, False, True)]
    return small + [
        ('M4-O8', 4, M.O8, None, False, False), ('M5-O5-D3', 5, M.O5, 3, False, False),
        ('M5-O8-D2', 5, M.O8, 2, False, False), ('M6-O5-D1', 6, M.O5, 1, False, False),
        ('M4-O5-D2-variants', 4, M.O5, 2, True, False), ('M3-O8-variants', 3, M.O8, None, True, False)]


def shards(tier, seed):
    out = []
    for name, n, occs, maxdev, var, sliced in spaces(tier):
        for si, kinds in M.shard_keys(n):
            for version in ('1.0', '1.1'):
                out.append((tier, seed, name, si, kinds, version))
    return out


def expected(model, version):
    conf, npos, nfollow = glushkov.conflicts(model, version)
    return conf, npos, nfollow


def build_strict(version, model):
    text = M.SCHEMA_HEAD + M.element_decl('e0', model) + M.SCHEMA_TAIL
    try:
        VERSIONS[version](text)
        return 'accepted', ''
    except XMLSchemaModelError as e:
        return 'model-error', str(e.message)[:160]
    except XMLSchemaParseError as e:
        return 'parse-error', str(e.message)[:160]


def build_packed(version, batch):
    """Lax build of many models; returns per-model 'accepted' / 'model-error' / 'parse-error'."""
    text = M.SCHEMA_HEAD + ''.join(M.element_decl('e%d' % i, m) for i, m in enumerate(batch)) + M.SCHEMA_TAIL
    schema = VERSIONS[version](text, validation='lax')
    out = []
    for i in range(len(batch)):
        xe = schema.elements['e%d' % i]
        errs = [e for comp in xe.iter_components() for e in comp.errors]
        if not errs:
            out.append(('accepted', ''))
        elif any(isinstance(e, XMLSchemaModelError) for e in errs):
            out.append(('model-error', str(errs[0].message)[:160]))
        else:
            out.append(('parse-error', str(errs[0].message)[:160]))
    return out


def judge(version, model, got, why, conf):
    """Returns a (key, what) discrepancy or None."""
    ms = M.show(model)
    if got == 'parse-error':
        return ('C15 %s %s parse-error' % (version, ms),
                'model %s refused with a parse error that is not a model error: %s' % (ms, why))
    if conf and got == 'accepted':
        c = conf[0]
        return ('C15 %s %s accepted-but-ambiguous' % (version, ms),
                'model %s accepted; %s conflict between particles %s and %s on %s (%s)' % (ms, c[0], c[1], c[2], c[3], c[4]))
    if not conf and got == 'model-error':
        return ('C15 %s %s refused-but-deterministic' % (version, ms),
                'model %s is deterministic and consistent but refused: %s' % (ms, why))
    return None


def run_shard(shard, acc):
    tier, seed, name, si, kinds, version = shard
    spec = [s for s in spaces(tier) if s[0] == name][0]
    _, n, occs, maxdev, var, sliced = spec
    shape = list(M.shapes(n))[si]

    def gen():
        for model in M.models_of_shape(shape, occs, maxdev, kinds):
            if var:
                for v in variants(model):
                    yield v
            else:
                yield model
    batch = []
    seen = set()

    def flush():
        if not batch:
            return
        with acc.guard(120):
            res = build_packed(version, batch)
        for k, (model, (got, why)) in enumerate(zip(batch, res)):
            conf, npos, nfollow = expected(model, version)
            ms = M.show(model)
            acc.ev()
            acc.st(states=npos, transitions=nfollow, traces=1)
            if npos >= 2:
                acc.nt(version + ms)
            d = judge(version, model, got, why, conf)
            recheck = d is not None or in_slice(ms, 0, 16)
            if recheck:
                got2, why2 = build_strict(version, model)
                acc.st(traces=1)
                if got2 != got:
                    # strict and lax disagree: judge the strict verdict (the property is stated for strict mode)
                    acc.cnt('strict_lax_differ')
                    d = judge(version, model, got2, why2, conf) or (
                        'C15 %s %s strict=%s,lax=%s' % (version, ms, got2, got),
                        'strict build says %s but lax build records %s for model %s' % (got2, got, ms))
            acc.out('%s/%s' % ('ambiguous' if conf else 'deterministic', got) + ('/DISC' if d else ''))
            if d:
                acc.disc(d[0], d[1], {'version': version, 'model': model_to_json(model)})
            elif len(acc.samples) < 3 and k == 7:
                acc.sample({'version': version, 'model': ms, 'expected': 'ambiguous' if conf else 'deterministic',
                            'library': got, 'positions': npos, 'follow_edges': nfollow})
        del batch[:]

    for model in gen():
        ms = M.show(model)
        if ms in seen:
            continue
        seen.add(ms)
        if sliced and not in_slice(version + ms, seed, SLICES):
            continue
        batch.append(model)
        if len(batch) >= PACK:
            flush()
    flush()


def model_to_json(n):
    if M.is_leaf(n):
        return [n[0], n[1], n[2], sorted(n[3]), n[4]]
    return [n[0], n[1], n[2], [model_to_json(c) for c in n[3]]]


def model_from_json(j):
    if j[0] in ('el', 'any'):
        return (j[0], j[1], j[2], frozenset(j[3]), j[4])
    return (j[0], j[1], j[2], tuple(model_from_json(c) for c in j[3]))


def replay(case):
    model = model_from_json(case['model'])
    version = case['version']
    conf, _, _ = expected(model, version)
    got, why = build_strict(version, model)
    d = judge(version, model, got, why, conf)
    return [d] if d else []


def bounds(tier, seed):
    return {'spaces': [{'name': s[0], 'nodes': s[1], 'occurrences': len(s[2]), 'max_nondefault': s[3],
                        'leaf_variants': s[4], 'seed_slice_1_of_%d' % SLICES: s[5]} for s in spaces(tier)],
            'versions': ['1.0', '1.1']}
