"""C10 - validation results never depend on what the schema object processed before.

Explicit-state exploration of call histories on ONE schema object.  A state is the event history that
reaches it, rebuilt on a fresh schema by replaying the real public calls (live schemas are not copied).
Pass A: the full tree of histories WITHOUT merging: depth 2 over all events (both tiers) and depth 3 over the
core operations (thorough).  Pass B: breadth-first search to fixpoint over states merged by the object-graph fingerprint
(mc/core/objgraph.py).  Invariant in every state: every event gives the same result as on a fresh schema.
"""
import itertools
import json

from mc.core import objgraph
from mc.gen import pool_c10 as P

ID = 'C10'
TITLE = 'Validation results never depend on what the schema object processed before'
RULE = ('events = direct simple-type is_valid/decode calls on 3 texts (they go through the per-schema scratch validation context) + 8 operations (is_valid, iter_errors, strict validate, lax decode, to_objects, iter_errors with a stop-validation hook, '
        'lazy iter_errors, encode) x 11 documents built to collide on shared state (xsi:type to an extension inside key/unique scopes, '
        'duplicate keys, dangling keyrefs, IDs/IDREFs, wildcards, fixed values, xsi:type on simple types, XSD 1.1 assertion); every history '
        'up to the depth bound is replayed on a fresh schema; distinct = distinct histories; non-trivial = the last event of the history '
        'differs from its first event (a real predecessor exists)')
ASSUMPTIONS = [
    'results are compared as (verdict, sorted (error type, path, reason) list, repr of data) with memory addresses removed',
    'pass A never merges states, so a too-coarse fingerprint can hide a residue only beyond the unmerged depth and can never raise a false alarm',
    'the fresh-schema result of every event is computed on a new schema object per event',
    'pass B merges on the contents of every mutable container of the object graph (lru-cache fill levels and populated cached_property slots are left out of the merge key to keep the fixpoint small)',
]
BUDGET_S = {}


def fresh_results(version):
    enc = P.encode_inputs(version)
    out = {}
    for ev in P.events(version):
        out[ev] = P.run_event(P.build(version), ev, enc)
    return enc, out


CORE_OPS = ('iter_errors', 'decode', 'lazy', 'st-valid')


def core_events(version):
    return [e for e in P.events(version) if e[0] in CORE_OPS]


def shards(tier, seed):
    out = []
    for version in ('1.0', '1.1'):
        evs = P.events(version)
        for i in range(0, len(evs), 4):
            out.append(('A', version, 2, i, min(i + 4, len(evs))))
        if tier == 'thorough':
            core = core_events(version)
            for i in range(len(core)):
                for j in range(0, len(core), 16):
                    out.append(('A3', version, 3, i, j))
        out.append(('B', version, 0, 0, 0))
    return out


def replay_history(version, hist, enc):
    s = P.build(version)
    res = None
    for ev in hist:
        res = P.run_event(s, ev, enc)
    return s, res


ONDEMAND_DOCS = ('xlink-type', 'xlink-attr')      # documents whose validation loads the XLink namespace on demand


def key_of(version, hist, got):
    """One key per history.  Histories in which an earlier call already loaded a namespace on demand and the last
    call is on a document of that namespace are one known family (the first contact differs from later ones):
    they are keyed by the last call only, so that the family does not grow with the history depth."""
    last = hist[-1]
    if last[1] in ONDEMAND_DOCS and any(e[1] in ONDEMAND_DOCS for e in hist[:-1]):
        return 'C10 %s after-on-demand-namespace-load %s(%s)' % (version, last[0], last[1])
    return 'C10 %s %s' % (version, ' > '.join('%s(%s)' % ev for ev in hist))


def explain(version, hist, got, exp):
    return ('after %s the call %s(%s) returns %s but on a fresh schema it returns %s'
            % (' > '.join('%s(%s)' % e for e in hist[:-1]), hist[-1][0], hist[-1][1], str(got)[:300], str(exp)[:300]))


def run_shard(shard, acc):
    kind, version, depth, lo, hi = shard
    enc, fresh = fresh_results(version)
    evs = P.events(version)
    if kind == 'A':
        # every history (e1, e2): one fresh schema per e1; e2 needs its own replay because events leave residue
        for e1 in evs[lo:hi]:
            for e2 in evs:
                with acc.guard(60):
                    s, got = replay_history(version, (e1, e2), enc)
                judge(acc, version, (e1, e2), got, fresh[e2])
        return
    if kind == 'A3':
        core = core_events(version)
        e1 = core[lo]
        for e2 in core[hi:hi + 16]:
            for e3 in core:
                with acc.guard(60):
                    s, got = replay_history(version, (e1, e2, e3), enc)
                judge(acc, version, (e1, e2, e3), got, fresh[e3])
        return
    # pass B: merged BFS to fixpoint
    start = objgraph.fingerprint(P.build(version), ignore_cache_sizes=True)
    seen = {start: ()}
    frontier = [()]
    level = 0
    transitions = 0
    max_states = 24          # bound of the merged search (pass A is unaffected); reported when hit
    capped_b = False
    while frontier and level < 6:
        nxt = []
        for hist in frontier:
            if len(seen) >= max_states:
                capped_b = True
                break
            for ev in evs:
                h2 = hist + (ev,)
                with acc.guard(60):
                    s, got = replay_history(version, h2, enc)
                transitions += 1
                judge(acc, version, h2, got, fresh[ev], count_state=False)
                fp = objgraph.fingerprint(s, ignore_cache_sizes=True)
                if fp not in seen:
                    seen[fp] = h2
                    nxt.append(h2)
        frontier = nxt
        level += 1
    acc.st(states=len(seen), transitions=transitions)
    acc.cnt('passB_states_%s' % version, len(seen))
    acc.cnt('passB_levels_%s' % version, level)
    acc.cnt('passB_fixpoint_%s' % version, 0 if (frontier or capped_b) else 1)
    acc.cnt('passB_state_cap_hit_%s' % version, 1 if capped_b else 0)
    acc.sample({'pass': 'B', 'version': version, 'fingerprint_states': len(seen), 'levels': level,
                'fixpoint_reached': not frontier and not capped_b, 'state_cap_hit': capped_b,
                'a_deepest_state_history': ['%s(%s)' % e for e in max(seen.values(), key=len)]})


def judge(acc, version, hist, got, exp, count_state=True):
    acc.ev()
    if count_state:
        acc.st(states=1, transitions=len(hist))
    acc.st(traces=1)
    if len(hist) > 1 and hist[-1] != hist[0]:
        acc.nt(version + repr(hist))
    acc.out('%s:%s' % (hist[-1][0], 'same' if got == exp else 'DIFFERENT'))
    if got != exp:
        acc.disc(key_of(version, hist, got), explain(version, hist, got, exp),
                 {'version': version, 'history': [list(e) for e in hist]})
    elif len(acc.samples) < 3 and len(hist) > 1 and hist[0][1] != hist[-1][1]:
        acc.sample({'version': version, 'history': ['%s(%s)' % e for e in hist], 'result_equals_fresh': True,
                    'result': str(got)[:120]})


def replay(case):
    version = case['version']
    hist = tuple(tuple(e) for e in case['history'])
    enc = P.encode_inputs(version)
    exp = P.run_event(P.build(version), hist[-1], enc)
    _, got = replay_history(version, hist, enc)
    if got != exp:
        return [(key_of(version, hist, got), explain(version, hist, got, exp))]
    return []


def bounds(tier, seed):
    return {'events': len(P.events('1.0')), 'unmerged_depth': 'all histories of length 2 over all events' + (
                '' if tier == 'quick' else '; all histories of length 3 over the %d core events (%s)' % (len(core_events('1.0')), ', '.join(CORE_OPS))),
            'merged_bfs': 'to fixpoint of the object-graph fingerprint, at most 6 levels and 24 fingerprint states (evidence says whether the fixpoint was reached)', 'versions': ['1.0', '1.1']}
