"""C08 - identity constraints: ID/IDREF and unique/key/keyref are enforced exactly.

Complete enumeration of small tables of field tuples.  An *abstract table* is a list of rows
(kind k|f, container position, cells over {- absent, A, B}); it is expanded into every concrete
variant: XSD version x value alphabet (declared type + lexical forms, A -> v1 | v1') x field layout
x row order.  Each variant is a document; the verdict of the reference node tables (mc/ref/identity.py)
is compared with schema.is_valid().  One discrepancy is reported per abstract table, its key naming the
table and exactly which variants deviate.
"""
import hashlib
import itertools
import math

from xmlschema import XMLSchema10, XMLSchema11

from mc.core.runner import in_slice
from mc.ref import identity as ref

ID = 'C08'
TITLE = 'Identity constraints: ID/IDREF and unique/key/keyref are enforced exactly'
RULE = ('every abstract table of 0..N rows (row = kind k|f x container position of the scope shape x cells over '
        '{absent, A, B}) per template {unique, key, key+keyref} x scope {root, wrap (rows also inside a wrapper element the selector does not reach), mid (two sibling scope '
        'elements), '
        'nest (scope element inside itself), up (keyref on the parent of two key scope elements), up0 (the same, a key '
        'scope element present only when it has rows), roote (root shape, string/token alphabets whose v1 is the empty '
        'string), ref-ab / ref-ba / ref-pc / ref-cp (XSD 1.1 only: the constraint is declared on one of two sibling '
        'scope elements a, b - or of a parent p and its child n - and reused by the other with ref=; template keyrefR '
        'reuses the keyref too), xdn (XSD 1.1 only: root shape under targetNamespace urn:t, unprefixed element names '
        'in selector / field XPaths resolved by xpathDefaultNamespace: 7 schema-level settings x 6 selector/field '
        'overrides x 3 prefix styles + the all-prefixed baseline, as part of the layout dimension), qnf (root shape, one xs:QName '
        'field on a child element that carries its own xmlns declarations), xty (two m elements that get their rows '
        'only through xsi:type of an extension; constraint on the root with selector m/k or .//k, or on m with '
        'selector k)} x arity {1, 2 fields}; '
        'each table is expanded to every variant: version {1.0, 1.1} x value alphabet (string, token, integer, '
        'decimal, boolean, QName with 1-3 lexical sets each; every A cell as v1 and as v1\') x field layout '
        '(@a, c, c/d absent-c, c/d empty-c | @a,@b ; @a,c) x row order (all orders when R^n <= 4096, else the '
        'multiset in sorted and reversed order); ID/IDREF/IDREFS: every ordered table of rows (ID cell, reference '
        'cell) x carrier layout x root ID. A case is one document; distinct_nontrivial counts distinct abstract '
        'tables (template, scope, arity, rows)')
ASSUMPTIONS = [
    'a unique/key/keyref row lacking a field is outside the qualified node set (XSD Structures 3.11.4): it can '
    'neither collide nor dangle; for xs:key it is rejected (condition 4)',
    'a keyref declared above its key sees the union of the key tables of the scope element\'s subtree; tables whose '
    'verdict depends on the conflict-removal rule of 3.11.5 (same tuple in two sibling scopes), or on whether a scope '
    'element nested in itself sees the inner key table, are skipped as contested',
    'key and keyref fields always have the same declared type; cross-type comparison (integer 1 vs decimal 1.0 of '
    'different declared types) is contested between XSD 1.0 and 1.1 and is not enumerated',
    'row order inside one container does not matter beyond the orders enumerated (all orders for small row alphabets, '
    'sorted and reversed otherwise)',
    'XSD 1.1: one ID value carried twice by the same element (attribute and child) is contested and skipped',
    'xsi:nil, default/fixed field values, list/union field types and wildcards in field paths are outside the alphabet',
]
BUDGET_S = {'quick': 1800, 'thorough': 7200}     # wall caps for a loaded machine; idle 16 cores: ~2.5 / ~11 min
VERSIONS = {'1.0': XMLSchema10, '1.1': XMLSchema11}

ROOT_NS = {'p': 'urn:a', 'q': 'urn:a', 'r': 'urn:b'}
# name -> (declared type, [v1, v1', v2]); a value is a lexical string or (lexical, row-local xmlns)
ALPHAS = {
    'string':    ('string',  ['x', ' x', 'y']),           # whiteSpace=preserve: ' x' is a different value
    'token':     ('token',   ['x', ' x ', 'y']),
    'integer/a': ('integer', ['1', '01', '2']),
    'integer/b': ('integer', ['+1', ' 1', '-1']),
    'decimal/a': ('decimal', ['1', '1.0', '2']),
    'decimal/b': ('decimal', ['0.5', '.50', '0.05']),
    'boolean/a': ('boolean', ['true', '1', 'false']),
    'boolean/b': ('boolean', ['0', 'false', '1']),
    'QName/a':   ('QName',   ['p:x', 'q:x', 'p:y']),
    'QName/b':   ('QName',   ['p:x', 'q:x', 'r:x']),
    'QName/c':   ('QName',   ['p:x', ('s:x', {'s': 'urn:a'}), ('p:x', {'p': 'urn:b'})]),
    'string/e':  ('string',  ['', ' ', 'x']),            # the empty string is a value; ' ' is another one
    'token/e':   ('token',   ['', '  ', 'x']),           # '  ' collapses to the empty string
    # scope 'qnf': xmlns declarations on the FIELD child element itself (third item 'field'); root binds p, q -> urn:a
    'QName/f1':  ('QName',   ['p:x', ('z:x', {'z': 'urn:a'}, 'field'), ('p:x', {'p': 'urn:b'}, 'field')]),
    'QName/f2':  ('QName',   [('q:x', {'q': 'urn:b'}), ('q:x', {'q': 'urn:b'}, 'field'), 'q:x']),
}
QNF2 = ['QName/f1', 'QName/f2']
ROOT11 = [a for a in ALPHAS if not a.endswith('/e') and a not in QNF2]     # the eleven alphabets of the root scope (keys depend on it)
EMPTY2 = ['string/e', 'token/e']                         # scope 'roote': the root shape with empty-string values
BASE5 = ['string', 'integer/a', 'decimal/a', 'boolean/a', 'QName/a']
REF1 = ['integer/a']                                     # XSD 1.1 constraint reuse by ref (the type plays no part)
LAYOUTS = {'@a': ['@a'], 'c': ['c'], 'c/d': ['c/d'], 'c/d~': ['c/d'], '@a,@b': ['@a', '@b'], '@a,c': ['@a', 'c']}
ARITY = {1: ['@a', 'c', 'c/d', 'c/d~'], 2: ['@a,@b', '@a,c']}
TEMPLATES = ('unique', 'key', 'keyref', 'keyrefR')
SCOPES = ('root', 'roote', 'wrap', 'mid', 'nest', 'up', 'up0', 'ref-ab', 'ref-ba', 'ref-pc', 'ref-cp', 'xdn',
          'qnf', 'xty')
# XSD 1.1 only: a constraint declared on one scope element and reused by the other with <xs:key ref="K"/>:
# siblings a, b (declared on a / on b) and parent p with child n (declared on p / on n).  Template 'keyref' has the
# keyref only where the key is declared, 'keyrefR' reuses the keyref as well (<xs:keyref ref="R"/>).
# Scope 'xdn' (XSD 1.1 only): the root shape in a schema with targetNamespace urn:t (qualified local elements) whose
# selector / field XPaths use unprefixed element names resolved by xpathDefaultNamespace.  A configuration is
# (S, Osel, Ofld, selector prefixed?, element steps of the fields prefixed?) with
#   S     on <xs:schema>: N absent | T ##targetNamespace | D ##defaultNamespace with xmlns="urn:t" | D0 ##defaultNamespace
#         without a default xmlns | U the literal URI | L ##local | X absent, but xmlns="urn:t" is declared
#   Osel / Ofld  the attribute on every xs:selector / xs:field: N absent | T | L | U
XDN_TNS = 'urn:t'
XDN_S = {'N': None, 'T': '##targetNamespace', 'D': '##defaultNamespace', 'D0': '##defaultNamespace', 'U': XDN_TNS,
         'L': '##local', 'X': None}
XDN_O = {'N': None, 'T': '##targetNamespace', 'L': '##local', 'U': XDN_TNS}
XDN_OVERRIDES = [('N', 'N'), ('L', 'N'), ('N', 'L'), ('T', 'N'), ('N', 'T'), ('U', 'U')]
XDN_LAYOUTS = {1: ['@a', 'c', 'c/d'], 2: ['@a,c']}


def xdn_configs(layout):
    """Configuration names 'S.Osel.Ofld.selp.fldp' for one field layout (attribute steps never take a namespace)."""
    out = ['N.N.N.1.1']                                              # everything prefixed: the plain baseline
    for sname in XDN_S:
        for osel, ofld in XDN_OVERRIDES:
            for selp, fldp in ((0, 0), (0, 1), (1, 0)):
                if layout == '@a' and (ofld != 'N' or fldp != 1):
                    continue
                out.append('%s.%s.%s.%d.%d' % (sname, osel, ofld, selp, fldp))
    return out


# Scope 'qnf': root shape, one field that is a child element <c> of type xs:QName carrying its own xmlns declarations.
# Scope 'xty': two <m> elements declared with an empty base type; the instances use xsi:type="Ext", the extension
# that adds the rows <k a=..>.  The constraint is on the root with selector m/k ('xty-child'), on the root with
# selector .//k ('xty-desc'), or on m itself with selector k ('xty-item').
XTY_ALPHAS = ['integer/a', 'string']
XTY_CONFIGS = ['xty-child', 'xty-desc', 'xty-item']


def layouts_of(scope, nf):
    if scope == 'qnf':
        return ['c']
    if scope == 'xty':
        return ['@a|%s' % cfg for cfg in XTY_CONFIGS]
    if scope != 'xdn':
        return ARITY[nf]
    return ['%s|%s' % (layout, cfg) for layout in XDN_LAYOUTS[nf] for cfg in xdn_configs(layout)]


def xdn_resolution(layout):
    """(selector matches the rows, per field: the field path matches) for a composite layout 'fields|config'."""
    fields, cfg = layout.split('|')
    sname, osel, ofld, selp, fldp = cfg.split('.')
    default_xmlns = XDN_TNS if sname in ('D', 'X') else None
    sel_ns = ref.effective_default_namespace(XDN_O[osel], XDN_S[sname], XDN_TNS, default_xmlns)
    fld_ns = ref.effective_default_namespace(XDN_O[ofld], XDN_S[sname], XDN_TNS, default_xmlns)
    sel_ok = selp == '1' or sel_ns == XDN_TNS
    return sel_ok, tuple(spec[0] == '@' or fldp == '1' or fld_ns == XDN_TNS for spec in LAYOUTS[fields])


REF_SCOPES = {'ref-ab': ('a', 'b'), 'ref-ba': ('b', 'a'), 'ref-pc': ('p', 'n'), 'ref-cp': ('n', 'p')}
ORDERED_MAX = 4096
SLICES = 32                    # quick explores 1/SLICES of the next bound, chosen by the seed
TARGET = 25000                 # documents per shard


def alphas_of(scope, nf, n):
    """All eleven value alphabets at the root scope (the five base ones for 4-row two-field tables), the five
    base ones in the other scope shapes.  Depends on the table only, never on the tier."""
    if scope == 'roote':
        return EMPTY2
    if scope == 'qnf':
        return QNF2
    if scope == 'xty':
        return XTY_ALPHAS
    if scope in REF_SCOPES or scope == 'xdn':
        return REF1
    return ROOT11 if scope == 'root' and not (nf == 2 and n >= 4) else BASE5


def versions_of(scope):
    return ('1.1',) if scope in REF_SCOPES or scope == 'xdn' else ('1.0', '1.1')


def row_bound(tier, scope, nf):
    """(complete bound, next bound explored by residue slice or None)."""
    base = 3 if (scope == 'root' or nf == 1) else 2
    if scope in ('xdn', 'qnf'):
        return 2, None
    if scope == 'xty':
        return 3, None
    if scope in ('nest', 'wrap', 'roote'):
        return base, None                   # same bound in both tiers: the next bound of these shapes is the most
                                            # expensive part of the space and repeats the behaviours of this one
    return (base, base + 1) if tier == 'quick' else (base + 1, None)


# --- abstract tables ----------------------------------------------------------------------------

def row_alphabet(template, scope, nf):
    """Abstract rows (kind, pos, cells); cells over 0 absent, 1 A, 3 B."""
    cells = list(itertools.product((0, 1, 3), repeat=nf))
    if scope in ('up', 'up0'):
        places = [('k', 0), ('k', 1), ('f', 2)]
    else:
        npos = {'root': 1, 'roote': 1, 'xdn': 1, 'qnf': 1, 'wrap': 2, 'mid': 2, 'nest': 3}.get(scope, 2)
        kinds = ('k', 'f') if template in ('keyref', 'keyrefR') else ('k',)
        places = [(k, p) for k in kinds for p in range(npos)]
    return [(k, p, c) for (k, p) in places for c in cells]


def concrete_r(template, scope, nf):
    return len(row_alphabet(template, scope, nf)) // 3 ** nf * 4 ** nf


def is_ordered(template, scope, nf, n):
    return concrete_r(template, scope, nf) ** n <= ORDERED_MAX


def tables(template, scope, nf, n):
    rows = row_alphabet(template, scope, nf)
    if is_ordered(template, scope, nf, n):
        return itertools.product(rows, repeat=n)
    return itertools.combinations_with_replacement(rows, n)


def groups():
    for template in TEMPLATES:
        for scope in SCOPES:
            if scope in ('up', 'up0') and template != 'keyref':
                continue
            if template == 'keyrefR' and scope not in REF_SCOPES:
                continue
            if scope == 'xty' and template == 'keyref':
                continue
            for nf in ((1,) if scope in ('qnf', 'xty') else (1, 2)):
                yield template, scope, nf


def show_table(table):
    return ' '.join('%s%d[%s]' % (k, p, ','.join('-A?B'[c] for c in cells)) for k, p, cells in table) or '(empty)'


def expansions(table):
    """Every concrete table: each A cell as v1 (1) and as v1' (2)."""
    spots = [(i, j) for i, (_, _, cells) in enumerate(table) for j, c in enumerate(cells) if c == 1]
    for bits in itertools.product((1, 2), repeat=len(spots)):
        rows = [list(cells) for _, _, cells in table]
        for (i, j), b in zip(spots, bits):
            rows[i][j] = b
        yield tuple((table[i][0], table[i][1], tuple(rows[i])) for i in range(len(table)))


def n_variants(template, scope, nf, table):
    na = sum(c == 1 for _, _, cells in table for c in cells)
    orders = 1 if is_ordered(template, scope, nf, len(table)) else 2
    return len(versions_of(scope)) * len(alphas_of(scope, nf, len(table))) * len(layouts_of(scope, nf)) * orders * 2 ** na


# --- documents ------------------------------------------------------------------------------------

def cell_value(alpha, cell):
    v = ALPHAS[alpha][1][cell - 1]
    if not isinstance(v, tuple):
        return v, None, 'row'
    return v if len(v) == 3 else (v[0], v[1], 'row')


def make_row(kind, cells, alpha):
    """Abstract reference row and the pieces needed to render it."""
    extra, on_field = {}, {}
    lex = []
    for c in cells:
        if c == 0:
            lex.append(None)
        else:
            s, ns, where = cell_value(alpha, c)
            lex.append(s)
            if ns and where == 'field':
                on_field.update(ns)                     # declared on the field element (single-field layouts only)
            elif ns:
                extra.update(ns)
    nsmap = dict(ROOT_NS)
    nsmap.update(extra)
    nsmap.update(on_field)                              # the in-scope namespaces of the field element
    return ('row', kind, tuple(lex), nsmap, extra, on_field)


def build_tree(scope, table, alpha, rev):
    """Ordered abstract document: ('r', items) with items ('row', kind, lexicals, nsmap, local xmlns) | ('elem', sub)."""
    seq = list(reversed(table)) if rev else list(table)
    at = {}
    for kind, pos, cells in seq:
        at.setdefault(pos, []).append(make_row(kind, cells, alpha))
    if scope in ('root', 'roote', 'xdn', 'qnf'):
        return ('r', at.get(0, []))
    if scope in ('ref-ab', 'ref-ba'):
        return ('r', [('elem', ('a', at.get(0, []))), ('elem', ('b', at.get(1, [])))])
    if scope in ('ref-pc', 'ref-cp'):                                # the child sits after the first row of the parent
        outer = at.get(0, [])
        return ('r', [('elem', ('p', outer[:1] + [('elem', ('n', at.get(1, [])))] + outer[1:]))])
    if scope == 'wrap':                                             # rows inside <g> are not selected by 'k' / 'f'
        return ('r', at.get(0, []) + [('elem', ('g', at.get(1, [])))])
    if scope in ('mid', 'xty'):
        return ('r', [('elem', ('m', at.get(0, []))), ('elem', ('m', at.get(1, [])))])
    if scope == 'nest':
        return ('r', [('elem', ('m', at.get(0, []) + [('elem', ('m', at.get(1, [])))] + at.get(2, [])))])
    ms = [('elem', ('m', at.get(0, []))), ('elem', ('m', at.get(1, [])))]
    if scope == 'up0':                                              # a key scope element exists only if it has rows
        ms = [m for m in ms if m[1][1]]
    return ('r', at.get(2, []) + ms if rev else ms + at.get(2, []))


def ref_tree(tree):
    label, items = tree
    return (label, [('elem', ref_tree(i[1])) if i[0] == 'elem' else i[:4] for i in items])


def render_row(item, layout):
    _, kind, lex, _, extra, on_field = item
    fns = ''.join(' xmlns:%s="%s"' % kv for kv in sorted(on_field.items()))
    attrs, kids = '', ''
    for spec, s in zip(LAYOUTS[layout], lex):
        if s is None:
            if layout == 'c/d~':
                kids += '<c/>'
        elif spec[0] == '@':
            attrs += ' %s="%s"' % (spec[1:], s)
        elif spec == 'c':
            kids += '<c%s>%s</c>' % (fns, s)
        else:
            kids += '<c><d>%s</d></c>' % s
    xmlns = ''.join(' xmlns:%s="%s"' % kv for kv in sorted(extra.items()))
    return '<%s%s%s>%s</%s>' % (kind, xmlns, attrs, kids, kind) if kids else '<%s%s%s/>' % (kind, xmlns, attrs)


def render(tree, layout, top=True):
    label, items = tree
    default, full = '', layout
    if '|xty' in layout:                                            # scope xty: <m> gets its rows through xsi:type
        layout = layout.split('|')[0]
        default = ' xmlns:xsi="http://www.w3.org/2001/XMLSchema-instance"'
    elif '|' in layout:                                             # scope xdn: every element is in urn:t
        layout, default = layout.split('|')[0], ' xmlns="%s"' % XDN_TNS
    body = ''.join(render(i[1], full, False) if i[0] == 'elem' else render_row(i, layout) for i in items)
    xmlns = default + ''.join(' xmlns:%s="%s"' % kv for kv in sorted(ROOT_NS.items())) if top else ''
    if '|xty' in full and label == 'm':
        xmlns = ' xsi:type="Ext"'
    return '<%s%s>%s</%s>' % (label, xmlns, body, label)


# --- schemas ----------------------------------------------------------------------------------------

XS = '<xs:schema xmlns:xs="http://www.w3.org/2001/XMLSchema">\n%s</xs:schema>'
_schemas = {}


def xdn_schema_text(template, layout, ftype):
    fields, cfg = layout.split('|')
    sname, osel, ofld, selp, fldp = cfg.split('.')
    t = 'xs:' + ftype
    specs = LAYOUTS[fields]
    child = ''
    if 'c' in specs:
        child = '<xs:element name="c" type="%s" minOccurs="0"/>' % t
    elif 'c/d' in specs:
        child = ('<xs:element name="c" minOccurs="0"><xs:complexType><xs:sequence><xs:element name="d" type="%s" '
                 'minOccurs="0"/></xs:sequence></xs:complexType></xs:element>' % t)
    rowtype = ('<xs:complexType name="Row"><xs:sequence>%s</xs:sequence><xs:attribute name="a" type="%s"/>'
               '<xs:attribute name="b" type="%s"/></xs:complexType>\n' % (child, t, t))

    def attr(o):
        return '' if XDN_O[o] is None else ' xpathDefaultNamespace="%s"' % XDN_O[o]

    def path(spec, prefixed):
        if spec[0] == '@':
            return spec
        return '/'.join(('t:' if prefixed else '') + step for step in spec.split('/'))

    flds = ''.join('<xs:field xpath="%s"%s/>' % (path(s, fldp == '1'), attr(ofld)) for s in specs)
    tag = 'unique' if template == 'unique' else 'key'
    key = '<xs:%s name="K"><xs:selector xpath="%s"%s/>%s</xs:%s>' % (tag, path('k', selp == '1'), attr(osel), flds, tag)
    keyref = ('<xs:keyref name="R" refer="t:K"><xs:selector xpath="%s"%s/>%s</xs:keyref>'
              % (path('f', selp == '1'), attr(osel), flds) if template == 'keyref' else '')
    head = ('<xs:schema xmlns:xs="http://www.w3.org/2001/XMLSchema" xmlns:t="%s"%s targetNamespace="%s" '
            'elementFormDefault="qualified"%s>\n'
            % (XDN_TNS, ' xmlns="%s"' % XDN_TNS if sname in ('D', 'X') else '', XDN_TNS,
               '' if XDN_S[sname] is None else ' xpathDefaultNamespace="%s"' % XDN_S[sname]))
    body = ('<xs:element name="r"><xs:complexType><xs:choice minOccurs="0" maxOccurs="unbounded"><xs:element name="k" '
            'type="t:Row"/><xs:element name="f" type="t:Row"/></xs:choice></xs:complexType>%s%s</xs:element>\n'
            % (key, keyref))
    return head + rowtype + body + '</xs:schema>'


def xty_schema_text(template, layout, ftype):
    cfg = layout.split('|')[1]
    tag = 'unique' if template == 'unique' else 'key'
    sel = {'xty-child': 'm/k', 'xty-desc': './/k', 'xty-item': 'k'}[cfg]
    cons = '<xs:%s name="K"><xs:selector xpath="%s"/><xs:field xpath="@a"/></xs:%s>' % (tag, sel, tag)
    return XS % (
        '<xs:complexType name="Row"><xs:attribute name="a" type="xs:%s"/></xs:complexType>\n'
        '<xs:complexType name="Base"/>\n'
        '<xs:complexType name="Ext"><xs:complexContent><xs:extension base="Base"><xs:choice minOccurs="0" '
        'maxOccurs="unbounded"><xs:element name="k" type="Row"/></xs:choice></xs:extension></xs:complexContent>'
        '</xs:complexType>\n'
        '<xs:element name="r"><xs:complexType><xs:choice minOccurs="0" maxOccurs="unbounded"><xs:element name="m" '
        'type="Base">%s</xs:element></xs:choice></xs:complexType>%s</xs:element>\n'
        % (ftype, cons if cfg == 'xty-item' else '', cons if cfg != 'xty-item' else ''))


def schema_text(template, layout, ftype, scope):
    if scope == 'xdn':
        return xdn_schema_text(template, layout, ftype)
    if scope == 'xty':
        return xty_schema_text(template, layout, ftype)
    t = 'xs:' + ftype
    specs = LAYOUTS[layout]
    child = ''
    if 'c' in specs:
        child = '<xs:element name="c" type="%s" minOccurs="0"/>' % t
    elif 'c/d' in specs:
        child = ('<xs:element name="c" minOccurs="0"><xs:complexType><xs:sequence><xs:element name="d" type="%s" '
                 'minOccurs="0"/></xs:sequence></xs:complexType></xs:element>' % t)
    rowtype = ('<xs:complexType name="Row"><xs:sequence>%s</xs:sequence><xs:attribute name="a" type="%s"/>'
               '<xs:attribute name="b" type="%s"/></xs:complexType>\n' % (child, t, t))
    fields = ''.join('<xs:field xpath="%s"/>' % s for s in specs)
    tag = 'unique' if template == 'unique' else 'key'
    key = '<xs:%s name="K"><xs:selector xpath="k"/>%s</xs:%s>' % (tag, fields, tag)
    keyref = ('<xs:keyref name="R" refer="K"><xs:selector xpath="f"/>%s</xs:keyref>' % fields
              if template in ('keyref', 'keyrefR') else '')
    k = '<xs:element name="k" type="Row"/>'
    f = '<xs:element name="f" type="Row"/>'
    many = '<xs:choice minOccurs="0" maxOccurs="unbounded">%s</xs:choice>'
    if scope == 'root':
        body = '<xs:element name="r"><xs:complexType>%s</xs:complexType>%s%s</xs:element>\n' % (many % (k + f), key, keyref)
    elif scope in REF_SCOPES:
        # k and f are global declarations, so the declared and the reusing constraint select the same declarations
        refs = '<xs:element ref="k"/><xs:element ref="f"/>'
        declared = key + keyref
        reused = '<xs:%s ref="K"/>%s' % (tag, '<xs:keyref ref="R"/>' if template == 'keyrefR' else '')
        cons = {REF_SCOPES[scope][0]: declared, REF_SCOPES[scope][1]: reused}
        if scope in ('ref-ab', 'ref-ba'):
            inner = ''.join('<xs:element name="%s"><xs:complexType>%s</xs:complexType>%s</xs:element>'
                            % (name, many % refs, cons[name]) for name in ('a', 'b'))
        else:
            n = '<xs:element name="n"><xs:complexType>%s</xs:complexType>%s</xs:element>' % (many % refs, cons['n'])
            inner = '<xs:element name="p"><xs:complexType>%s</xs:complexType>%s</xs:element>' % (many % (refs + n), cons['p'])
        body = '%s\n%s\n<xs:element name="r"><xs:complexType>%s</xs:complexType></xs:element>\n' % (k, f, many % inner)
    elif scope == 'wrap':
        refs = '<xs:element ref="k"/><xs:element ref="f"/>'
        g = '<xs:element name="g"><xs:complexType>%s</xs:complexType></xs:element>' % (many % refs)
        body = ('%s\n%s\n<xs:element name="r"><xs:complexType>%s</xs:complexType>%s%s</xs:element>\n'
                % (k, f, many % (refs + g), key, keyref))
    elif scope == 'mid':
        m = '<xs:element name="m"><xs:complexType>%s</xs:complexType>%s%s</xs:element>' % (many % (k + f), key, keyref)
        body = '<xs:element name="r"><xs:complexType>%s</xs:complexType></xs:element>\n' % (many % m)
    elif scope == 'nest':
        body = ('<xs:element name="m"><xs:complexType>%s</xs:complexType>%s%s</xs:element>\n'
                '<xs:element name="r"><xs:complexType>%s</xs:complexType></xs:element>\n'
                % (many % (k + f + '<xs:element ref="m"/>'), key, keyref, many % '<xs:element ref="m"/>'))
    else:
        m = '<xs:element name="m"><xs:complexType>%s</xs:complexType>%s</xs:element>' % (many % k, key)
        body = '<xs:element name="r"><xs:complexType>%s</xs:complexType>%s</xs:element>\n' % (many % (m + f), keyref)
    return XS % (rowtype + body)


def get_schema(version, template, layout, ftype, scope):
    scope = {'up0': 'up', 'roote': 'root', 'qnf': 'root'}.get(scope, scope)
    k = (version, template, layout, ftype, scope)
    if k not in _schemas:
        _schemas[k] = VERSIONS[version](schema_text(template, layout, ftype, scope))
    return _schemas[k]


def reference_view(template, scope, ftype, layout, tree):
    """(what the constraint's XPaths select according to the reference, declaration)."""
    rtree = ref_tree(tree)
    if scope == 'xdn':
        rtree = ref.restrict(rtree, *xdn_resolution(layout))
    if scope == 'xty':
        kind = 'unique' if template == 'unique' else 'key'
        if layout.endswith('xty-item'):
            return rtree, ref.Decl(kind, ftype, 'm', None)
        return ref.hoist(rtree), ref.Decl(kind, ftype, 'r', None)   # m/k and .//k from the root: every row
    return rtree, decl_of(template, scope, ftype)


def decl_of(template, scope, ftype):
    kind = 'unique' if template == 'unique' else 'key'
    if scope in REF_SCOPES:                       # both elements carry the key; the keyref where it is declared / reused
        declared_on, reused_on = REF_SCOPES[scope]
        ref_on = {'keyref': (declared_on,), 'keyrefR': (declared_on, reused_on)}.get(template)
        return ref.Decl(kind, ftype, (declared_on, reused_on), ref_on)
    if scope in ('root', 'roote', 'wrap', 'xdn', 'qnf'):
        key_on = 'r'
    else:
        key_on = 'm'
    ref_on = None
    if template == 'keyref':
        ref_on = 'r' if scope in ('root', 'roote', 'wrap', 'xdn', 'qnf', 'up', 'up0') else 'm'
    return ref.Decl(kind, ftype, key_on, ref_on)


def observe(schema, xml):
    """'accepted' | 'rejected' | 'raised:<type>'."""
    try:
        return 'accepted' if schema.is_valid(xml) else 'rejected'
    except Exception as e:                                       # noqa
        return 'raised:' + type(e).__name__


def reasons_of(schema, xml):
    try:
        return [str(e.reason)[:120] for e in schema.iter_errors(xml)][:3]
    except Exception as e:                                       # noqa
        return ['%s: %s' % (type(e).__name__, str(e)[:120])]


# --- one abstract table -------------------------------------------------------------------------

def variants(template, scope, nf, table):
    orders = (0,) if is_ordered(template, scope, nf, len(table)) else (0, 1)
    conc = list(expansions(table))
    for alpha in alphas_of(scope, nf, len(table)):
        for ctab in conc:
            for rev in orders:
                for layout in layouts_of(scope, nf):
                    for version in versions_of(scope):
                        yield version, alpha, layout, ctab, rev


def vname(v):
    version, alpha, layout, ctab, rev = v
    return '%s %s %s %s%s' % (version, alpha, layout, ' '.join(','.join('-12B'[c] for c in r[2]) for r in ctab) or '-',
                              ' rev' if rev else '')


def run_table(template, scope, nf, table, acc=None):
    """Evaluates every variant of one abstract table; returns list of (key, what)."""
    deviating = []               # (variant name, expected, observed)
    judged = 0
    example = None
    last = None
    for v in variants(template, scope, nf, table):
        version, alpha, layout, ctab, rev = v
        ftype = ALPHAS[alpha][0]
        resolution = xdn_resolution(layout) if scope == 'xdn' else (layout if scope == 'xty' else None)
        if last is None or last[0] != (alpha, ctab, rev, resolution):
            tree = build_tree(scope, ctab, alpha, rev)
            res = ref.judge(*reference_view(template, scope, ftype, layout, tree))
            last = ((alpha, ctab, rev, resolution), tree, res)
        _, tree, res = last
        xml = render(tree, layout)
        schema = get_schema(version, template, layout, ftype, scope)
        got = observe(schema, xml)
        conds = res.conditions()
        exp = 'rejected' if conds else 'accepted'
        if acc is not None:
            acc.ev()
            acc.st(states=res.states, transitions=res.transitions, traces=1)
        if res.contested:
            if acc is not None:
                acc.cnt('skipped: verdict depends on how key tables propagate to ancestors (3.11.5: conflict removal, nested scope)')
                acc.out('contested')
            continue
        judged += 1
        label = 'valid' if not conds else ('reject:' + (conds[0] if len(conds) == 1 else 'several'))
        if got == exp:
            if acc is not None:
                acc.out(label)
            continue
        if acc is not None:
            acc.out('DISC %s but %s' % (label, got))
        deviating.append((vname(v), '+'.join(conds) or 'valid', got))
        if example is None:
            example = (v, xml, conds, got, reasons_of(schema, xml))
    if not deviating:
        return []
    obs = sorted({(e, g) for _, e, g in deviating})
    if len(deviating) == judged and len(obs) == 1:
        which = 'all'
    else:
        dig = hashlib.sha1('\n'.join('%s|%s|%s' % d for d in sorted(deviating)).encode()).hexdigest()[:10]
        which = '%d/%d:%s' % (len(deviating), judged, dig)
    key = 'C08|%s|%s|%d|%s|%s|%s' % (template, scope, nf, show_table(table),
                                     ';'.join('%s->%s' % o for o in obs), which)
    v, xml, conds, got, reasons = example
    what = ('%s, scope %s: %d of %d variants deviate; e.g. [%s] %s is %s%s, reference: %s'
            % (template, scope, len(deviating), judged, vname(v), xml, got,
               (' (%s)' % '; '.join(reasons)) if reasons else '', '+'.join(conds) or 'valid'))
    return [(key, what)]


def sample_of(template, scope, nf, table):
    v = next(variants(template, scope, nf, table))
    version, alpha, layout, ctab, rev = v
    tree = build_tree(scope, ctab, alpha, rev)
    res = ref.judge(*reference_view(template, scope, ALPHAS[alpha][0], layout, tree))
    return {'template': template, 'scope': scope, 'fields': nf, 'table': show_table(table),
            'variants': n_variants(template, scope, nf, table), 'first_variant': vname(v),
            'document': render(tree, layout), 'reference': '+'.join(res.conditions()) or 'valid'}


# --- ID / IDREF / IDREFS ------------------------------------------------------------------------------

ID_VALUES = ['x', ' x ', 'y']
REF_VALUES = {'ref': ['x', ' x ', 'y'], 'refs': ['x', 'x y', ' y  x ']}
ID_LAYOUTS = ('attr-ref', 'attr-refs', 'elem-ref', 'elem-refs', 'both', 'cross')
ID_SCHEMA = XS % (
    '<xs:element name="r"><xs:complexType><xs:choice minOccurs="0" maxOccurs="unbounded"><xs:element name="e">'
    '<xs:complexType><xs:sequence><xs:element name="i" type="xs:ID" minOccurs="0"/><xs:element name="j" '
    'type="xs:IDREF" minOccurs="0"/><xs:element name="js" type="xs:IDREFS" minOccurs="0"/></xs:sequence>'
    '<xs:attribute name="id" type="xs:ID"/><xs:attribute name="ref" type="xs:IDREF"/><xs:attribute name="refs" '
    'type="xs:IDREFS"/></xs:complexType></xs:element></xs:choice><xs:attribute name="id" type="xs:ID"/>'
    '</xs:complexType></xs:element>\n'
    '<xs:element name="s"><xs:complexType><xs:simpleContent><xs:extension base="xs:ID"><xs:attribute name="ref" '
    'type="xs:IDREF"/><xs:attribute name="refs" type="xs:IDREFS"/></xs:extension></xs:simpleContent>'
    '</xs:complexType></xs:element>\n')


def id_schema(version):
    k = (version, 'id')
    if k not in _schemas:
        _schemas[k] = VERSIONS[version](ID_SCHEMA)
    return _schemas[k]


def id_doc(layout, rootid, table):
    """Returns (xml, occurrences) for a table of rows (c1, c2) over 0..3."""
    occ = []
    out = []
    if rootid:
        occ.append(('ID', 'root', 'x'))
    for n, (c1, c2) in enumerate(table):
        attrs, kids = '', ''
        first = ID_VALUES[c1 - 1] if c1 else None
        if layout == 'both':
            second = ID_VALUES[c2 - 1] if c2 else None
            if first is not None:
                attrs += ' id="%s"' % first
                occ.append(('ID', n, first))
            if second is not None:
                kids += '<i>%s</i>' % second
                occ.append(('ID', n, second))
        else:
            kind = 'refs' if layout.endswith('refs') else 'ref'
            second = REF_VALUES[kind][c2 - 1] if c2 else None
            id_attr = layout.startswith('attr')
            ref_attr = id_attr or layout == 'cross'                            # cross: ID in a child, IDREF in an attribute
            if first is not None:
                occ.append(('ID', n, first))
                if id_attr:
                    attrs += ' id="%s"' % first
                else:
                    kids += '<i>%s</i>' % first
            if second is not None:
                occ.append(('IDREFS' if kind == 'refs' else 'IDREF', n, second))
                if ref_attr:
                    attrs += ' %s="%s"' % (kind, second)
                else:
                    kids += '<%s>%s</%s>' % ('js' if kind == 'refs' else 'j', second, 'js' if kind == 'refs' else 'j')
        out.append('<e%s>%s</e>' % (attrs, kids) if kids else '<e%s/>' % attrs)
    return '<r%s>%s</r>' % (' id="x"' if rootid else '', ''.join(out)), occ


def show_id_table(table):
    return ' '.join('e[%s,%s]' % ('-12B'[a], '-12B'[b]) for a, b in table) or '(empty)'


def run_id_case(version, layout, rootid, table, acc=None):
    xml, occ = id_doc(layout, rootid, table)
    return judge_id_doc(version, 'id|%s|root=%s|%s' % (layout, 'x' if rootid else '-', show_id_table(table)),
                        xml, occ, acc)


def run_rootsimple(version, ref_cell, refs_cell, acc=None):
    """Root element with simple content of type ID carrying IDREF / IDREFS attributes."""
    occ = [('ID', 'root', 'x')]
    attrs = ''
    if ref_cell:
        attrs += ' ref="%s"' % REF_VALUES['ref'][ref_cell - 1]
        occ.append(('IDREF', 'root', REF_VALUES['ref'][ref_cell - 1]))
    if refs_cell:
        attrs += ' refs="%s"' % REF_VALUES['refs'][refs_cell - 1]
        occ.append(('IDREFS', 'root', REF_VALUES['refs'][refs_cell - 1]))
    xml = '<s%s>x</s>' % attrs
    return judge_id_doc(version, 'id|rootsimple|%s' % xml, xml, occ, acc)


def judge_id_doc(version, name, xml, occ, acc):
    res = ref.judge_ids(occ, version)
    schema = id_schema(version)
    got = observe(schema, xml)
    conds = res.conditions()
    exp = 'rejected' if conds else 'accepted'
    if acc is not None:
        acc.ev()
        acc.st(states=res.states, transitions=res.transitions, traces=1)
    if res.contested:
        if acc is not None:
            acc.cnt('skipped: XSD 1.1 same ID twice on one element')
            acc.out('contested')
        return []
    label = 'valid' if not conds else ('reject:' + (conds[0] if len(conds) == 1 else 'several'))
    if got == exp:
        if acc is not None:
            acc.out('id ' + label)
        return []
    if acc is not None:
        acc.out('DISC id %s but %s' % (label, got))
    key = 'C08|%s|%s|%s->%s' % (version, name, '+'.join(conds) or 'valid', got)
    what = ('XSD %s document %s is %s (%s); reference: %s'
            % (version, xml, got, '; '.join(reasons_of(schema, xml)), '+'.join(conds) or 'valid'))
    return [(key, what)]


# --- sharding -----------------------------------------------------------------------------------

def table_key(template, scope, nf, table):
    return '%s|%s|%d|%s' % (template, scope, nf, show_table(table))


def shards(tier, seed):
    out = []
    for template, scope, nf in groups():
        full, nxt = row_bound(tier, scope, nf)
        for n in range(0, (nxt or full) + 1):
            sliced = n > full
            cost = 0
            for t in tables(template, scope, nf, n):
                if sliced and not in_slice(table_key(template, scope, nf, t), seed, SLICES):
                    continue
                cost += n_variants(template, scope, nf, t)
            parts = max(1, math.ceil(cost / TARGET))
            for part in range(parts):
                out.append(('ic', template, scope, nf, n, part, parts, seed if sliced else None))
    nid = 3 if tier == 'quick' else 4
    for version in ('1.0', '1.1'):
        for layout in ID_LAYOUTS:
            for n in range(nid + 1):
                parts = 4 if n == 4 else 1
                for part in range(parts):
                    out.append(('id', version, layout, n, part, parts))
        out.append(('idroot', version))
    # the small ID shards first, then the big table shards before the small ones
    out.sort(key=lambda s: (s[0] == 'ic', -(s[4] if s[0] == 'ic' else 0)))
    return out


def run_shard(shard, acc):
    if shard[0] == 'ic':
        _, template, scope, nf, n, part, parts, seed = shard
        for idx, table in enumerate(tables(template, scope, nf, n)):
            if idx % parts != part:
                continue
            if seed is not None and not in_slice(table_key(template, scope, nf, table), seed, SLICES):
                continue
            with acc.guard(300):
                discs = run_table(template, scope, nf, table, acc)
            acc.nt(table_key(template, scope, nf, table))
            if not discs and idx % 997 == 0:
                acc.sample(sample_of(template, scope, nf, table))
            for key, what in discs:
                acc.disc(key, what, {'kind': 'ic', 'template': template, 'scope': scope, 'nf': nf,
                                     'table': [[k, p, list(c)] for k, p, c in table]})
    elif shard[0] == 'id':
        _, version, layout, n, part, parts = shard
        cells = list(itertools.product(range(4), repeat=2))
        for idx, table in enumerate(itertools.product(cells, repeat=n)):
            if idx % parts != part:
                continue
            for rootid in (0, 1):
                with acc.guard(60):
                    discs = run_id_case(version, layout, rootid, table, acc)
                acc.nt('id|%s|%d|%s' % (layout, rootid, show_id_table(table)))
                for key, what in discs:
                    acc.disc(key, what, {'kind': 'id', 'version': version, 'layout': layout, 'rootid': rootid,
                                         'table': [list(r) for r in table]})
    else:
        _, version = shard
        for a in range(4):
            for b in range(4):
                discs = run_rootsimple(version, a, b, acc)
                acc.nt('idroot|%d|%d' % (a, b))
                for key, what in discs:
                    acc.disc(key, what, {'kind': 'idroot', 'version': version, 'ref': a, 'refs': b})


def replay(case):
    if case['kind'] == 'ic':
        table = tuple((k, p, tuple(c)) for k, p, c in case['table'])
        return run_table(case['template'], case['scope'], case['nf'], table)
    if case['kind'] == 'id':
        return run_id_case(case['version'], case['layout'], case['rootid'], tuple(tuple(r) for r in case['table']))
    return run_rootsimple(case['version'], case['ref'], case['refs'])


def bounds(tier, seed):
    b = {}
    for template, scope, nf in groups():
        full, nxt = row_bound(tier, scope, nf)
        b['%s/%s/%d-field' % (template, scope, nf)] = 'rows <= %d%s' % (
            full, (' + seed slice %d/%d of rows = %d' % (seed % SLICES, SLICES, nxt)) if nxt else '')
    return {'size': b, 'deviations': 'complete product of versions x value alphabets x layouts x v1/v1\' expansions',
            'alphabets': {k: [v[0], [x if isinstance(x, str) else list(x) for x in v[1]]] for k, v in ALPHAS.items()},
            'alphabets_root': ROOT11, 'alphabets_roote': EMPTY2, 'alphabets_ref_scopes': REF1,
            'alphabets_other_scopes_and_4_row_2_field_root_tables': BASE5, 'id_tables': 'all ordered tables of <= %d rows x 6 carrier layouts '
            'x root ID x 2 versions + 16 root-simple-content documents' % (3 if tier == 'quick' else 4)}
