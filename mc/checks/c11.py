"""C11 - every input ends in a verdict or a library error; documented limits hold.

Complete enumeration of small deviations from valid documents: every catalogue fault at every position of every
seed / small corpus file, every truncation prefix, every single-byte substitution, judged on the exception CLASS
of every public entry point (eager and lazy); and sweeps of nesting depth / element count across every limit
setting, each setting in a process of its own (mc/explore/procexec_c11.py).
"""
import gc
import io
import json
import os
import re
import subprocess
import sys
import warnings

import xmlschema
from xmlschema import XMLSchema10, XMLSchema11, XMLResource, XMLSchemaException, XMLResourceError

from mc.core import runner
from mc.core.runner import CaseTimeout
from mc.gen import faults_c11 as G

ID = 'C11'
TITLE = 'Every input ends in a verdict or a library error; documented limits hold'
RULE = ('states = distinct (document, position, fault) situations: every catalogue fault (46) at every element / '
        'attribute / text position of 13 seed documents and of the corpus files <= 2 kB (pairs of faults on seeds: '
        'seed-selected slice in quick, all in thorough), every truncation prefix and every single-byte substitution '
        'from {<,&,",00,FF,>} of their serialisations, and every (limit setting, resource mode, size) of the limit '
        'sweeps; transitions = API calls judged (XMLResource construction, is_valid, iter_errors, decode lax, decode '
        'strict; eager and lazy; XMLSchema10 and XMLSchema11; for documents carrying an xsi:schemaLocation / '
        'xsi:noNamespaceSchemaLocation also the calls that read location hints: module-level xmlschema.is_valid / '
        'iter_errors / to_dict(lax) with the schema object, schema.iter_errors / decode(lax) with '
        'use_location_hints=True, XMLResource.get_locations(); and decode(validation=skip), eager and lazy, which may '
        'return or raise any library exception); a case is non-trivial when its (document, fault kind, '
        'well-formedness, per-call outcome vector) signature is new')
ASSUMPTIONS = [
    'well-formedness is decided by the stdlib expat binding with namespace processing (the reference); the library '
    'may raise the XMLResourceError family only for documents that reference calls not well-formed',
    'documents are handed over as str (structural faults) or io.BytesIO (truncated / garbled bytes), so text is never '
    'interpreted as a path or URL; defuse/allow/block keep their defaults, no DTD, no network',
    'location hints in the documents are relative names that do not exist (nowhere.xsd, or the corpus file\'s own '
    'schema name resolved against the working directory), so hinted loading fails fast and nothing is fetched; the '
    'hint calls use schema objects of their own and are made for the unfaulted document and for every document whose '
    'location hint values differ from it (the readers of the hints see the same input otherwise); a hint call that fails exactly like its plain counterpart is '
    'reported under the plain call\'s key only',
    'lazy means XMLResource(source, lazy=True) (lazy depth 1, thin); other lazy depths are property C06',
    '"terminates" means within 20 s per document (all calls together), 120 s per limit-sweep process and 900 s for the '
    'million-element processes',
    'limit sweeps run with the CPython default recursion limit (1000) set explicitly in the subprocess',
    'depth of a document = number of nested elements on its longest path (root = 1); element count includes the root; '
    'a size equal to the limit is within the limit',
    'for lazy resources the construction of an over-limit document is not judged (only the root is read); the calls '
    'that traverse it are',
    'MAX_XML_ELEMENTS is documented as not applying to lazy resources: over-limit lazy documents must be processed',
    'the 10^6-element sweep uses XMLSchema10 only (the loader is shared); quick omits its lazy validation calls',
]
BUDGET_S = {'quick': 2400, 'thorough': 10800}
VERSIONS = {'1.0': XMLSchema10, '1.1': XMLSchema11}
REPO = os.path.dirname(os.path.dirname(os.path.abspath(xmlschema.__file__)))
PROCEXEC = os.path.join(os.path.dirname(os.path.dirname(os.path.abspath(__file__))), 'explore', 'procexec_c11.py')
PAIR_SLICES = 24          # quick explores 1/24 of the fault pairs (seed-selected residue class)
SUBST_SLICES = 8          # quick explores 1/8 of the corpus byte substitutions

LAX_APIS = ('is_valid', 'iter_errors', 'decode_lax')
APIS = LAX_APIS + ('decode_strict',)

# --- documents ------------------------------------------------------------------------------------

_docs = {}


def load_doc(docid):
    """docid: 'seed:<name>' or 'corpus:<relative path>' -> dict or None (skipped, with reason)."""
    if docid in _docs:
        return _docs[docid]
    kind, name = docid.split(':', 1)
    entry = {'id': docid, 'skip': None}
    try:
        if kind in ('seed', 'wild'):
            versions, xsd, doc = G.SEEDS[name] if kind == 'seed' else G.WILD_CASES[name]
            entry['data'] = doc.encode('utf-8')
            entry['schemas'] = {v: VERSIONS[v](xsd) for v in versions}
            entry['schema_src'] = xsd
        else:
            path = os.path.join(REPO, 'tests', 'test_cases', name)
            with open(path, 'rb') as f:
                entry['data'] = f.read()
            try:
                url = xmlschema.fetch_schema(path)
            except XMLSchemaException:
                url = None
            if url is None:
                entry['skip'] = 'corpus file without a resolvable schema'
            else:
                schemas = {}
                for v, cls in VERSIONS.items():
                    try:
                        schemas[v] = cls(url)
                    except XMLSchemaException:
                        pass
                    except Exception:                     # noqa  (building schemas is not the property under check)
                        pass
                entry['schemas'] = schemas
                entry['schema_src'] = url
                if not schemas:
                    entry['skip'] = 'corpus schema not built'
        if not entry['skip']:
            try:
                entry['root'] = G.parse_model(entry['data'])
            except G.Unsupported:
                entry['skip'] = 'corpus file with a DOCTYPE'
            except Exception:                             # noqa
                entry['skip'] = 'corpus file not well-formed'
    except Exception as e:                                # noqa
        if kind != 'corpus':
            raise
        entry['skip'] = 'corpus file unusable: %s' % type(e).__name__
    entry['base_bad'] = set()
    if not entry['skip']:
        # location hints may load schemas into the instance: the hint calls get schema objects of their own
        entry['hint_schemas'] = {v: VERSIONS[v](entry['schema_src']) for v in entry['schemas']}
        _calls, bad, _labels, _vector, _wf = judge_document(entry['data'], entry['schemas'])
        entry['base'] = (_calls, bad)
        entry['base_bad'] = {(b[0], b[1], b[2]) for b in bad}
        hcalls, hbad, _hl, _hv = judge_hints(entry['data'], entry['hint_schemas'], _wf, bad)
        entry['hbase'] = (hcalls, hbad)
        entry['hint_values'] = hint_values(entry['data'])
        scalls, sbad, _sl, _sv = judge_skip(entry['data'], entry['schemas'], bad)
        entry['sbase'] = (scalls, sbad)
        entry['base_bad'] |= {(b[0], b[1], b[2]) for b in sbad}
        entry['base_bad'] |= {(b[0], b[1], b[2]) for b in hbad}
    _docs[docid] = entry
    gc.collect()
    gc.freeze()          # schemas are permanent: the per-call collections only look at young objects
    return entry


def all_docids():
    return ['seed:' + s for s in G.SEED_ORDER] + ['corpus:' + p for p in G.corpus_files(REPO)]


# --- judging one document ---------------------------------------------------------------------------

def _render(errors):
    """Every collected error must be printable: str, repr, reason, path are rendered (part of the call judged)."""
    for err in errors:
        str(err), repr(err), err.reason, err.path, err.message
    return 'errors' if errors else 'noerrors'


def _call(api, schema, src):
    if api == 'is_valid':
        return 'valid' if schema.is_valid(src) else 'invalid'
    if api == 'iter_errors':
        return _render(list(schema.iter_errors(src)))
    if api == 'decode_lax':
        return _render(schema.decode(src, validation='lax')[1])
    try:
        schema.decode(src)
    except xmlschema.XMLSchemaValidationError as err:
        _render([err])
        raise
    return 'data'


def judge_document(text, schemas, wf=None):
    """text: str or bytes.  Calls every entry point; returns (calls, bad, labels, vector)
    calls  = number of API calls judged
    bad    = list of (call label, kind, exception type name, message)   kind in escape / lax-raised / refused-wellformed
    labels = outcome labels (api:outcome)
    vector = compact outcome vector for the non-triviality signature"""
    if isinstance(text, str):
        data = text.encode('utf-8')

        def mk():
            return text
    else:
        data = text

        def mk():
            return io.BytesIO(data)
    if wf is None:
        wf = G.well_formed(data)
    bad, labels, vector = [], [], []
    calls = 0
    # The cyclic collector is kept out of library code: a failed lazy parse leaves suspended generators in
    # reference cycles, and a collection that happens to run inside XMLResource.get_namespaces() keeps the lazy
    # lock of the NEXT resource held ('already under iteration').  That dependence on the collector's phase is
    # enumerated on its own (limit shard 'gcphase'); here garbage is collected between calls, never inside one.
    gc.disable()

    def attempt(label, api, lax, fn):
        nonlocal calls
        calls += 1
        raised = False
        try:
            out = fn()
        except CaseTimeout:
            raise
        except BaseException as e:                       # noqa
            raised = True
            name = type(e).__name__
            msg = str(e)[:120].replace('\n', ' ')
            if not isinstance(e, XMLSchemaException):
                bad.append((label, 'escape', name, msg))
                out = 'ESCAPE'
            elif isinstance(e, XMLResourceError):
                if wf:
                    bad.append((label, 'refused-wellformed', name, msg))
                out = name
            elif lax:
                bad.append((label, 'lax-raised', name, msg))
                out = 'LAXRAISE'
            else:
                out = 'strict-error' if isinstance(e, xmlschema.XMLSchemaValidationError) else name
        else:
            if not wf and label.split('/')[1] == 'e':
                out = 'nwf-' + out
        if raised:
            gc.collect()
        labels.append('%s:%s' % (api, out))
        vector.append(out[:3])

    attempt('-/e/resource', 'resource', False, lambda: 'built' if XMLResource(mk()) else 'built')
    attempt('-/l/resource', 'resource-lazy', False, lambda: 'built' if XMLResource(mk(), lazy=True) else 'built')
    for v in sorted(schemas):
        s = schemas[v]
        for api in APIS:
            lax = api in LAX_APIS
            attempt('%s/e/%s' % (v, api), api, lax, lambda: _call(api, s, mk()))
            attempt('%s/l/%s' % (v, api), api, lax, lambda: _call(api, s, XMLResource(mk(), lazy=True)))
    gc.collect()
    return calls, bad, labels, ''.join(vector), wf


HINT_CALLS_ON = True
HINT_MARK = b'chemaLocation'
# label suffix -> the plain call it is a variant of (a hint call that fails exactly like its plain call is the
# same defect and stays under the plain call's key)
HINT_PLAIN = {'m.is_valid': 'is_valid', 'm.iter_errors': 'iter_errors', 'm.to_dict_lax': 'decode_lax',
              'iter_errors_hints': 'iter_errors', 'decode_lax_hints': 'decode_lax',
              'get_locations': 'resource', 'get_locations_all': 'resource'}


HINT_VALUE = re.compile(rb'chemaLocation\s*=\s*("[^"]*"|\'[^\']*\')')


def hint_values(data):
    """The location hint attribute values of a byte string, in document order (no parsing: works on garbled input)."""
    return HINT_VALUE.findall(data)


def judge_hints(text, schemas, wf, main_bad, base_values=None):
    """The calls that read xsi:schemaLocation / xsi:noNamespaceSchemaLocation, for documents that carry one:
    module-level xmlschema.is_valid / iter_errors / to_dict(validation='lax') with the schema object (location
    hints are on by default there), schema.iter_errors / decode(lax) with use_location_hints=True, and
    XMLResource.get_locations() (root only and whole document); eager and lazy.  Same oracle as judge_document.
    Returns (calls, bad, labels, vector).  No call is made when the document has no such attribute, or when its
    hint values are exactly those of the unfaulted document (base_values; the unfaulted document itself is judged
    with base_values=None): the readers of the hints see the same input there."""
    data = text.encode('utf-8') if isinstance(text, str) else text
    if not HINT_CALLS_ON or HINT_MARK not in data or hint_values(data) == base_values:
        return 0, [], [], ''
    if isinstance(text, str):
        def mk():
            return text
    else:
        def mk():
            return io.BytesIO(data)
    failed_plain = {(b[0], b[1], b[2]) for b in main_bad}
    bad, labels, vector = [], [], []
    calls = 0
    gc.disable()

    def attempt(v, mode, api, fn):
        nonlocal calls
        calls += 1
        label = '%s/%s/%s' % (v, mode, api)
        raised = False
        try:
            with warnings.catch_warnings():
                warnings.simplefilter('ignore')
                out = fn()
        except CaseTimeout:
            raise
        except BaseException as e:                       # noqa
            raised = True
            name = type(e).__name__
            msg = str(e)[:120].replace('\n', ' ')
            plain = '%s/%s/%s' % (v, mode, HINT_PLAIN[api])
            if not isinstance(e, XMLSchemaException):
                kind, out = 'escape', 'ESCAPE'
            elif isinstance(e, XMLResourceError):
                kind, out = ('refused-wellformed' if wf else None), name
            else:
                kind, out = 'lax-raised', 'LAXRAISE'
            if kind and (plain, kind, name) not in failed_plain:
                bad.append((label, kind, name, msg))
        if raised:
            gc.collect()
        labels.append('h.%s:%s' % (api, out))
        vector.append(out[:3])

    for mode, lazy in (('e', False), ('l', True)):
        attempt('-', mode, 'get_locations', lambda: 'locs' if XMLResource(mk(), lazy=lazy).get_locations() else 'nolocs')
        attempt('-', mode, 'get_locations_all',
                lambda: 'locs' if XMLResource(mk(), lazy=lazy).get_locations(root_only=False) else 'nolocs')
    for v in sorted(schemas):
        s = schemas[v]
        attempt(v, 'e', 'm.is_valid', lambda: 'valid' if xmlschema.is_valid(mk(), schema=s) else 'invalid')
        attempt(v, 'l', 'm.is_valid', lambda: 'valid' if xmlschema.is_valid(mk(), schema=s, lazy=True) else 'invalid')
        attempt(v, 'e', 'm.iter_errors',
                lambda: 'errors' if list(xmlschema.iter_errors(mk(), schema=s)) else 'noerrors')
        attempt(v, 'e', 'm.to_dict_lax',
                lambda: 'errors' if xmlschema.to_dict(mk(), schema=s, validation='lax')[1] else 'noerrors')
        for mode, lazy in (('e', False), ('l', True)):
            attempt(v, mode, 'iter_errors_hints', lambda: 'errors' if list(
                s.iter_errors(XMLResource(mk(), lazy=lazy), use_location_hints=True)) else 'noerrors')
            attempt(v, mode, 'decode_lax_hints', lambda: 'errors' if s.decode(
                XMLResource(mk(), lazy=lazy), validation='lax', use_location_hints=True)[1] else 'noerrors')
    gc.collect()
    return calls, bad, labels, ''.join(vector)


def judge_skip(text, schemas, main_bad):
    """decode(validation='skip'), eager and lazy, for every schema version: must return normally or raise an
    XMLSchemaException.  A call that escapes exactly like the lax or strict decode of the same version and mode is
    the same defect and stays under that call's key.  Returns (calls, bad, labels, vector)."""
    if isinstance(text, str):
        def mk():
            return text
    else:
        def mk():
            return io.BytesIO(text)
    failed_plain = {(b[0], b[1], b[2]) for b in main_bad}
    bad, labels, vector = [], [], []
    calls = 0
    gc.disable()
    for v in sorted(schemas):
        for mode, lazy in (('e', False), ('l', True)):
            calls += 1
            label = '%s/%s/decode_skip' % (v, mode)
            try:
                schemas[v].decode(XMLResource(mk(), lazy=True) if lazy else mk(), validation='skip')
                out = 'data'
            except CaseTimeout:
                raise
            except BaseException as e:                       # noqa
                name = type(e).__name__
                if isinstance(e, XMLSchemaException):
                    out = name if isinstance(e, XMLResourceError) else 'lib-error'
                else:
                    out = 'ESCAPE'
                    if not any(('%s/%s/%s' % (v, mode, api), 'escape', name) in failed_plain
                               for api in ('decode_lax', 'decode_strict')):
                        bad.append((label, 'escape', name, str(e)[:120].replace('\n', ' ')))
                del e
                gc.collect()
            labels.append('decode_skip:%s' % out)
            vector.append(out[:3])
    return calls, bad, labels, ''.join(vector)


def judge_bytes(data, schemas, main_bad, must_process=False):
    """A garbled byte string handed over as `bytes` (not wrapped in BytesIO): the library first decides whether
    it is a location or XML text.  XMLResource(data) eager and lazy and schema.is_valid(data) must end in a normal
    return or an XMLSchemaException (text that does not start with '<' is legitimately read as a location, so a
    refusal is not judged).  Failures equal to the BytesIO call's stay under that call's key."""
    failed_plain = {(b[0], b[1], b[2]) for b in main_bad}
    bad, labels, vector = [], [], []
    todo = [('-/e/resource_bytes', '-/e/resource', lambda: XMLResource(data)),
            ('-/l/resource_bytes', '-/l/resource', lambda: XMLResource(data, lazy=True))]
    for v in sorted(schemas):
        todo.append(('%s/e/is_valid_bytes' % v, '%s/e/is_valid' % v, lambda s=schemas[v]: s.is_valid(data)))
    gc.disable()
    for label, plain, fn in todo:
        try:
            fn()
            out = 'ret'
        except CaseTimeout:
            raise
        except BaseException as e:                       # noqa
            name = type(e).__name__
            if isinstance(e, XMLResourceError):
                # must_process: a well-formed document of the encoding family (BOM / declared encoding), which the
                # library has to take for XML text and process
                kind, out = ('refused-wellformed' if must_process else None), name
            elif isinstance(e, XMLSchemaException):
                kind, out = 'lax-raised', 'LAXRAISE'
            else:
                kind, out = 'escape', 'ESCAPE'
            if kind and (plain, kind, name) not in failed_plain:
                bad.append((label, kind, name, str(e)[:120].replace('\n', ' ')))
            del e
            gc.collect()
        labels.append('%s:%s' % (label.split('/')[2], out))
        vector.append(out[:3])
    return len(todo), bad, labels, ''.join(vector)


def discrepancies(prefix, bad, calls):
    """Groups the bad calls of one document by (kind, exception type): one key per group."""
    groups = {}
    for label, kind, name, msg in bad:
        groups.setdefault((kind, name), []).append((label, msg))
    out = []
    for (kind, name), items in sorted(groups.items()):
        labels = sorted(x[0] for x in items)
        sig = 'all' if len(labels) == calls else ','.join(labels)
        key = '%s|%s:%s|%s' % (prefix, kind, name, sig)
        explain = {
            'escape': 'raised %s, which is not an XMLSchemaException' % name,
            'lax-raised': 'lax mode raised %s instead of collecting the error' % name,
            'refused-wellformed': 'a well-formed document inside the limits was refused with %s' % name,
        }[kind]
        what = '%s: %s (%s) in %d of %d calls [%s]' % (prefix, explain, items[0][1], len(labels), calls,
                                                       ' '.join(labels[:6]) + (' ...' if len(labels) > 6 else ''))
        out.append((key, what))
    return out


def run_document(acc, prefix, text, entry, case, sigkind, timeout=20.0):
    try:
        with acc.guard(timeout):
            calls, bad, labels, vector, wf = judge_document(text, entry['schemas'])
            hcalls, hbad, hlabels, hvector = judge_hints(text, entry['hint_schemas'], wf, bad, entry['hint_values'])
            scalls, sbad, slabels, svector = judge_skip(text, entry['schemas'], bad)
            bcalls, bbad, blabels, bvector = (
                judge_bytes(text, entry['schemas'], bad, wf and sigkind.startswith('enc-'))
                if isinstance(text, bytes) else (0, [], [], ''))
    except CaseTimeout:
        acc.ev()
        acc.out('HANG')
        acc.disc('%s|hang' % prefix, '%s: no verdict within %.0f s' % (prefix, timeout), case)
        return
    acc.ev()
    acc.st(states=1, transitions=calls + hcalls + scalls + bcalls, traces=1)
    acc.nt('%s|%s|%s|%s|%s%s%s' % (entry['id'], sigkind, wf, vector, svector, '|' + hvector if hcalls else '',
                                   '|' + bvector if bcalls else ''))
    for lab in labels + hlabels + slabels + blabels:
        acc.out(lab)
    acc.cnt('documents_wellformed' if wf else 'documents_not_wellformed')
    if hcalls:
        acc.cnt('documents_with_location_hints')
    if entry['base_bad']:
        # calls that already fail in the same way on the unfaulted document are reported once, as 'C11|base|...'
        kept = [b for b in bad if (b[0], b[1], b[2]) not in entry['base_bad']]
        hkept = [b for b in hbad if (b[0], b[1], b[2]) not in entry['base_bad']]
        skept = [b for b in sbad if (b[0], b[1], b[2]) not in entry['base_bad']]
        acc.cnt('failing_calls_attributed_to_the_unfaulted_document',
                len(bad) - len(kept) + len(hbad) - len(hkept) + len(sbad) - len(skept))
        bad, hbad, sbad = kept, hkept, skept
    for key, what in (discrepancies(prefix, bad, calls) + discrepancies(prefix + '|hints', hbad, hcalls)
                      + discrepancies(prefix + '|skip', sbad, scalls)
                      + discrepancies(prefix + '|bytes', bbad, bcalls)):
        acc.disc(key, what, case)
    return bad + hbad + sbad + bbad


# --- fault shards -------------------------------------------------------------------------------------

def fault_text(entry, items):
    return G.apply_faults(entry['root'], items)


def item_name(entry, item):
    return '%s@%s' % (item[0], G.show_pos(entry['root'], item[1]))


def run_faults(acc, entry, lo, hi):
    items = G.single_faults(entry['root'])
    for n, item in enumerate(items[lo:hi], start=lo):
        text = fault_text(entry, [item])
        prefix = 'C11|fault|%s|%s' % (entry['id'], item_name(entry, item))
        case = {'kind': 'fault', 'doc': entry['id'], 'items': [[item[0], list(item[1])]]}
        bad = run_document(acc, prefix, text, entry, case, item[0])
        if n % 97 == 0 and not bad:
            acc.sample({'doc': entry['id'], 'fault': item_name(entry, item), 'text': text[:300]})


def pair_list(entry, tier, seed, lo, hi):
    items = G.single_faults(entry['root'])
    for i in range(lo, min(hi, len(items))):
        for j in range(i + 1, len(items)):
            a, b = items[i], items[j]
            if a[0] in G.HEAVY and b[0] in G.HEAVY:
                continue                 # two 10^5-character values in one document: outside the bound
            if not G.compatible(a, b):
                continue
            if tier == 'quick' and not runner.in_slice('%s|%d|%d' % (entry['id'], i, j), seed, PAIR_SLICES):
                continue
            yield a, b


def run_pairs(acc, entry, tier, seed, lo, hi):
    for a, b in pair_list(entry, tier, seed, lo, hi):
        text = fault_text(entry, [a, b])
        prefix = 'C11|fault2|%s|%s+%s' % (entry['id'], item_name(entry, a), item_name(entry, b))
        case = {'kind': 'fault', 'doc': entry['id'], 'items': [[a[0], list(a[1])], [b[0], list(b[1])]]}
        run_document(acc, prefix, text, entry, case, a[0] + '+' + b[0])
        acc.cnt('fault_pairs')


def run_base(acc, entry):
    calls, bad = entry['base']
    hcalls, hbad = entry['hbase']
    scalls, sbad = entry['sbase']
    acc.ev()
    acc.st(states=1, transitions=calls + hcalls + scalls, traces=1)
    acc.out('base:%s' % ('disc' if bad or hbad or sbad else 'ok'))
    for key, what in (discrepancies('C11|base|%s' % entry['id'], bad, calls)
                      + discrepancies('C11|base|%s|hints' % entry['id'], hbad, hcalls)
                      + discrepancies('C11|base|%s|skip' % entry['id'], sbad, scalls)):
        acc.disc(key, what, {'kind': 'base', 'doc': entry['id']})


DECL_ENCODINGS = ('foo', 'shift_jis', 'idna', 'UTF-16', 'ascii', 'latin1')


def decl_text(entry, enc):
    data = entry['data']
    if data.startswith(b'<?xml'):
        data = data[data.index(b'?>') + 2:].lstrip()
    return b'<?xml version="1.0" encoding="' + enc.encode() + b'"?>' + data


ENC_VARIANTS = ('utf8-bom', 'utf16le-bom', 'utf16be-bom', 'latin1-head', 'utf8-bom-decl')
ENC_PREFIXES = (1, 2, 3, 4, 5, 6)


def enc_text(entry, variant):
    """Single-line byte strings (no 0x0A) of the seed in other encodings; all are well-formed documents."""
    data = entry['data']
    if data.startswith(b'<?xml'):
        data = data[data.index(b'?>') + 2:].lstrip()
    assert b'\n' not in data
    text = data.decode('utf-8')
    if variant == 'utf8-bom':
        return b'\xef\xbb\xbf' + data
    if variant == 'utf8-bom-decl':
        return b'\xef\xbb\xbf<?xml version="1.0" encoding="UTF-8"?>' + data
    if variant == 'utf16le-bom':
        return b'\xff\xfe' + text.encode('utf-16-le')
    if variant == 'utf16be-bom':
        return b'\xfe\xff' + text.encode('utf-16-be')
    if variant == 'latin1-head':
        return b'<?xml version="1.0" encoding="latin1"?><!--\xe9\xff-->' + text.encode('latin-1', 'xmlcharrefreplace')
    raise ValueError(variant)


def run_decl(acc, entry):
    """The seed behind an XML declaration naming an unknown / unsupported / mismatching / harmless encoding, and the
    seed as a single-line byte string with a BOM / in UTF-16 / in latin-1 (plus its shortest truncations)."""
    for enc in DECL_ENCODINGS:
        prefix = 'C11|decl|%s|encoding=%s' % (entry['id'], enc)
        run_document(acc, prefix, decl_text(entry, enc), entry, {'kind': 'decl', 'doc': entry['id'], 'enc': enc},
                     'decl-' + enc)
    for variant in ENC_VARIANTS:
        data = enc_text(entry, variant)
        for n in (None,) + ENC_PREFIXES:
            prefix = 'C11|enc|%s|%s%s' % (entry['id'], variant, '' if n is None else '|len=%d' % n)
            run_document(acc, prefix, data if n is None else data[:n], entry,
                         {'kind': 'enc', 'doc': entry['id'], 'variant': variant, 'len': n}, 'enc-' + variant)


def run_trunc(acc, entry):
    run_base(acc, entry)
    if entry['id'].startswith('seed:'):
        run_decl(acc, entry)
    data = entry['data']
    for n in range(len(data)):
        prefix = 'C11|trunc|%s|len=%d' % (entry['id'], n)
        case = {'kind': 'trunc', 'doc': entry['id'], 'len': n}
        run_document(acc, prefix, data[:n], entry, case, 'trunc')
    acc.sample({'doc': entry['id'], 'truncations': len(data)})


def run_subst(acc, entry, byte, tier, seed, lo=0, hi=None):
    data = entry['data']
    sliced = tier == 'quick' and entry['id'].startswith('corpus:')
    for off in range(lo, len(data) if hi is None else min(hi, len(data))):
        if data[off] == byte:
            continue
        if sliced and not runner.in_slice('%s|%d|%d' % (entry['id'], off, byte), seed, SUBST_SLICES):
            continue
        prefix = 'C11|subst|%s|off=%d|byte=%02X' % (entry['id'], off, byte)
        case = {'kind': 'subst', 'doc': entry['id'], 'off': off, 'byte': byte}
        run_document(acc, prefix, data[:off] + bytes([byte]) + data[off + 1:], entry, case, 'subst%02X' % byte)


# --- limit sweeps ---------------------------------------------------------------------------------------

GC_PHASES = 1400           # 2 x the generation-0 threshold (700): every phase of the cyclic collector
DEFAULT_DEPTH = 1000
DEFAULT_ELEMENTS = 10 ** 6
LADDER_QUICK = [1, 2, 250, 400, 600]
LADDER_THOROUGH = [1, 2, 3, 100, 200, 300, 350, 400, 450, 500, 600, 700, 800, 900]
ALL_APIS = ['resource', 'is_valid', 'iter_errors', 'decode_lax', 'decode_strict']


def limit_shards(tier):
    out = []
    both = ['1.0', '1.1']
    # depth: the default and the small settings (every depth 1..limit+1 for the small ones)
    for shape in (['chain'] if tier == 'quick' else ['chain', 'chain-any']):
        ladder = LADDER_QUICK if tier == 'quick' else LADDER_THOROUGH
        for mode in ('eager', 'lazy'):
            out.append({'depth': None, 'elements': None, 'shape': shape, 'modes': [mode], 'apis': ALL_APIS,
                        'versions': both,
                        'sizes': sorted(set(ladder + [DEFAULT_DEPTH - 1, DEFAULT_DEPTH, DEFAULT_DEPTH + 1]))})
        for limit in (50, 10, 2, 1):
            out.append({'depth': limit, 'elements': None, 'shape': shape, 'modes': ['eager', 'lazy'],
                        'apis': ALL_APIS, 'versions': both, 'sizes': list(range(1, limit + 2)) + [limit + 7]})
    # elements: small setting, every size 1..limit+1, flat and nested documents
    for shape in ('flat', 'chain'):
        out.append({'depth': None, 'elements': 100, 'shape': shape, 'modes': ['eager', 'lazy'], 'apis': ALL_APIS,
                    'versions': both, 'sizes': list(range(1, 102)) + [150]})
    out.append({'depth': 10, 'elements': 100, 'shape': 'flat', 'modes': ['eager', 'lazy'], 'apis': ALL_APIS,
                'versions': both, 'sizes': [1, 2, 99, 100, 101]})
    for limit in (2, 1):
        out.append({'depth': None, 'elements': limit, 'shape': 'flat', 'modes': ['eager', 'lazy'], 'apis': ALL_APIS,
                    'versions': both, 'sizes': [1, 2, 3, 4]})
    # elements: the default setting (10^6), one process per size / mode / group of calls
    for n in (DEFAULT_ELEMENTS - 1, DEFAULT_ELEMENTS, DEFAULT_ELEMENTS + 1):
        groups = [('eager', ['resource', 'is_valid']), ('eager', ['decode_lax']), ('lazy', ['resource', 'decode_lax'])]
        if tier == 'thorough':
            groups += [('eager', ['iter_errors']), ('eager', ['decode_strict']), ('lazy', ['decode_strict']),
                       ('lazy', ['is_valid']), ('lazy', ['iter_errors'])]
        for mode, apis in groups:
            out.append({'depth': None, 'elements': None, 'shape': 'flat', 'modes': [mode], 'apis': apis,
                        'versions': ['1.0'], 'sizes': [n], 'timeout': 900})
    # wide and shallow documents (depth 3) made of N groups whose last child declares a namespace: the level
    # bookkeeping of the loaders must survive namespace scopes, every N is within the limits
    for shape in ('groups-prefix', 'groups-default'):
        for limit in (10, 50):
            out.append({'depth': limit, 'elements': None, 'shape': shape, 'modes': ['eager', 'lazy'],
                        'apis': ALL_APIS, 'versions': both, 'sizes': [1, 2, limit - 1, limit, limit + 1, 3 * limit]})
        out.append({'depth': None, 'elements': None, 'shape': shape, 'modes': ['eager', 'lazy'], 'apis': ALL_APIS,
                    'versions': both, 'sizes': [999, 1000, 1001, 1500] if tier == 'thorough' else [1500]})
    out.append({'setter': [1, 2, 0, -1, 'float', 'str', 'none', 10 ** 9]})
    out.append({'gcphase': GC_PHASES})
    return out


def spawn(cfg):
    """Runs one sweep process; returns (records, status) where status is 'ok', 'died:<rc>' or 'timeout'."""
    timeout = cfg.get('timeout', 120)
    try:
        p = subprocess.run([sys.executable, PROCEXEC, json.dumps(cfg)], capture_output=True, text=True,
                           timeout=timeout, env=dict(os.environ))
    except subprocess.TimeoutExpired as e:
        text = e.stdout.decode() if isinstance(e.stdout, bytes) else (e.stdout or '')
        recs = [json.loads(x) for x in text.splitlines() if x.startswith('{')]
        return recs, 'timeout'
    recs = [json.loads(x) for x in p.stdout.splitlines() if x.startswith('{')]
    if p.returncode != 0 or not recs or not recs[-1].get('done'):
        return recs, 'died:%s %s' % (p.returncode, p.stderr.strip().splitlines()[-1:] or '')
    return recs, 'ok'


def setting_name(cfg):
    return 'depth=%s,elements=%s' % (cfg.get('depth') or 'default', cfg.get('elements') or 'default')


def shape_size(shape, n):
    """(nesting depth, number of elements) of the sweep document of size n."""
    if shape.startswith('chain'):
        return n, n
    if shape.startswith('groups'):
        return 3, 1 + 3 * n
    return min(n, 2), n


def expected(cfg, rec):
    """'processed' | 'exceeded' | None (not judged) for one call record of a sweep."""
    n, mode, api = rec['n'], rec['mode'], rec['api']
    dlim = cfg.get('depth') or DEFAULT_DEPTH
    elim = cfg.get('elements') or DEFAULT_ELEMENTS
    depth, count = shape_size(cfg['shape'], n)
    over_depth = depth > dlim
    over_elems = count > elim and mode == 'eager'
    if mode == 'lazy' and api == 'resource':
        return None
    return 'exceeded' if (over_depth or over_elems) else 'processed'


def judge_sweep(cfg, recs, status):
    """Returns (discs, stats): discs = list of (key, what); one key per (setting, shape, mode, size, verdict)."""
    name = setting_name(cfg)
    groups, stats = {}, {'calls': 0, 'states': set(), 'labels': []}
    for rec in recs:
        if 'n' not in rec:
            continue
        exp = expected(cfg, rec)
        if 'ret' in rec:
            fine = rec['ret'] in ('valid', 'errors=0', 'data') or rec['ret'].startswith('root=')
            got = 'processed' if fine else 'processed-but-' + rec['ret']
        elif rec['exceeded']:
            got = 'exceeded'
        elif rec['lib']:
            got = 'raised:' + rec['exc']
        else:
            got = 'escape:' + rec['exc']
        stats['calls'] += 1
        stats['states'].add((rec['n'], rec['mode']))
        stats['labels'].append('limit:%s:%s' % (exp or 'unjudged', got.split(':')[0]))
        if exp is None:
            if got.startswith(('escape', 'raised')):
                exp = 'processed'
            else:
                continue
        if got != exp:
            groups.setdefault((rec['mode'], rec['n'], exp, got), []).append('%s/%s' % (rec['v'], rec['api']))
    discs = []
    for (mode, n, exp, got), calls in sorted(groups.items()):
        key = 'C11|limit|%s|%s|%s|n=%d|expected=%s|%s' % (name, cfg['shape'], mode, n, exp, got)
        rel = {'processed': 'is within the limits and must be processed',
               'exceeded': 'exceeds a limit and must be refused with XMLResourceExceeded'}[exp]
        depth, count = shape_size(cfg['shape'], n)
        what = ('limits %s, %s document (%s) with %d elements, %s resource: %s; observed %s in %s'
                % (name, cfg['shape'], 'nesting depth %d' % depth if cfg['shape'].startswith('chain') else
                   '%d groups whose last child declares a namespace, depth 3' % n
                   if cfg['shape'].startswith('groups') else 'depth 2',
                   count, mode, rel, got, ' '.join(sorted(calls))))
        discs.append((key, what))
    if status != 'ok':
        done = {(r['n'], r['mode'], r['api'], r['v']) for r in recs if 'n' in r}
        key = 'C11|limit|%s|%s|%s|sizes=%s|process-%s' % (name, cfg.get('shape'), '+'.join(cfg.get('modes', [])),
                                                          _sizes(cfg), status.split(':')[0])
        discs.append((key, 'limit sweep process for %s ended with %s after %d calls' % (name, status, len(done))))
    return discs, stats


def _sizes(cfg):
    s = cfg.get('sizes', [])
    return '%s..%s' % (s[0], s[-1]) if s else '-'


def judge_setter(recs, status):
    discs, n = [], 0
    for rec in recs:
        if 'setter' not in rec:
            continue
        n += 1
        base = 'C11|limit-setter|%s=%r' % (rec['setter'], rec['value'])
        if 'exc' in rec and not rec['lib']:
            discs.append((base + '|escape:' + rec['exc'], 'setting limits.%s = %r raised %s (not an XMLSchemaException)'
                          % (rec['setter'], rec['value'], rec['exc'])))
        if not rec['readback_equal']:
            discs.append((base + '|readback', 'limits.%s reads back a different value after assigning %r (%s)'
                          % (rec['setter'], rec['value'], 'accepted' if 'ret' in rec else 'refused')))
        if 'ret' in rec and isinstance(rec['value'], int) and rec['value'] >= 3 and rec['probe3'] != 'ok':
            discs.append((base + '|probe:' + rec['probe3'], 'with limits.%s = %r a 3-element document is refused'
                          % (rec['setter'], rec['value'])))
    if status != 'ok':
        discs.append(('C11|limit-setter|process-' + status.split(':')[0], 'setter process ended with ' + status))
    return discs, n


def judge_gcphase(recs, status):
    bad = [r for r in recs if 'k' in r and r.get('ret') != 'valid']
    n = sum(1 for r in recs if 'k' in r)
    discs = []
    if bad:
        kinds = sorted({r.get('exc') or r.get('ret') for r in bad})
        discs.append(('C11|gcphase|lazy|valid-document|%s' % ','.join(kinds),
                      'lazy validation of a valid document right after a failed lazy parse: %d of %d phases of the '
                      'cyclic collector end in %s instead of a verdict (first k=%d: %s)'
                      % (len(bad), n, ','.join(kinds), bad[0]['k'], bad[0].get('msg', ''))))
    if status != 'ok':
        discs.append(('C11|gcphase|process-' + status.split(':')[0], 'collector phase process ended with ' + status))
    return discs, n


def run_limit(acc, cfg):
    recs, status = spawn(cfg)
    acc.ev()
    if 'gcphase' in cfg:
        discs, n = judge_gcphase(recs, status)
        acc.st(states=n, transitions=n, traces=n)
        acc.out('gcphase:%s' % ('disc' if discs else 'ok'))
    elif 'setter' in cfg:
        discs, n = judge_setter(recs, status)
        acc.st(states=n, transitions=n, traces=n)
        acc.out('limit-setter:%s' % ('disc' if discs else 'ok'))
    else:
        discs, stats = judge_sweep(cfg, recs, status)
        acc.st(states=len(stats['states']), transitions=stats['calls'], traces=len(stats['states']))
        for lab in stats['labels']:
            acc.out(lab)
        acc.nt('limit|%s|%s|%s' % (setting_name(cfg), cfg['shape'], sorted(set(stats['labels']))))
        if not discs:
            acc.sample({'limits': setting_name(cfg), 'shape': cfg['shape'], 'sizes': _sizes(cfg),
                        'calls': stats['calls']})
    for key, what in discs:
        acc.disc(key, what, {'kind': 'limit', 'cfg': cfg})


# --- runner interface --------------------------------------------------------------------------------------

FAULT_CHUNK = 110
PAIR_CHUNK_THOROUGH = 6
SUBST_CHUNK = 700


def shards(tier, seed):
    out = _shards(tier, seed)
    only = os.environ.get('VERIF_C11_ONLY')          # developer aid: 'limit', 'seed', 'corpus' (comma separated)
    if only:
        want = set(only.split(','))
        out = [s for s in out if (s[0] == 'limit' and 'limit' in want)
               or (s[0] != 'limit' and s[1].split(':')[0] in want)]
    return out


def _shards(tier, seed):
    out = []
    for cfg in limit_shards(tier):
        if cfg.get('timeout'):
            out.append(('limit', cfg))          # the slow ones first
    for docid in all_docids():
        is_seed = docid.startswith('seed:')
        if is_seed:
            n = len(G.single_faults(G.parse_model(G.SEEDS[docid[5:]][2].encode())))
            size = len(G.SEEDS[docid[5:]][2].encode())
        else:
            with open(os.path.join(REPO, 'tests', 'test_cases', docid[7:]), 'rb') as f:
                data = f.read()
            size = len(data)
            try:
                n = len(G.single_faults(G.parse_model(data)))
            except Exception:                                 # noqa  (DOCTYPE / not well-formed: skipped in the worker)
                out.append(('trunc', docid))
                continue
        for lo in range(0, n, FAULT_CHUNK):
            out.append(('fault', docid, lo, lo + FAULT_CHUNK))
        out.append(('trunc', docid))
        for b in G.SUBST_BYTES:
            for lo in range(0, size, SUBST_CHUNK):
                out.append(('subst', docid, b, lo, lo + SUBST_CHUNK, tier, seed))
        if is_seed:
            step = 40 if tier == 'quick' else PAIR_CHUNK_THOROUGH
            for lo in range(0, n, step):
                out.append(('pairs', docid, tier, seed, lo, lo + step))
    for name in G.WILD_ORDER:
        out.append(('base', 'wild:' + name))
        out.append(('fault', 'wild:' + name, 0, 100000))
    for cfg in limit_shards(tier):
        if not cfg.get('timeout'):
            out.append(('limit', cfg))
    return out


def run_shard(shard, acc):
    kind = shard[0]
    if kind == 'limit':
        return run_limit(acc, shard[1])
    entry = load_doc(shard[1])
    if entry['skip']:
        if kind == 'trunc':
            acc.cnt('skipped: ' + entry['skip'])
        return
    if kind == 'base':
        run_base(acc, entry)
    elif kind == 'fault':
        run_faults(acc, entry, shard[2], shard[3])
    elif kind == 'trunc':
        acc.cnt('documents_used_%s' % shard[1].split(':')[0])
        run_trunc(acc, entry)
    elif kind == 'subst':
        run_subst(acc, entry, shard[2], shard[5], shard[6], shard[3], shard[4])
    elif kind == 'pairs':
        run_pairs(acc, entry, shard[2], shard[3], shard[4], shard[5])


def replay(case):
    kind = case['kind']
    if kind == 'limit':
        cfg = case['cfg']
        recs, status = spawn(cfg)
        if 'setter' in cfg:
            return judge_setter(recs, status)[0]
        if 'gcphase' in cfg:
            return judge_gcphase(recs, status)[0]
        return judge_sweep(cfg, recs, status)[0]
    entry = load_doc(case['doc'])
    if kind == 'base':
        return (discrepancies('C11|base|%s' % entry['id'], entry['base'][1], entry['base'][0])
                + discrepancies('C11|base|%s|hints' % entry['id'], entry['hbase'][1], entry['hbase'][0])
                + discrepancies('C11|base|%s|skip' % entry['id'], entry['sbase'][1], entry['sbase'][0]))
    if kind == 'fault':
        items = [(f, tuple([p[0], tuple(p[1])] + list(p[2:]))) for f, p in case['items']]
        text = fault_text(entry, items)
        fam = 'fault' if len(items) == 1 else 'fault2'
        prefix = 'C11|%s|%s|%s' % (fam, entry['id'], '+'.join(item_name(entry, it) for it in items))
    elif kind == 'decl':
        text = decl_text(entry, case['enc'])
        prefix = 'C11|decl|%s|encoding=%s' % (entry['id'], case['enc'])
    elif kind == 'enc':
        text = enc_text(entry, case['variant'])
        n = case['len']
        prefix = 'C11|enc|%s|%s%s' % (entry['id'], case['variant'], '' if n is None else '|len=%d' % n)
        text = text if n is None else text[:n]
    elif kind == 'trunc':
        text = entry['data'][:case['len']]
        prefix = 'C11|trunc|%s|len=%d' % (entry['id'], case['len'])
    else:
        d = entry['data']
        text = d[:case['off']] + bytes([case['byte']]) + d[case['off'] + 1:]
        prefix = 'C11|subst|%s|off=%d|byte=%02X' % (entry['id'], case['off'], case['byte'])
    calls, bad, _labels, _vector, wf = judge_document(text, entry['schemas'])
    hcalls, hbad, _hl, _hv = judge_hints(text, entry['hint_schemas'], wf, bad, entry['hint_values'])
    bad = [b for b in bad if (b[0], b[1], b[2]) not in entry['base_bad']]
    scalls, sbad, _sl, _sv = judge_skip(text, entry['schemas'], bad)
    hbad = [b for b in hbad if (b[0], b[1], b[2]) not in entry['base_bad']]
    sbad = [b for b in sbad if (b[0], b[1], b[2]) not in entry['base_bad']]
    out = (discrepancies(prefix, bad, calls) + discrepancies(prefix + '|hints', hbad, hcalls)
           + discrepancies(prefix + '|skip', sbad, scalls))
    if isinstance(text, bytes):
        bcalls, bbad, _bl, _bv = judge_bytes(text, entry['schemas'], bad, wf and kind == 'enc')
        out += discrepancies(prefix + '|bytes', bbad, bcalls)
    return out


def bounds(tier, seed):
    return {
        'size': '13 seeds (63-207 bytes, 3-11 elements) + corpus files <= 2048 bytes with a resolvable schema',
        'deviations': ('1 fault (all documents), 1 truncation, 1 substituted byte; 2 compatible faults on seeds (not two '
                       '10^5-character values together): %s; corpus byte substitutions: %s' % (('residue class seed mod %d' % PAIR_SLICES, 'residue class seed mod %d'
                                               % SUBST_SLICES) if tier == 'quick' else ('all', 'all'))),
        'catalogue': G.CATALOGUE,
        'limit_settings': sorted({setting_name(c) for c in limit_shards(tier) if 'shape' in c}),
        'limit_shapes': sorted({c['shape'] for c in limit_shards(tier) if 'shape' in c}),
        'collector_phases': GC_PHASES,
        'wildcard_matrix': '%d cases: element wildcard with an empty namespace set (notNamespace 1 / 2 values in 1.1, '
                           'namespace="" in 1.0 and 1.1) x strict/lax/skip x required/optional x before/after an element '
                           'x 2 instances, every single catalogue fault' % len(G.WILD_ORDER),
        'developer_filter': os.environ.get('VERIF_C11_ONLY'),
        'default_depth_ladder': LADDER_QUICK if tier == 'quick' else LADDER_THOROUGH,
    }
