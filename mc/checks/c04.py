"""C04 - all validation entry points and modes agree on one verdict.

For every document of the catalogue (mc/gen/docs_c04.py: the minimal valid and minimal invalid document of every
fault class, over 20 small schemas, XSD 1.0 and 1.1; plus the documents with exactly k errors) the complete
product  entry point x validation mode x source kind  is executed.  The reference model is the catalogue itself:
the verdict of each document is fixed by its construction, and the statement of the property gives the relations
between the observations of the different entry points:

  verdict      is_valid == (iter_errors empty) == (validate silent) == (strict decode silent) ==
               (lax decode returns no errors) == (exit status of xmlschema-validate is 0) == catalogue verdict
  first-error  what a strict call raises is the first error a lax call collects (type, reason, path), per source
  skip         skip mode neither raises nor reports
  data         the decoded data of a valid document is the same for every mode, source kind and API layer
"""
import io
import os
import pathlib
import re
import shutil
import tempfile
from contextlib import contextmanager
from xml.etree import ElementTree as ET

import lxml.etree as LX

import xmlschema
from xmlschema import XMLSchema10, XMLSchema11, XMLResource, XmlDocument, XMLSchemaValidationError
from xmlschema.dataobjects import DataElement

from mc.core.runner import in_slice
from mc.gen import docs_c04 as G
from mc.explore import procexec_c04 as PX

ID = 'C04'
TITLE = 'All validation entry points and modes agree on one verdict'
RULE = ('every catalogue document (minimal valid / minimal invalid document of every fault class of 20 schemas, '
        'XSD 1.0 and 1.1, and the documents with exactly k errors, k in {0,1,2,255,256,257,511,512}) x every entry '
        'point (schema methods, package functions with a schema object / a schema path / xsi location hints, '
        'XsdElement methods, XmlDocument, console entry) x mode (strict, lax, skip) x source kind; states = '
        'distinct (XSD version, fault class, validity, API layer, entry point, mode, source kind) situations '
        '(= distinct_nontrivial); transitions = relations of the statement judged (verdict, first error, skip '
        'silence, data equality); traces = entry-point calls and console runs executed')
ASSUMPTIONS = [
    'the verdict of a catalogue document is fixed by its construction (one fault per invalid document unless its '
    'label says otherwise); every catalogue verdict was cross-checked once against iter_errors() on a string source',
    'ElementTree sources (xml.etree Element / ElementTree) are not used for documents whose verdict depends on a '
    'prefix binding (prefixed xsi:type, QName values); lxml trees keep the bindings and are used for all documents',
    'decoded data from ElementTree sources is compared only for documents without any namespace declaration '
    '(the namespace declarations themselves are part of the decoded data and ElementTree drops them)',
    'lazy resources are judged on is_valid / iter_errors / validate / XmlDocument / the console entry only: lazy '
    'decoding returns generators for the subtrees, so its result is not a verdict',
    'XsdElement methods are not judged on ID/IDREF documents (the library documents that a context created from a '
    'component does not track xs:ID) nor on documents whose root element has no global declaration',
    'errors are compared as (class name, reason, path) and only between calls on the same source kind',
    'decoded data is compared after a structural normalisation that keeps the Python type of every leaf',
    'the console entry is run with PYTHONPATH set to the repository under test; the exit status is the verdict',
    'a document whose verdict the XSD text and the uniform white-space handling of the library of mixed content decide '
    'differently (blank text in a mixed element with a fixed value) is judged on the agreement of the entry points '
    'with schema.is_valid() only',
    'a QName prefix declared on the element at the lazy depth is not judged for lazy sources (lazy = eager is another '
    'property); disagreements are counted',
    'documents with an xsi:schemaLocation hint of their own are not given to the functions that are called without '
    'a schema (the hint then legitimately selects the schema)',
]
BUDGET_S = {'quick': 1500, 'thorough': 3000}
VERSIONS = {'1.0': XMLSchema10, '1.1': XMLSchema11}
DOC_CHUNK = 10
CLI_CHUNK = 4
NODATA = '<no data>'

FILE_KINDS = ('path', 'url', 'textfile', 'binfile')
MEM_KINDS = ('str', 'bytes', 'etree', 'element', 'lxml', 'resource', 'lazy')
THOROUGH_FILE_KINDS = ('pathlib', 'resource-path', 'resource-url')
THOROUGH_MEM_KINDS = ('lxml-element', 'lazy2', 'lazy-thin', 'stringio', 'bytesio')
ET_KINDS = ('etree', 'element')
LAZY_KINDS = ('lazy', 'lazy2', 'lazy-thin', 'lazykw', 'lazy2-full')
# identity-constraint schemas: the lazy depth 2 sources belong to the quick bound too (both tiers key them with the
# base source kinds, so a quick key is always a thorough key)
DEEP_LAZY_SCHEMAS = ('identity', 'scoped', 'id', 'inherit')
DEEP_LAZY_KINDS = ('lazy2', 'lazy2-full')
PARTS = ('file', 'mem', 'misc')


# --- sources --------------------------------------------------------------------------------

def open_source(kind, text, path):
    """Returns (source object, close function)."""
    def nothing():
        pass
    if kind == 'path':
        return path, nothing
    if kind == 'pathlib':
        return pathlib.Path(path), nothing
    if kind == 'url':
        return 'file://' + path, nothing
    if kind == 'str':
        return text, nothing
    if kind == 'bytes':
        return text.encode('utf-8'), nothing
    if kind == 'textfile':
        f = open(path, encoding='utf-8')
        return f, f.close
    if kind == 'binfile':
        f = open(path, 'rb')
        return f, f.close
    if kind == 'stringio':
        return io.StringIO(text), nothing
    if kind == 'bytesio':
        return io.BytesIO(text.encode('utf-8')), nothing
    if kind == 'etree':
        return ET.ElementTree(ET.fromstring(text)), nothing
    if kind == 'element':
        return ET.fromstring(text), nothing
    if kind == 'lxml':
        return LX.fromstring(text.encode('utf-8')).getroottree(), nothing
    if kind == 'lxml-element':
        return LX.fromstring(text.encode('utf-8')), nothing
    if kind == 'resource':
        return XMLResource(text), nothing
    if kind == 'resource-path':
        return XMLResource(path), nothing
    if kind == 'resource-url':
        return XMLResource('file://' + path), nothing
    if kind == 'lazy':
        return XMLResource(path, lazy=True), nothing
    if kind == 'lazy2':
        return XMLResource(path, lazy=2), nothing
    if kind == 'lazy2-full':
        return XMLResource(path, lazy=2, thin_lazy=False), nothing
    if kind == 'lazy-thin':
        return XMLResource(path, lazy=True, thin_lazy=True), nothing
    if kind == 'lazykw':                     # the package functions / XmlDocument build the lazy resource themselves
        return path, nothing
    raise ValueError(kind)


# --- observations ---------------------------------------------------------------------------

ADDRESS = re.compile(r' at 0x[0-9a-fA-F]+')


def tup(e):
    # some reasons embed the default repr of a library object; its memory address is not part of the message
    return [type(e).__name__, ADDRESS.sub(' at 0x?', e.reason or ''), e.path]


def canon(x):
    if isinstance(x, DataElement):
        return ['E', x.tag, canon(x.attrib), canon(x.value), [canon(c) for c in x]]
    if isinstance(x, dict):
        return {'d': sorted(([str(k), canon(v)] for k, v in x.items()), key=lambda kv: kv[0])}
    if isinstance(x, (list, tuple)):
        return [canon(v) for v in x]
    if x is None or isinstance(x, (bool, int, str)):
        return x
    return [type(x).__name__, str(x)]


def strict_obs(fn, data=False):
    try:
        r = fn()
    except XMLSchemaValidationError as e:
        return {'v': False, 'first': tup(e)}
    return {'v': True, 'first': None, 'data': canon(r) if data else NODATA}


def lax_obs(errs, data=NODATA):
    errs = list(errs)
    return {'v': not errs, 'first': tup(errs[0]) if errs else None, 'n': len(errs), 'data': data}


def split_iter(items):
    errs = [x for x in items if isinstance(x, XMLSchemaValidationError)]
    data = [x for x in items if not isinstance(x, XMLSchemaValidationError)]
    return errs, canon(data[0] if len(data) == 1 else (data or None))


def iter_obs(gen, mode):
    if mode == 'strict':
        try:
            errs, data = split_iter(list(gen()))
        except XMLSchemaValidationError as e:
            return {'v': False, 'first': tup(e)}
        if errs:                            # yielded instead of raised: still the error strict mode reports
            return {'v': False, 'first': tup(errs[0])}
        return {'v': True, 'first': None, 'data': data}
    errs, data = split_iter(list(gen()))
    if mode == 'lax':
        return lax_obs(errs, data)
    return {'v': None, 'first': None, 'n': len(errs), 'data': data}


def schema_calls(S):
    """(entry, mode, data kind, callable(source) -> observation) for the schema methods."""
    return [
        ('is_valid', 'lax', None, lambda s: {'v': S.is_valid(s), 'first': None}),
        ('iter_errors', 'lax', None, lambda s: lax_obs(S.iter_errors(s))),
        ('validate', 'strict', None, lambda s: strict_obs(lambda: S.validate(s))),
        ('decode', 'strict', 'dict', lambda s: strict_obs(lambda: S.decode(s), True)),
        ('decode', 'lax', 'dict', lambda s: (lambda r: lax_obs(r[1], canon(r[0])))(S.decode(s, validation='lax'))),
        ('decode', 'skip', 'dict', lambda s: {'v': None, 'first': None, 'data': canon(S.decode(s, validation='skip'))}),
        ('to_dict', 'strict', 'dict', lambda s: strict_obs(lambda: S.to_dict(s), True)),
        ('iter_decode', 'lax', 'dict', lambda s: iter_obs(lambda: S.iter_decode(s), 'lax')),
        ('iter_decode', 'strict', 'dict', lambda s: iter_obs(lambda: S.iter_decode(s, validation='strict'), 'strict')),
        ('iter_decode', 'skip', 'dict', lambda s: iter_obs(lambda: S.iter_decode(s, validation='skip'), 'skip')),
        ('to_objects', 'strict', 'obj', lambda s: strict_obs(lambda: S.to_objects(s), True)),
        ('to_objects', 'lax', 'obj',
         lambda s: (lambda r: lax_obs(r[1], canon(r[0])))(S.to_objects(s, validation='lax'))),
    ]


def package_calls(kw, full=True):
    """The package-level functions; kw carries schema= / cls= (and lazy= for the 'lazykw' source)."""
    P = xmlschema
    out = [
        ('is_valid', 'lax', None, lambda s: {'v': P.is_valid(s, **kw), 'first': None}),
        ('iter_errors', 'lax', None, lambda s: lax_obs(P.iter_errors(s, **kw))),
        ('validate', 'strict', None, lambda s: strict_obs(lambda: P.validate(s, **kw))),
        ('to_dict', 'strict', 'dict', lambda s: strict_obs(lambda: P.to_dict(s, **kw), True)),
        ('to_dict', 'lax', 'dict',
         lambda s: (lambda r: lax_obs(r[1], canon(r[0])))(P.to_dict(s, validation='lax', **kw))),
    ]
    if full:
        out += [
            ('to_dict', 'skip', 'dict',
             lambda s: {'v': None, 'first': None, 'data': canon(P.to_dict(s, validation='skip', **kw))}),
            ('iter_decode', 'lax', 'dict', lambda s: iter_obs(lambda: P.iter_decode(s, **kw), 'lax')),
            ('iter_decode', 'strict', 'dict',
             lambda s: iter_obs(lambda: P.iter_decode(s, validation='strict', **kw), 'strict')),
        ]
    return out


def component_calls(X):
    return [
        ('is_valid', 'lax', None, lambda s: {'v': X.is_valid(s), 'first': None}),
        ('iter_errors', 'lax', None, lambda s: lax_obs(X.iter_errors(s))),
        ('validate', 'strict', None, lambda s: strict_obs(lambda: X.validate(s))),
        ('decode', 'strict', 'cdict', lambda s: strict_obs(lambda: X.decode(s), True)),
        ('decode', 'lax', 'cdict', lambda s: (lambda r: lax_obs(r[1], canon(r[0])))(X.decode(s, validation='lax'))),
        ('decode', 'skip', 'cdict', lambda s: {'v': None, 'first': None, 'data': canon(X.decode(s, validation='skip'))}),
        ('iter_decode', 'lax', 'cdict', lambda s: iter_obs(lambda: X.iter_decode(s), 'lax')),
    ]


def document_calls(S, extra):
    def make(mode):
        def call(s):
            if mode == 'strict':
                o = strict_obs(lambda: XmlDocument(s, schema=S, validation='strict', **extra))
                o['data'] = NODATA
                return o
            d = XmlDocument(s, schema=S, validation=mode, **extra)
            if mode == 'lax':
                return lax_obs(d.errors)
            return {'v': None, 'first': None, 'n': len(d.errors), 'data': NODATA}
        return call

    def decode(mode):
        def call(s):
            # the document is built without validation, then decoded in the requested mode
            d = XmlDocument(s, schema=S, validation='skip', **extra)
            if mode == 'strict':
                return strict_obs(lambda: d.decode(validation='strict'), True)
            return {'v': None, 'first': None, 'data': canon(d.decode(validation=mode))}
        return call
    out = [('XmlDocument', m, None, make(m)) for m in ('strict', 'lax', 'skip')]
    if not extra:
        out += [('XmlDocument.decode', 'strict', 'dict', decode('strict')),
                ('XmlDocument.decode', 'skip', 'dict', decode('skip'))]
    return out


# --- one document ---------------------------------------------------------------------------

def source_kinds(part, tier, schema_name=None):
    if part == 'file':
        return FILE_KINDS + (THOROUGH_FILE_KINDS if tier == 'thorough' else ())
    if part == 'mem':
        kinds = MEM_KINDS + (THOROUGH_MEM_KINDS if tier == 'thorough' else ())
        if schema_name in DEEP_LAZY_SCHEMAS:
            kinds += tuple(k for k in DEEP_LAZY_KINDS if k not in kinds)
        return kinds
    raise ValueError(part)


def plan(part, tier, S, cls, fx, doc, schema_name=None):
    """The list of (layer, entry, mode, data kind, source kind, source text, source path, callable)."""
    label, fclass, text, valid, pfx = doc
    text = fx['texts'][label]
    path = fx['docs'][label]
    out = []

    def add(layer, calls, kinds, stext=text, spath=path):
        for kind in kinds:
            if kind in ET_KINDS and pfx:
                continue
            for entry, mode, dk, fn in calls:
                if kind in LAZY_KINDS and dk is not None:
                    continue                                     # lazy decoding is not a verdict (see ASSUMPTIONS)
                out.append((layer, entry, mode, dk, kind, stext, spath, fn))

    if part in ('file', 'mem'):
        kinds = source_kinds(part, tier, schema_name)
        add('schema', schema_calls(S), kinds)
        add('package', package_calls({'schema': S}), kinds)
        return out

    # part 'misc': package functions that build the schema themselves, components, XmlDocument
    add('package-schema-path', package_calls({'schema': fx['xsd'], 'cls': cls}, False), ('path', 'str', 'element'))
    add('package-schema-url', package_calls({'schema': 'file://' + fx['xsd'], 'cls': cls}, False), ('bytes',))
    add('package-lazy', package_calls({'schema': S, 'lazy': True}, False), ('lazykw',))
    if label in fx['hints']:
        htext, hpath = fx['hints'][label]
        add('package-hints', package_calls({'cls': cls}, False), ('path', 'str', 'lxml'), htext, hpath)
    root = ET.fromstring(text).tag
    X = S.maps.elements.get(root)
    if X is not None and fclass not in ('id', 'idref'):
        add('component', component_calls(X), ('element', 'lxml-element'))
    add('document', document_calls(S, {}),
        ('path', 'url', 'str', 'bytes', 'textfile', 'binfile', 'etree', 'element', 'lxml'))
    add('document-lazy', document_calls(S, {'lazy': True}), ('lazykw',))
    return out


def short(t):
    if t is None:
        return 'none'
    return '%s:%s@%s' % (t[0], (t[1] or '')[:90], t[2])


def run_doc(S, cls, version, schema_name, doc, part, tier, fx):
    """Executes the plan of one document and judges it. Returns (discs, stats, situations)."""
    label, fclass, text, valid, pfx = doc
    text = fx['texts'][label]
    base = 'C04|%s|%s|%s' % (version, schema_name, label)
    stats = {'calls': 0, 'judged': 0, 'skipped_et_data': 0, 'skip_undeclared_root': 0, 'lazy_prefix': 0,
             'contested': 0}
    says = 'document is'
    if valid is None:
        # contested verdict: the entry points are judged against schema.is_valid() on the text
        valid = S.is_valid(text)
        says = 'schema.is_valid(text) says'
        stats['contested'] = 1
    situations = set()
    obs = []
    for layer, entry, mode, dk, kind, stext, spath, fn in plan(part, tier, S, cls, fx, doc, schema_name):
        src, close = open_source(kind, stext, spath)
        try:
            try:
                o = fn(src)
            except Exception as e:                                 # noqa - anything else is a finding of its own
                o = {'crash': '%s: %s' % (type(e).__name__, str(e)[:160])}
        finally:
            close()
        stats['calls'] += 1
        situations.add('%s|%s|%s|%s|%s.%s|%s' % (version, fclass, valid, layer, entry, mode, kind))
        obs.append((layer, entry, mode, dk, kind, o, stext))

    found = {}          # (rule, who, observed) -> list of source kinds
    details = {}

    def note(rule, who, observed, kind):
        found.setdefault((rule, who, observed.replace(fx['dir'], '@DIR@')), []).append(kind)

    reference = {}

    def ref(dk, stext):
        """Reference data: what the schema method returns for the same text in strict mode from a string."""
        if (dk, stext) not in reference:
            reference[dk, stext] = {'dict': lambda: canon(S.decode(stext)), 'obj': lambda: canon(S.to_objects(stext)),
                                    'cdict': lambda: None}[dk]()
        return reference[dk, stext]

    for layer, entry, mode, dk, kind, o, stext in obs:
        who = '%s.%s[%s]' % (layer, entry, mode)
        if 'crash' in o:
            stats['judged'] += 1
            note('crash', who, o['crash'], kind)
            continue
        if o['v'] is not None:
            stats['judged'] += 1
            if o['v'] != valid and fclass == 'lazy-prefix' and kind in LAZY_KINDS:
                stats['lazy_prefix'] += 1        # a prefix declared at the lazy depth: C06's property, only counted
            elif o['v'] != valid:
                note('verdict', who, 'reports %s, %s %s'
                     % ('valid' if o['v'] else 'invalid', says, 'valid' if valid else 'invalid'), kind)
        elif 'n' in o and fclass == 'undeclared-root':
            stats['skip_undeclared_root'] += 1       # nothing can be decoded: the library yields the reason instead
        elif 'n' in o:
            stats['judged'] += 1
            if o['n']:
                note('skip', who, 'skip mode reports %d errors' % o['n'], kind)
        if valid and dk is not None and o.get('data', NODATA) != NODATA and o['v'] is not False:
            if kind in ET_KINDS and 'xmlns' in text:
                stats['skipped_et_data'] += 1
                continue
            stats['judged'] += 1
            if ref(dk, stext) is None:
                reference[dk, stext] = o['data']                 # component data: first observation is the reference
            elif o['data'] != ref(dk, stext):
                note('data', who, 'data %s differs from %s' % (str(o['data'])[:120], str(ref(dk, stext))[:120]), kind)

    if not valid:
        # strict raises precisely the first error lax collects, per source kind (component calls kept apart:
        # their validation context is not the schema's)
        groups = {}
        for layer, entry, mode, dk, kind, o, stext in obs:
            if 'crash' in o or o['v'] is not False or mode not in ('strict', 'lax') or o.get('first') is None:
                continue
            g = groups.setdefault(('component' if layer == 'component' else 'schema', kind), {'strict': {}, 'lax': {}})
            g[mode].setdefault(tuple(o['first']), []).append('%s.%s' % (layer, entry))
        for (grp, kind), g in groups.items():
            stats['judged'] += 1
            if g['strict'] and g['lax'] and len(set(g['strict']) | set(g['lax'])) > 1:
                observed = 'strict raises %s; lax collects first %s' % (
                    ' / '.join(short(t) for t in sorted(g['strict'], key=str)),
                    ' / '.join(short(t) for t in sorted(g['lax'], key=str)))
                note('first-error', grp, observed, kind)
                details[(grp, observed.replace(fx['dir'], '@DIR@'))] = ' | '.join(
                    '%s %s by %s' % (m, short(t)[:60], ','.join(sorted(set(v))))
                    for m in ('strict', 'lax') for t, v in sorted(g[m].items(), key=str))

    # One key per (rule, observation, set of failing source kinds), naming the entry points that fail that way.
    # The source kinds that only the thorough tier uses are keyed apart, so that every key of a quick run is
    # also a key of the thorough run.
    extra = set(THOROUGH_FILE_KINDS + THOROUGH_MEM_KINDS) if part in ('file', 'mem') else set()
    if schema_name in DEEP_LAZY_SCHEMAS:
        extra -= set(DEEP_LAZY_KINDS)
    merged = {}
    for (rule, who, observed), kinds in sorted(found.items()):
        for group in (sorted(set(kinds) - extra), sorted(set(kinds) & extra)):
            if group:
                merged.setdefault((rule, observed, ','.join(group)), []).append(who)
    discs = []
    for (rule, observed, kinds), whos in sorted(merged.items()):
        key = '%s|%s|%s|%s|sources=%s' % (base, rule, ','.join(whos), observed, kinds)
        what = '%s %s document %r (%s, XSD %s): %s %s on sources %s' % (
            schema_name, 'valid' if valid else 'invalid', label, fclass, version, ', '.join(whos), observed, kinds)
        if rule == 'first-error':
            what += ' [' + details[(whos[0], observed)][:700] + ']'
        discs.append((key, what))
    return discs, stats, situations


# --- console entry --------------------------------------------------------------------------

def cli_cases(tier, seed):
    """Console runs: the k documents, one valid and one invalid document per (schema, fault class), lazy runs,
    location-hint runs, runs with two files; quick adds a seed-selected eighth of all other documents,
    thorough runs every document."""
    cases = []
    cat = G.catalogue()
    for e in cat:
        for vi, version in enumerate(e['versions']):
            chosen, seen = [], set()
            for label, fclass, text, valid, pfx in e['docs']:
                sig = (fclass, valid)
                first = sig not in seen
                seen.add(sig)
                if e['schema'] == 'k':
                    pick = True
                elif first:
                    n = len(seen)
                    pick = version == e['versions'][n % len(e['versions'])]
                else:
                    pick = False
                rest = not pick and (tier == 'thorough' or
                                     in_slice('cli|%s|%s|%s' % (e['schema'], version, label), seed, 8))
                if pick or rest:
                    cases.append({'cli': 'one', 'schema': e['schema'], 'version': version, 'labels': [label],
                                  'lazy': False, 'hint': False})
            if e['schema'] in ('k', 'id', 'identity') and version == '1.0':
                for label, fclass, text, valid, pfx in e['docs']:
                    cases.append({'cli': 'one', 'schema': e['schema'], 'version': version, 'labels': [label],
                                  'lazy': True, 'hint': False})
            if e['schema'] in ('seq', 'nested'):
                for label in (e['docs'][0][0], [d for d in e['docs'] if not d[3]][0][0]):
                    cases.append({'cli': 'one', 'schema': e['schema'], 'version': version, 'labels': [label],
                                  'lazy': False, 'hint': True})
    for a, b in ((128, 128), (255, 1), (0, 0), (0, 1), (256, 256)):
        cases.append({'cli': 'multi', 'schema': 'k', 'version': '1.0', 'counts': [a, b], 'lazy': False,
                      'hint': False})
    return cases


def run_cli_case(case, fx, S):
    """Returns (discs, info)."""
    e = G.entry(case['schema'])
    version = case['version']
    files, total = [], 0
    if case['cli'] == 'multi':
        for n, k in enumerate(case['counts']):
            text = G.k_doc(k)
            counted = len(list(S.iter_errors(text)))
            if counted != k:
                raise RuntimeError('k document has %d errors, not %d' % (counted, k))
            p = os.path.join(fx['dir'], 'multi%d_%d.xml' % (n, k))
            with open(p, 'w', encoding='utf-8') as f:
                f.write(text)
            files.append(p)
            total += k
        name = 'files=' + '+'.join('k%d' % k for k in case['counts'])
        valid = total == 0
    else:
        label = case['labels'][0]
        doc = [d for d in e['docs'] if d[0] == label][0]
        valid = doc[3]
        if valid is None:
            valid = S.is_valid(fx['texts'][label])
        if e['schema'] == 'k':
            k = int(label.split('=')[1])
            counted = len(list(S.iter_errors(doc[2])))
            if counted != k:
                raise RuntimeError('k document has %d errors, not %d' % (counted, k))
            total = k
        files.append(fx['hints'][label][1] if case['hint'] else fx['docs'][label])
        name = label
    args = ['--version', version]
    if not case['hint']:
        args += ['--schema', fx['xsd']]
    if case['lazy']:
        args.append('--lazy')
    status, out, err = PX.run_validate(args + files, fx['dir'])
    entry = 'xmlschema-validate' + ('[lazy]' if case['lazy'] else '') + ('[hints]' if case['hint'] else '')
    discs = []
    if (status == 0) != valid:
        key = 'C04|%s|%s|%s|verdict|%s|exit status %d, document%s %s' % (
            version, case['schema'], name, entry, status, 's' if len(files) > 1 else '',
            'valid' if valid else 'invalid')
        what = ('%s on %s document %s of schema %s (XSD %s)%s exits with status %d; stdout %r stderr %r'
                % (entry, 'valid' if valid else 'invalid', name, case['schema'], version,
                   ' with %d errors in total' % total if total else '', status, out[-120:], err[-200:]))
        discs.append((key, what))
    return discs, {'status': status, 'valid': valid, 'entry': entry}


# --- fixtures -------------------------------------------------------------------------------

@contextmanager
def fixture(schema_name, version):
    e = G.entry(schema_name)
    d = tempfile.mkdtemp(prefix='c04_fx_', dir='/var/tmp')
    try:
        fx = {'dir': d, 'xsd': os.path.join(d, '%s.xsd' % schema_name), 'docs': {}, 'hints': {}, 'texts': {}}
        with open(fx['xsd'], 'w', encoding='utf-8') as f:
            f.write(e['xsd'])
        for name, content in e['files'].items():
            with open(os.path.join(d, name), 'w', encoding='utf-8') as f:
                f.write(content)
        target = re.search(r'targetNamespace="([^"]*)"', e['xsd'])
        target = target.group(1) if target else ''
        for n, (label, fclass, text, valid, pfx) in enumerate(e['docs']):
            text = text.replace('@DIR@', d)
            p = os.path.join(d, 'doc%03d.xml' % n)
            with open(p, 'w', encoding='utf-8') as f:
                f.write(text)
            fx['docs'][label] = p
            fx['texts'][label] = text
            if G.root_target(text) == target and 'schemaLocation' not in text:
                # a location hint can only name the schema of the root element's own namespace
                ht = G.with_hint(text, 'file://' + fx['xsd'], target)
                hp = os.path.join(d, 'hint%03d.xml' % n)
                with open(hp, 'w', encoding='utf-8') as f:
                    f.write(ht)
                fx['hints'][label] = (ht, hp)
        yield fx
    finally:
        shutil.rmtree(d, ignore_errors=True)


# --- sharding -------------------------------------------------------------------------------

def shards(tier, seed):
    out = []
    for e in G.catalogue():
        n = len(e['docs'])
        chunk = 2 if e['schema'] == 'k' else DOC_CHUNK
        for version in e['versions']:
            for part in PARTS:
                for lo in range(0, n, chunk):
                    out.append(('api', tier, e['schema'], version, part, lo, min(lo + chunk, n)))
    cases = cli_cases(tier, seed)
    cases.sort(key=lambda c: (c['schema'], c['version']))
    groups = {}
    for c in cases:
        groups.setdefault((c['schema'], c['version']), []).append(c)
    for (schema_name, version), cs in sorted(groups.items()):
        for lo in range(0, len(cs), CLI_CHUNK):
            out.append(('cli', tier, schema_name, version, cs[lo:lo + CLI_CHUNK]))
    # the expensive shards first (console runs, k documents)
    out.sort(key=lambda s: 0 if s[0] == 'cli' or s[2] == 'k' else 1)
    return out


def run_shard(shard, acc):
    kind, tier, schema_name, version = shard[:4]
    e = G.entry(schema_name)
    cls = VERSIONS[version]
    with fixture(schema_name, version) as fx:
        S = cls(fx['xsd'])
        if kind == 'cli':
            for case in shard[4]:
                with acc.guard(300):
                    discs, info = run_cli_case(case, fx, S)
                acc.ev()
                acc.st(transitions=1, traces=1)
                sig = '%s|%s|%s|cli|%s|file' % (version, case['schema'], info['valid'], info['entry'])
                acc.nt(sig)
                acc.out('cli:%s:%s' % ('valid' if info['valid'] else 'invalid', 'disc' if discs else 'agree'))
                acc.cnt('cli_runs')
                if case['cli'] == 'multi' or case['lazy']:
                    acc.sample({'console': info['entry'], 'case': case, 'exit_status': info['status']})
                for key, what in discs:
                    acc.disc(key, what, case)
            return
        part, lo, hi = shard[4:]
        for doc in e['docs'][lo:hi]:
            with acc.guard(600):
                discs, stats, situations = run_doc(S, cls, version, schema_name, doc, part, tier, fx)
            acc.ev()
            acc.st(transitions=stats['judged'], traces=stats['calls'])
            for s in situations:
                acc.nt(s)
            acc.cnt('entry_point_calls', stats['calls'])
            acc.cnt('et_data_not_compared_namespace_declarations', stats['skipped_et_data'])
            acc.cnt('skip_mode_not_judged_undeclared_root', stats['skip_undeclared_root'])
            acc.cnt('lazy_prefix_at_lazy_depth_disagreements_not_judged', stats['lazy_prefix'])
            acc.cnt('contested_verdict_documents_judged_on_agreement_only', stats['contested'])
            acc.out('%s:%s:%s' % (part, {True: 'valid', False: 'invalid', None: 'contested'}[doc[3]],
                                  'disc' if discs else 'agree'))
            if not discs and doc is e['docs'][lo] and part == 'mem':
                acc.sample({'schema': schema_name, 'version': version, 'label': doc[0], 'class': doc[1],
                            'document': doc[2][:200], 'valid': doc[3], 'calls': stats['calls'],
                            'judged': stats['judged']})
            case = {'schema': schema_name, 'version': version, 'label': doc[0], 'part': part, 'tier': tier}
            for key, what in discs:
                acc.disc(key, what, case)


def finish(tier, seed, total):
    # states = distinct situations (they are recorded through acc.nt and merged as a set)
    total.states = len(total.nontrivial)


def replay(case):
    e = G.entry(case['schema'])
    cls = VERSIONS[case['version']]
    with fixture(case['schema'], case['version']) as fx:
        S = cls(fx['xsd'])
        if 'cli' in case:
            return run_cli_case(case, fx, S)[0]
        doc = [d for d in e['docs'] if d[0] == case['label']][0]
        return run_doc(S, cls, case['version'], case['schema'], doc, case['part'], case['tier'], fx)[0]


def bounds(tier, seed):
    cat = G.catalogue()
    return {
        'size': '%d schemas, %d (document, version) pairs' % (len(cat), sum(len(e['docs']) * len(e['versions'])
                                                                            for e in cat)),
        'deviations': 'complete product of entry point x mode x source kind per document',
        'k_values': list(G.K_VALUES),
        'source_kinds': list(FILE_KINDS + MEM_KINDS) + (list(THOROUGH_FILE_KINDS + THOROUGH_MEM_KINDS)
                                                         if tier == 'thorough' else []),
        'console_runs': len(cli_cases(tier, seed)),
        'console': 'k documents (1.0, 1.1, 1.0 --lazy), one valid/invalid per (schema, fault class), id/identity '
                   '--lazy, location hints, two-file runs' + (', every other document' if tier == 'thorough' else
                                                              ', seed-selected 1/8 of the other documents'),
    }
