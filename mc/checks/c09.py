"""C09 - a schema means the same however its declarations are ordered, split or stored.

Metamorphic, exhaustive inside the bound: every schema of the alphabet (12 generated schemas wired with
forward references of every kind + the repository corpus schemas that build) is rewritten in every way of
each family (permutations of the globals, partitions into include files, schemaLocation spellings, diamond
includes, import orders, rebuild / late build / pickle / maps copy) and each rewritten arrangement is
compared with the original arrangement of the same schema:

    * build outcome (built / refused),
    * sorted (class, qualified name) of maps.iter_globals() and a public-API summary of every global,
    * for every probe instance: verdict, multiset of (error type, path, normalised reason), decoded data.

The order in which StagedMap._build_global fires is recorded by wrapping it from here (no source hook):
states = distinct build orders seen, transitions = _build_global calls, traces = arrangements built.
"""
import copy
import glob
import hashlib
import os
import pickle
import re
import shutil
import socket
import tempfile
import warnings
import xml.etree.ElementTree as ET
from collections import Counter

import xmlschema
from xmlschema import XMLSchema10, XMLSchema11
from xmlschema.validators import builders as _builders

from mc.core.runner import CaseTimeout, in_slice
from mc.gen import schemas_c09 as G

ID = 'C09'
TITLE = 'A schema means the same however its declarations are ordered, split or stored'
RULE = ('every schema of the alphabet (12 generated schemas with 4-6 globals wired all-forward + corpus schemas that '
        'build) x every rewrite of each family {all permutations (n<=5|6) or all transpositions+reversal; all 2^n '
        'assignments to 2 include files and 3^n to 3 (n small, linear family above); 8x8 spellings of two '
        'schemaLocations; 8x8 diamond includes (one file reached through two spellings); import orders; '
        'clear+build, build=False+build, pickle, pickle of an unbuilt schema, copy.copy(maps)+build, deepcopy; a part '
        'file reached by file name and/or by a published URL relocated by uri_mapper (9 scenarios x dict|callable x '
        'main opened by file|published URL)}; '
        'compared with the original arrangement on globals, component summaries and all probe instances. '
        'A case is non-trivial (and a state is counted) when its (schema, version, order of _build_global calls) '
        'is new; distinct_nontrivial = states = distinct build orders')
ASSUMPTIONS = [
    'the original arrangement of a schema is the yardstick; probes are judged only against it (metamorphic oracle)',
    'generated schemas are valid by construction (G10 in XSD 1.0 is invalid by construction): only for them the '
    'outcome of the original arrangement itself is judged (built / refused with a library error)',
    'error order is not compared (sets of components are hashed by id); errors are a multiset of (type, path, reason)',
    'corpus probes (minimal instances walked from the component tree of the ORIGINAL arrangement, instance files '
    'of the same directory, single-edit mutations) are inputs, not an oracle; their validity is whatever the '
    'original arrangement says',
    'corpus schemas are re-homed into a fixture directory with their composition schemaLocations made absolute; a '
    'corpus schema that does not build there, needs the network or is not UTF-8 is skipped and counted',
    'include files repeat the xs:import and xs:defaultOpenContent children and the root attributes of the main document',
    'a bare schema.copy() shares the global maps with the source; it is explored and reported, not judged',
    'published URLs (http://example.test/schemas/...) are never fetched: the uri_mapper always relocates them to '
    'fixture files and socket connections are blocked in the worker',
]
BUDGET_S = {'quick': 900, 'thorough': 3600}
VERSIONS = {'1.0': XMLSchema10, '1.1': XMLSchema11}
REPO = os.path.dirname(os.path.dirname(os.path.abspath(xmlschema.__file__)))
CORPUS_ROOT = os.path.join(REPO, 'tests', 'test_cases')
MAX_PROBES = 40
CHUNK = 48

# --- observation of the build order (harness-side wrapper, no source hook) -------------------------------

_CALLS = []
_orig_build_global = _builders.StagedMap._build_global


def _recording_build_global(self, qname):
    if not qname.startswith('{http://www.w3.org/'):
        _CALLS.append('%s %s' % (type(self).__name__[:-3], qname))
    return _orig_build_global(self, qname)


if getattr(_builders.StagedMap._build_global, '__name__', '') != '_recording_build_global':
    _builders.StagedMap._build_global = _recording_build_global

LIB_ERRORS = (xmlschema.XMLSchemaException,)

# --- nothing may reach the network: published URLs are always relocated to fixture files ---------------------

NETWORK_ATTEMPTS = []


def _no_network(*args, **kwargs):
    NETWORK_ATTEMPTS.append(repr(args[-1:])[:80])
    raise OSError('C09: network access attempted')


socket.socket.connect = _no_network
socket.socket.connect_ex = _no_network
socket.create_connection = _no_network


# --- building ---------------------------------------------------------------------------------------------

def build_schema(version, path, **kw):
    """Returns (schema or None, outcome label, message).  Library refusals are an outcome, anything else a crash."""
    with warnings.catch_warnings():
        warnings.simplefilter('ignore')
        try:
            return VERSIONS[version](path, **kw), 'built', ''
        except LIB_ERRORS as e:
            return None, 'refused', '%s: %s' % (type(e).__name__, norm_text(getattr(e, 'message', None) or str(e))[:160])
        except CaseTimeout:
            raise
        except Exception as e:                                           # noqa  (RecursionError, KeyError, ...)
            return None, 'crash:' + type(e).__name__, norm_text(str(e))[:160]


_ADDR = re.compile(r' at 0x[0-9a-fA-F]+')
_TMPD = re.compile(r'(file://)?/var/tmp/c09fx_[A-Za-z0-9_]+(/r\d+)?')


def norm_text(s):
    return _TMPD.sub('<DIR>', _ADDR.sub('', s or ''))


# --- what is observed on a built schema -------------------------------------------------------------------

def _nm(c):
    return None if c is None else (getattr(c, 'name', None) or 'local:' + type(c).__name__)


def _flat(group, depth=0):
    """Model group as a string: model, occurs and element names, nested."""
    if depth > 6:
        return '...'
    parts = []
    for item in group:
        if hasattr(item, 'model') and hasattr(item, '__iter__'):
            parts.append(_flat(item, depth + 1))
        else:
            parts.append('%s{%s,%s}' % (getattr(item, 'name', None) or type(item).__name__, item.min_occurs, item.max_occurs))
    return '%s{%s,%s}(%s)' % (group.model, group.min_occurs, group.max_occurs, ' '.join(parts))


def _attrs(ag):
    out = []
    for k, a in ag.items():
        out.append('%s:%s:%s:%s' % (k, getattr(a, 'use', None), _nm(getattr(a, 'type', None)),
                                     getattr(a, 'fixed', None) or getattr(a, 'default', None)))
    return sorted(out)


def summarise(c):
    """Public-API summary of one global component (a string)."""
    cls = type(c).__name__
    try:
        if hasattr(c, 'substitution_group'):                         # element
            ids = sorted('%s:%s:%s' % (type(i).__name__.replace('Xsd11', 'Xsd'), i.name, _nm(getattr(i, 'refer', None)))
                         for i in c.identities)
            subs = sorted(e.name for e in c.iter_substitutes())
            return 'type=%s subst=%s abstract=%s nillable=%s fixed=%s default=%s ids=%s members=%s' % (
                _nm(c.type), c.substitution_group, c.abstract, c.nillable, c.fixed, c.default, ids, subs)
        if hasattr(c, 'content') and hasattr(c, 'attributes'):       # complex type
            content = c.content
            cs = _flat(content) if hasattr(content, 'model') else 'simple:' + str(_nm(content))
            return 'base=%s deriv=%s mixed=%s abstract=%s attrs=%s content=%s' % (
                _nm(c.base_type), c.derivation, c.mixed, c.abstract, _attrs(c.attributes), cs)
        if hasattr(c, 'model') and hasattr(c, '__iter__'):           # model group
            return _flat(c)
        if cls.endswith('AttributeGroup'):
            return 'attrs=%s' % _attrs(c)
        if cls.endswith('Attribute'):
            return 'type=%s fixed=%s default=%s' % (_nm(c.type), c.fixed, c.default)
        if cls.endswith('Notation'):
            return 'public=%s system=%s' % (c.public, c.system)
        # simple types
        extra = ''
        if hasattr(c, 'member_types'):
            extra = ' members=%s' % [_nm(m) for m in c.member_types]
        elif hasattr(c, 'item_type'):
            extra = ' item=%s' % _nm(c.item_type)
        facets = sorted(str(k).rsplit('}', 1)[-1] for k in getattr(c, 'facets', {}) or {})
        enum = getattr(c, 'enumeration', None)
        return 'base=%s prim=%s facets=%s enum=%s%s' % (_nm(c.base_type), _nm(getattr(c, 'primitive_type', None)),
                                                        facets, enum and sorted(map(str, enum)), extra)
    except CaseTimeout:
        raise
    except Exception as e:                                            # noqa - an unusable component is an observation
        return 'UNUSABLE %s: %s' % (type(e).__name__, norm_text(str(e))[:80])


def probe(schema, xml):
    """(verdict, sorted error triples, repr of decoded data) - or the exception that escaped."""
    with warnings.catch_warnings():
        warnings.simplefilter('ignore')
        try:
            data, errors = schema.decode(xml, validation='lax')
            errs = sorted((type(e).__name__, str(e.path), norm_text(str(e.reason))) for e in errors)
            valid = not errs
            return valid, errs, norm_text(repr(data))
        except CaseTimeout:
            raise
        except Exception as e:                                        # noqa
            return 'RAISED ' + type(e).__name__, [('', '', norm_text(str(e))[:120])], ''


def observe_globals(schema):
    globs, summ = [], {}
    for c in schema.maps.iter_globals():
        name = getattr(c, 'name', None) or ''
        if name.startswith('{http://www.w3.org/2001/XMLSchema}'):
            continue
        key = '%s %s' % (type(c).__name__, name)
        globs.append(key)
        summ[key] = summarise(c)
    return {'globals': sorted(globs), 'summary': summ}


def observe(schema, probes):
    obs = observe_globals(schema)
    obs['probes'] = {lab: probe(schema, x) for lab, x in probes}
    return obs


def first_difference(base, obs):
    """Returns None or (tag, explanation, number of differing items)."""
    if base['globals'] != obs['globals']:
        a, b = Counter(base['globals']), Counter(obs['globals'])
        return ('globals', 'global components differ: only original %s, only rewritten %s'
                % (sorted((a - b).elements())[:4], sorted((b - a).elements())[:4]), 1)
    diffs = [k for k in base['globals'] if base['summary'].get(k) != obs['summary'].get(k)]
    if diffs:
        k = diffs[0]
        return ('component:' + k, 'component %s differs: original [%s] rewritten [%s]'
                % (k, base['summary'][k][:300], obs['summary'][k][:300]), len(diffs))
    bad = []
    for lab, b in base['probes'].items():
        o = obs['probes'][lab]
        if b[0] != o[0]:
            bad.append((lab, 'verdict', 'verdict %s -> %s (%s)' % (b[0], o[0], (o[1] or b[1] or [('', '', '')])[0][2][:120])))
        elif b[1] != o[1]:
            only_b = sorted((Counter(b[1]) - Counter(o[1])).elements())[:2]
            only_o = sorted((Counter(o[1]) - Counter(b[1])).elements())[:2]
            bad.append((lab, 'errors', 'errors differ: only original %s, only rewritten %s' % (only_b, only_o)))
        elif b[2] != o[2]:
            bad.append((lab, 'data', 'decoded data %s -> %s' % (b[2][:150], o[2][:150])))
    if bad:
        lab, kind, text = bad[0]
        return 'probe:%s:%s' % (lab, kind), 'probe %s: %s' % (lab, text), len(bad)
    return None


# --- probe instances for corpus schemas (inputs only) ------------------------------------------------------

_SAMPLES = ('1', 'a', 'true', '2000-01-01', '2000-01-01T00:00:00', '00:00:00', 'P1D', '1.5', 'http://example.com/x',
            'aGVsbG8=', '0A', '2000', '2000-01', '--01', '--01-01', '---01', 'a:b', 'A1', 'en', '', '0', 'abc',
            'abcdefgh', '12345', 'a b', 'x1 x2')


def _sample(st):
    try:
        enum = getattr(st, 'enumeration', None)
        for v in list(enum or [])[:3]:
            if isinstance(v, str) and st.is_valid(v):
                return v
        for v in _SAMPLES:
            if st.is_valid(v):
                return v
    except Exception:                                                 # noqa
        pass
    return 'c09'


def _gen_element(xe, maps, depth):
    if depth > 7:
        return None
    if getattr(xe, 'abstract', False):
        for sub in sorted(xe.iter_substitutes(), key=lambda e: e.name):
            if not sub.abstract:
                xe = sub
                break
    if not isinstance(xe.name, str):
        return None
    el = ET.Element(xe.name)
    t = xe.type
    if hasattr(t, 'attributes'):
        for name, a in sorted(t.attributes.items(), key=lambda kv: str(kv[0])):
            if name is not None and getattr(a, 'use', None) == 'required':
                el.set(name, a.fixed if a.fixed is not None else _sample(a.type))
    if xe.fixed is not None:
        el.text = xe.fixed
    elif t.is_simple():
        el.text = _sample(t)
    elif t.has_simple_content():
        el.text = _sample(t.content)
    else:
        _gen_group(t.content, el, maps, depth + 1)
    return el


def _gen_group(group, parent, maps, depth):
    if depth > 8 or group.min_occurs == 0:
        return
    items = list(group)
    if group.model == 'choice' and items:
        items = sorted(items, key=lambda i: (i.min_occurs != 0,))[:1]
    for _ in range(min(group.min_occurs, 3)):
        for item in items:
            if hasattr(item, 'model') and hasattr(item, '__iter__'):
                _gen_group(item, parent, maps, depth + 1)
            elif hasattr(item, 'type'):
                for _n in range(min(item.min_occurs, 3)):
                    child = _gen_element(item, maps, depth + 1)
                    if child is not None:
                        parent.append(child)
            elif item.min_occurs:
                parent.append(ET.Element('c09any'))


def corpus_probes(schema, schema_path):
    """[(label, xml)] for a corpus schema, derived from the ORIGINAL arrangement."""
    out = []
    names = {}
    for name, xe in schema.maps.elements.items():
        if not name.startswith('{http://www.w3.org/'):
            names[name] = xe
    own = sorted(n for n in names if names[n].schema.maps is schema.maps)[:8]
    for f in sorted(glob.glob(os.path.join(os.path.dirname(schema_path), '*.xml')))[:12]:
        try:
            if os.path.getsize(f) > 40000:
                continue
            with open(f, 'rb') as fh:
                data = fh.read()
            root = ET.fromstring(data)
        except Exception:                                             # noqa
            continue
        if root.tag in names:
            try:
                out.append(('file:' + os.path.basename(f), data.decode('utf-8')))
            except UnicodeDecodeError:
                continue
        if len(out) >= 5:
            break
    for n in own:
        try:
            el = _gen_element(names[n], schema.maps, 0)
        except Exception:                                             # noqa
            el = None
        if el is not None:
            out.append(('min:' + n, ET.tostring(el, encoding='unicode')))
        bare = ET.Element(n)
        bare.text = 'c09'
        out.append(('text:' + n, ET.tostring(bare, encoding='unicode')))
    base = list(out)
    for lab, x in base:
        if lab.startswith('text:'):
            continue
        for ml, mx in G.mutations(x)[:4]:
            out.append(('%s/%s' % (lab, ml), mx))
    return out[:MAX_PROBES]


def generated_probes(rec):
    out = []
    for lab, x in rec['probes'].items():
        out.append((lab, x))
    for lab, x in rec['probes'].items():
        for ml, mx in G.mutations(x):
            out.append(('%s/%s' % (lab, ml), mx))
    return out


# --- the alphabet -----------------------------------------------------------------------------------------

_CORPUS_CACHE = {}


def corpus_files():
    return sorted(os.path.relpath(f, CORPUS_ROOT) for f in glob.glob(os.path.join(CORPUS_ROOT, '**', '*.xsd'), recursive=True))


def load_subject(sid):
    """sid 'G..' (generated) or 'corpus:<relative path>' -> dict(doc, aux, origin) or raises NotCuttable."""
    if not sid.startswith('corpus:'):
        rec = G.GENERATED[sid]
        return {'doc': rec['doc'], 'aux': rec['aux'], 'origin': None, 'rec': rec}
    if sid in _CORPUS_CACHE:
        return _CORPUS_CACHE[sid]
    path = os.path.join(CORPUS_ROOT, sid[7:])
    with open(path, 'rb') as f:
        data = f.read()
    if G.needs_network(data):
        raise G.NotCuttable('needs network')
    doc = G.absolutise(G.cut(data), os.path.dirname(path))
    _CORPUS_CACHE[sid] = {'doc': doc, 'aux': {}, 'origin': path, 'rec': None}
    return _CORPUS_CACHE[sid]


def tier_params(tier):
    if tier == 'quick':
        return {'perm_full': 5, 'split2_full': 6, 'split3_full': 5, 'corpus_split2_full': 8, 'corpus_versions': 'first'}
    return {'perm_full': 6, 'split2_full': 6, 'split3_full': 6, 'corpus_split2_full': 10, 'corpus_versions': 'all'}


def alt_assign(n, k=2):
    return tuple(i % k for i in range(n))


def rewrites(sid, doc, family, tier, seed):
    """The complete list of rewrite descriptors (JSON-able lists) of one family for one schema."""
    P = tier_params(tier)
    n = doc.n
    gen = not sid.startswith('corpus:')
    out = []
    if family == 'perm':
        if n < 2:
            return out
        for p in G.permutations_for(n, P['perm_full']):
            if list(p) != list(range(n)):
                out.append(['perm', list(p)])
        if tier == 'quick' and n == P['perm_full'] + 1 and gen:
            # seed-selected residue slice of the next bound (all permutations of n = 6), exhaustive inside the slice
            have = {tuple(r[1]) for r in out}
            for p in G.permutations_for(n, n):
                if p not in have and list(p) != list(range(n)) and in_slice('%s|%s' % (sid, p), seed, 16):
                    out.append(['perm', list(p)])
    elif family == 'split2':
        full = P['split2_full'] if gen else P['corpus_split2_full']
        if n >= 1:
            for a in G.assignments_for(n, 2, full):
                out.append(['split', 2, list(a), ['rel', 'rel'], [], None])
            # a declaration stays in the main document, the others go out (every choice of the one that stays)
            for i in range(n):
                out.append(['split', 2, list(alt_assign(n)), ['rel', 'rel'], [i], None])
    elif family == 'split3':
        if n >= 2:
            for a in G.assignments_for(n, 3, P['split3_full'] if gen or n <= 5 else 5):
                out.append(['split', 3, list(a), ['rel', 'rel', 'rel'], [], None])
    elif family == 'spell':
        if n >= 1:
            pairs = [(a, b) for a in G.SPELLINGS for b in G.SPELLINGS] if gen else [(a, a) for a in G.SPELLINGS]
            for a, b in pairs:
                if (a, b) != ('rel', 'rel'):
                    out.append(['split', 2, list(alt_assign(n)), [a, b], [], None])
    elif family == 'diamond':
        if n >= 1:
            pairs = [(a, b) for a in G.SPELLINGS for b in G.SPELLINGS] if gen else \
                [('rel', b) for b in G.SPELLINGS] + [(a, 'rel') for a in G.SPELLINGS[1:]]
            for a, b in pairs:
                out.append(['split', 2, list(alt_assign(n)), [a, 'rel'], [], [0, 1, b]])
            # the same file included twice by the main document itself, under two spellings
            for b in G.SPELLINGS[1:]:
                out.append(['split', 3, [0] * n, ['rel', 'rel', 'rel'], [], None, b])
    elif family == 'imports':
        nss = G.import_namespaces(doc)
        k = len(nss)
        if k >= 2 and len(set(nss)) == k:           # the statement speaks of imports of DIFFERENT namespaces
            orders = G.permutations_for(k, 3)
            for o in orders:
                for p in (list(range(n)), list(reversed(range(n)))):
                    if list(o) != list(range(k)) or p != list(range(n)):
                        out.append(['imports', list(o), p])
    elif family == 'mapped':
        # p1 reached by its file name and/or by a published URL that the uri_mapper option relocates to it
        if n >= 1:
            for mapper in MAPPERS:
                for entry in ENTRIES:
                    for sc in G.MAPPED_SCENARIOS:
                        out.append(['mapped', mapper, entry, sc])
    elif family == 'stored':
        for arr in ('orig', 'split'):
            if arr == 'split' and n < 1:
                continue
            for kind in ('rebuild', 'rebuild-twice', 'late-build', 'pickle', 'pickle-unbuilt', 'mapscopy', 'deepcopy',
                         'barecopy'):
                out.append(['stored', kind, arr])
    else:
        raise ValueError(family)
    return out


FAMILIES = ('perm', 'split2', 'split3', 'spell', 'diamond', 'imports', 'stored', 'mapped')
MAPPERS = ('dict', 'callable')
ENTRIES = ('file', 'published')          # how the main document itself is opened


def short(rw):
    if rw[0] == 'perm':
        return 'perm=' + ''.join('%x' % i if i < 16 else '(%d)' % i for i in rw[1])
    if rw[0] == 'imports':
        return 'imports=%s,perm=%s' % (''.join(map(str, rw[1])), 'id' if rw[2] == sorted(rw[2]) else 'rev')
    if rw[0] == 'stored':
        return 'stored=%s@%s' % (rw[1], rw[2])
    if rw[0] == 'mapped':
        return 'mapped=%s,%s-mapper,main-opened-by-%s' % (rw[3], rw[1], rw[2])
    _, k, assign, spellings, keep, diamond = rw[:6]
    s = 'split%d=%s' % (k, ''.join(map(str, assign)))
    if any(x != 'rel' for x in spellings):
        s += ',loc=' + '+'.join(spellings)
    if keep:
        s += ',main=' + ','.join(map(str, keep))
    if diamond:
        s += ',p%d-includes-p%d-as-%s' % (diamond[1] + 1, diamond[0] + 1, diamond[2])
    if len(rw) > 6:
        s += ',main-includes-p1-again-as-' + rw[6]
    return s


# --- materialising a rewrite and evaluating it --------------------------------------------------------------

class Fixture:
    def __init__(self):
        self.root = tempfile.mkdtemp(dir='/var/tmp', prefix='c09fx_')
        self.n = 0

    def fresh(self, aux):
        self.n += 1
        d = os.path.join(self.root, 'r%d' % self.n)
        os.makedirs(os.path.join(d, 'a'))
        for name, text in aux.items():
            with open(os.path.join(d, name), 'w', encoding='utf-8') as f:
                f.write(text)
        return d

    def write(self, d, files):
        for name, text in files.items():
            with open(os.path.join(d, name), 'w', encoding='utf-8') as f:
                f.write(text)
        return os.path.join(d, 'main.xsd')

    def drop(self, d):
        shutil.rmtree(d, ignore_errors=True)

    def close(self):
        shutil.rmtree(self.root, ignore_errors=True)


def files_for(doc, rw, d):
    if rw[0] == 'perm':
        return G.files_perm(doc, rw[1])
    if rw[0] == 'imports':
        return G.files_import_order(doc, rw[1], rw[2])
    if rw[0] == 'split':
        _, k, assign, spellings, keep, diamond = rw[:6]
        files = G.files_split(doc, assign, k, d, spellings, tuple(keep), tuple(diamond) if diamond else None)
        if len(rw) > 6:
            main = files['main.xsd']
            first = G.include(G.spell('rel', G.PART_NAMES[0], d), doc.xsp)
            files['main.xsd'] = main.replace(first, first + G.include(G.spell(rw[6], G.PART_NAMES[0], d), doc.xsp), 1)
        return files
    raise ValueError(rw)


class Subject:
    """One schema in one XSD version inside one fixture: baseline observation + evaluation of rewrites."""

    def __init__(self, sid, version, fx):
        self.sid, self.version, self.fx = sid, version, fx
        sub = load_subject(sid)
        self.doc, self.aux, self.origin, self.rec = sub['doc'], sub['aux'], sub['origin'], sub['rec']
        self.orders = set()
        self.plain = {}
        self.calls = 0
        self.built = 0
        d = fx.fresh(self.aux)
        try:
            path = fx.write(d, G.files_perm(self.doc, range(self.doc.n)))
            schema, self.outcome, self.message = self._build(path)
            self.base_order = self.last_order
            if schema is not None:
                if self.rec is not None:
                    self.probes = generated_probes(self.rec)
                else:
                    self.probes = corpus_probes(schema, self.origin)
                self.base = observe(schema, self.probes)
            else:
                self.probes, self.base = [], None
        finally:
            fx.drop(d)

    def _build(self, path, **kw):
        del _CALLS[:]
        res = build_schema(self.version, path, **kw)
        self._note_order()
        self.built += 1
        return res

    def _note_order(self):
        self.last_order = tuple(_CALLS)
        self.calls += len(_CALLS)
        if _CALLS:
            self.orders.add(hashlib.blake2b('\n'.join(_CALLS).encode(), digest_size=8).hexdigest())
        del _CALLS[:]

    def polarity(self):
        v = sum(1 for r in self.base['probes'].values() if r[0] is True)
        i = sum(1 for r in self.base['probes'].values() if r[0] is False)
        return v, i

    def evaluate(self, rw):
        """Returns (label, disc) where disc is None or (tag, what)."""
        d = self.fx.fresh(self.aux)
        try:
            if rw[0] == 'stored':
                return self._stored(rw, d)
            if rw[0] == 'mapped':
                return self._mapped(rw, d)
            path = self.fx.write(d, files_for(self.doc, rw, d))
            schema, outcome, message = self._build(path)
            return self._judge(schema, outcome, message)
        finally:
            self.fx.drop(d)

    def _mapped(self, rw, d):
        _, mapper, entry, scenario = rw
        path = self.fx.write(d, G.files_mapped(self.doc, scenario, d))
        table = G.mapping_for(d)
        if mapper == 'dict':
            uri_mapper = dict(table)
        else:
            def uri_mapper(uri):
                return table.get(uri, uri)
        source = path if entry == 'file' else G.published('main.xsd')
        del NETWORK_ATTEMPTS[:]
        schema, outcome, message = self._build(source, uri_mapper=uri_mapper)
        if NETWORK_ATTEMPTS:
            return 'network-attempt', ('network', 'a published URL covered by the uri_mapper was fetched from the network: %s'
                                       % NETWORK_ATTEMPTS[:2])
        # Judged against the SAME include structure written with file names only, so that the family isolates the
        # effect of the relocated spelling; an include-order effect of the structure itself (judged by the split
        # families) is counted, not reported a second time.
        if scenario not in self.plain:
            d2 = self.fx.fresh(self.aux)
            try:
                s2, o2, m2 = self._build(self.fx.write(d2, G.files_mapped(self.doc, scenario, d2, plain=True)))
                obs2 = observe(s2, self.probes) if s2 is not None else None
                same = o2 == self.outcome and (obs2 is None or first_difference(self.base, obs2) is None)
                self.plain[scenario] = (o2, m2, obs2, same)
            finally:
                self.fx.drop(d2)
        o2, m2, obs2, same = self.plain[scenario]
        if outcome != o2:
            return 'outcome-differs', ('outcome:%s->%s' % (o2, outcome),
                                       'the same includes written with file names only: %s%s; with the published URL '
                                       'relocated by uri_mapper: %s%s' % (o2, m2 and ' (%s)' % m2, outcome,
                                                                          message and ' (%s)' % message))
        label, disc = self._judge(schema, outcome, message, base=obs2) if schema is not None else ('both-' + outcome, None)
        if disc is None and not same:
            label = 'same-as-file-name-spelling (include structure itself is order sensitive: split families)'
        return label, disc

    def _judge(self, schema, outcome, message, base=None):
        if outcome != self.outcome:
            return 'outcome-differs', ('outcome:%s->%s' % (self.outcome, outcome),
                                       'original arrangement %s%s, rewritten arrangement %s%s'
                                       % (self.outcome, self.message and ' (%s)' % self.message, outcome,
                                          message and ' (%s)' % message))
        if schema is None:
            return 'both-' + outcome.split(':')[0], None
        diff = first_difference(base or self.base, observe(schema, self.probes))
        if diff is None:
            return 'same', None
        tag, text, count = diff
        return 'differs:' + tag.split(':')[0], (tag, text + (' [+%d more]' % (count - 1) if count > 1 else ''))

    def _stored(self, rw, d):
        _, kind, arr = rw
        if self.outcome != 'built':
            return 'stored-skipped-original-not-built', None
        if arr == 'orig':
            files = G.files_perm(self.doc, range(self.doc.n))
        else:
            files = G.files_split(self.doc, alt_assign(self.doc.n), 2, d)
        path = self.fx.write(d, files)
        V = VERSIONS[self.version]
        local = None
        try:
            with warnings.catch_warnings():
                warnings.simplefilter('ignore')
                del _CALLS[:]
                s = V(path)
                local = observe(s, self.probes)          # the stored form is taken from a schema that has been used
                if kind not in ('late-build', 'pickle-unbuilt'):
                    # validation may have loaded further namespaces on demand: a form derived from the used
                    # object is compared with the globals of the used object, a fresh form with the fresh globals
                    local.update(observe_globals(s))
                self._note_order()
                if kind in ('late-build', 'pickle-unbuilt'):
                    s = V(path, build=False)
                    if kind == 'pickle-unbuilt':
                        s = pickle.loads(pickle.dumps(s))
                    s.build()
                    target = s
                elif kind == 'rebuild':
                    s.maps.clear()
                    s.build()
                    target = s
                elif kind == 'rebuild-twice':
                    for _ in range(2):
                        s.maps.clear()
                        s.build()
                        s.build()
                    target = s
                elif kind == 'pickle':
                    target = pickle.loads(pickle.dumps(s))
                elif kind == 'mapscopy':
                    m = copy.copy(s.maps)
                    m.build()
                    target = m.validator
                elif kind == 'deepcopy':
                    target = copy.deepcopy(s)
                elif kind == 'barecopy':
                    target = s.copy()
                else:
                    raise ValueError(kind)
                if kind == 'mapscopy':
                    # the copy re-registers the schemas in the iteration order of a set hashed by id():
                    # its build order is not reproducible, so it is counted as transitions but not as a state
                    self.calls += len(_CALLS)
                    del _CALLS[:]
                else:
                    self._note_order()
                self.built += 1
        except LIB_ERRORS as e:
            label, disc = 'stored-refused', ('outcome:built->refused', 'stored form %s of a schema that builds raises %s: %s'
                                             % (kind, type(e).__name__, norm_text(str(e))[:160]))
        except CaseTimeout:
            raise
        except Exception as e:                                            # noqa
            label, disc = 'stored-crash', ('outcome:built->crash:' + type(e).__name__,
                                           'stored form %s raises %s: %s' % (kind, type(e).__name__, norm_text(str(e))[:160]))
        else:
            # judged against the fresh build of the SAME arrangement (the arrangement itself is judged by its own family)
            label, disc = self._judge(target, 'built', '', base=local)
        if kind == 'mapscopy' and arr == 'split' and local is not None:      # always, so that labels are reproducible
            # copy.copy(maps) re-registers the included schemas in the iteration order of a set hashed by id(),
            # i.e. it is an unspecified permutation of the include files.  If the schema is sensitive to that
            # order (which the split families report on their own) the copy is not reproducible: count, do not judge.
            d2 = self.fx.fresh(self.aux)
            try:
                swapped = tuple(1 - a for a in alt_assign(self.doc.n))
                s2, _o, _m = build_schema(self.version, self.fx.write(d2, G.files_split(self.doc, swapped, 2, d2)))
                del _CALLS[:]                            # auxiliary build: not counted
                if s2 is None or first_difference(local, observe(s2, self.probes)) is not None:
                    return 'mapscopy-of-include-order-sensitive-schema-not-judged', None
            finally:
                self.fx.drop(d2)
        if kind == 'barecopy':
            return 'explored-barecopy:' + (disc[0].split(':')[0] if disc else 'same'), None
        return label, disc


# --- sharding ---------------------------------------------------------------------------------------------

def subjects(tier):
    out = [(sid, v) for sid in sorted(G.GENERATED) for v in G.GENERATED[sid]['versions']]
    return out, ['corpus:' + f for f in corpus_files()]


def shards(tier, seed):
    out = []
    gen, corpus = subjects(tier)
    for sid, version in gen:
        doc = G.GENERATED[sid]['doc']
        for fam in FAMILIES:
            n = len(rewrites(sid, doc, fam, tier, seed))
            for lo in range(0, n, CHUNK):
                out.append((tier, seed, sid, version, fam, lo, min(lo + CHUNK, n)))
    # corpus: shards per document, family and chunk; each decides buildability itself (cheap).  Large documents
    # go first so that the small uniform shards of the generated schemas fill the tail of the schedule.
    cshards = []
    for sid in corpus:
        try:
            doc = load_subject(sid)['doc']
        except G.NotCuttable:
            cshards.append((0, (tier, seed, sid, None, FAMILIES[0], 0, None)))
            continue
        weight = sum(len(t) for _, _, t in doc.globals) + 20000 * sum(1 for t, _ in doc.prolog if t == 'import')
        for fam in FAMILIES:
            n = len(rewrites(sid, doc, fam, tier, seed))
            for lo in range(0, max(n, 1), CHUNK):
                if n or fam == FAMILIES[0]:
                    cshards.append((weight, (tier, seed, sid, None, fam, lo, min(lo + CHUNK, n))))
    cshards.sort(key=lambda ws: -ws[0])
    return [s for _, s in cshards] + out


def run_shard(shard, acc):
    tier, seed, sid, version, fam, lo, hi = shard
    fx = Fixture()
    try:
        if version is not None:
            _run_subject(acc, fx, tier, seed, sid, version, fam, lo, hi)
            return
        first = fam == FAMILIES[0] and lo == 0
        try:
            load_subject(sid)
        except G.NotCuttable as e:
            if first:
                acc.cnt('corpus_skipped: %s' % str(e).split(':')[0])
            return
        done = 0
        for v in ('1.0', '1.1'):
            if done and tier_params(tier)['corpus_versions'] == 'first':
                break
            done += _run_subject(acc, fx, tier, seed, sid, v, fam, lo, hi)
        if first:
            acc.cnt('corpus_schemas_explored' if done else 'corpus_skipped: does not build in the fixture directory')
    finally:
        fx.close()


def _run_subject(acc, fx, tier, seed, sid, version, fam, lo, hi):
    with acc.guard(120):
        subj = Subject(sid, version, fx)
    gen = subj.rec is not None
    first = lo == 0 and fam == FAMILIES[0]
    if gen:
        want = subj.rec['expect'].get(version, 'built')
        if subj.outcome != want and first:
            acc.disc('C09|%s|%s|original|outcome:%s' % (sid, version, subj.outcome),
                     'generated schema (%s) is %s by construction but the original arrangement is %s (%s)'
                     % (subj.rec['kinds'], 'valid' if want == 'built' else 'invalid', subj.outcome, subj.message),
                     {'schema': sid, 'version': version, 'rewrite': None})
    elif subj.outcome != 'built':
        return 0
    if subj.base is not None and first:
        v, i = subj.polarity()
        acc.cnt('probes_valid_on_original', v)
        acc.cnt('probes_invalid_on_original', i)
        acc.cnt('probes_other_on_original', len(subj.probes) - v - i)
    for rw in rewrites(sid, subj.doc, fam, tier, seed)[lo:hi]:
        acc.ev()
        try:
            with acc.guard(60):
                label, disc = subj.evaluate(rw)
        except Exception as e:                                        # noqa  (CaseTimeout included)
            label, disc = 'hang-or-harness', ('raised:' + type(e).__name__, 'evaluating the rewrite raised %r' % e)
        acc.out('%s:%s' % (fam, label))
        if label.startswith('explored-barecopy'):
            acc.cnt(label)
        if subj.base is not None:
            acc.cnt('probe_comparisons', len(subj.probes))
        if disc is not None:
            key = 'C09|%s|%s|%s|%s' % (sid, version, short(rw), disc[0])
            acc.disc(key, disc[1], {'schema': sid, 'version': version, 'rewrite': rw})
        elif acc.evaluations % 97 == 1:
            acc.sample({'schema': sid, 'version': version, 'rewrite': short(rw), 'globals': subj.doc.names()[:12],
                        'result': label, 'build_order': list(subj.last_order)[:12]})
    for o in subj.orders:
        acc.nt('%s|%s|%s' % (sid, version, o))
    acc.st(states=len(subj.orders), transitions=subj.calls, traces=subj.built)
    return 1


def finish(tier, seed, acc):
    # states = distinct (schema, version, build order) over the whole run (shards of one schema overlap)
    acc.states = len(acc.nontrivial)


def evidence_extra(tier, seed, acc):
    c = acc.counters
    return {
        'probe_polarity_on_original': {'valid': c.get('probes_valid_on_original', 0),
                                       'invalid': c.get('probes_invalid_on_original', 0),
                                       'raised': c.get('probes_other_on_original', 0)},
        'barecopy_exploration_not_judged': {k.split(':', 1)[1]: v for k, v in sorted(c.items())
                                            if k.startswith('explored-barecopy:')},
        'states_definition': 'distinct (schema, version, sequence of StagedMap._build_global calls outside the W3C '
                             'namespaces); transitions = those calls; traces = arrangements built',
    }


def replay(case):
    fx = Fixture()
    try:
        subj = Subject(case['schema'], case['version'], fx)
        if case['rewrite'] is None:
            want = (subj.rec['expect'].get(case['version'], 'built') if subj.rec else 'built')
            if subj.outcome != want:
                return [('C09|%s|%s|original|outcome:%s' % (case['schema'], case['version'], subj.outcome),
                         'original arrangement is %s (%s), expected %s' % (subj.outcome, subj.message, want))]
            return []
        label, disc = subj.evaluate(case['rewrite'])
        if disc is None:
            return []
        return [('C09|%s|%s|%s|%s' % (case['schema'], case['version'], short(case['rewrite']), disc[0]), disc[1])]
    finally:
        fx.close()


def bounds(tier, seed):
    P = tier_params(tier)
    gen, corpus = subjects(tier)
    return {'size': '12 generated schemas (4-6 globals, XSD 1.0 and 1.1) + %d corpus documents (those that build)' % len(corpus),
            'deviations': 'one rewrite per case, every rewrite of every family',
            'permutations': 'all for n <= %d, all transpositions + reversal above%s' % (
                P['perm_full'], ' + seed slice 1/16 of all permutations of n = 6' if tier == 'quick' else ''),
            'split2': 'all 2^n for n <= %d (generated) / %d (corpus), linear family above; + each single global kept in main'
                      % (P['split2_full'], P['corpus_split2_full']),
            'split3': 'all 3^n for n <= %d (corpus: n <= 5), linear family above' % P['split3_full'],
            'spellings': list(G.SPELLINGS), 'spelling_pairs': '8x8 generated, diagonal corpus',
            'diamond': 'p2 includes p1 under spelling b while main includes p1 under spelling a: 8x8 generated; main '
                       'including p1 twice under two spellings: 7',
            'imports': 'all orders of <= 3 imports x {identity, reversal} of the globals',
            'mapped': {'scenarios': sorted(G.MAPPED_SCENARIOS), 'mappers': list(MAPPERS), 'main_opened_by': list(ENTRIES),
                       'network': 'socket guard installed; an attempt is a discrepancy'},
            'stored': ['rebuild', 'rebuild-twice', 'late-build', 'pickle', 'pickle-unbuilt', 'mapscopy', 'deepcopy',
                       'barecopy (explored only)'],
            'corpus_versions': P['corpus_versions'], 'max_probes_per_corpus_schema': MAX_PROBES}
