"""C01 - a child sequence is valid exactly when it is a word of the declared content model.

Every deterministic content-model tree up to the bound x every child sequence up to a length bound is
validated by the real processors; the oracle is the regular language of mc/ref/regex.py.
"""
import os
import hashlib

from xmlschema import XMLSchema10, XMLSchema11
from xmlschema.validators.exceptions import XMLSchemaParseError, XMLSchemaModelError

from mc.core.runner import in_slice
from mc.gen import models as M
from mc.ref import glushkov, regex
from mc.checks.c15 import model_to_json, model_from_json

ID = 'C01'
TITLE = 'Child sequences are valid exactly when they are in the content-model language'
RULE = ('all content-model trees M(N nodes, occurrence set, D non-default occurrences) canonical up to leaf renaming that are '
        'deterministic (Glushkov reference, 1.0-style UPA) and accepted by the library, plus leaf variants (global refs, '
        'substitution heads, wildcards), all-groups and XSD 1.1 open content; for each model every child sequence over its own '
        'symbols plus an undeclared name up to a length bound; distinct = distinct (version, model); non-trivial = the model '
        'language is neither empty nor everything within the bound (both verdicts expected for some word)')
ASSUMPTIONS = [
    'children are xs:string leaves with valid content, so the child sequence is the only source of invalidity',
    'the domain is models that the Glushkov reference finds deterministic under 1.0-style UPA and that the library accepts; others are skipped and counted',
    'open content: a word is judged only where the existential and the model-first reading agree (others counted as contested)',
    'XSD 1.1 models where an element particle competes with a wildcard are judged only on the words for which the existential reading and the element-wins reading agree',
    'word length bound per model: all words up to the largest length with at most 500 words (max 4); thorough adds, for plain element-leaf models, the lengths up to 1500 words (max 6)',
]
VERSIONS = {'1.0': XMLSchema10, '1.1': XMLSchema11}
PACK = 40
SLICES = 16


def spaces(tier):
    """(name, N, occs, maxdev, variant kind, sliced).  Every quick space is contained in a thorough space."""
    small = [('M2-O8', 2, M.O8, None, None, False), ('M3-O8', 3, M.O8, None, None, False),
             ('M3-O5-D1-leaf', 3, M.O5, 1, 'leaf', False), ('M3-O5-D1-open', 3, M.O5, 1, 'open', False),
             ('ALL', 0, None, None, 'all', False), ('M3-O5-D1-gref', 3, M.O5, 1, 'gref', False)]
    if tier == 'quick':
        return small + [('M4-O5-D2', 4, M.O5, 2, None, False),
                        ('M4-O5', 4, M.O5, None, None, True), ('M5-O8-D1', 5, M.O8, 1, None, True),
                        ('M4-O5-D1-leaf', 4, M.O5, 1, 'leaf', True), ('M4-O5-D1-open', 4, M.O5, 1, 'open', True),
                        ('M4-O5-D1-gref', 4, M.O5, 1, 'gref', True)]
    return small + [('M4-O5', 4, M.O5, None, None, False), ('M5-O8-D1', 5, M.O8, 1, None, False),
                    ('M4-O5-D1-leaf', 4, M.O5, 1, 'leaf', False), ('M4-O5-D1-open', 4, M.O5, 1, 'open', False),
                    ('M4-O5-D1-gref', 4, M.O5, 1, 'gref', False)]


def shards(tier, seed):
    out = []
    only = os.environ.get('C01_ONLY')       # developer aid: restrict a run to one space (never used by MANIFEST commands)
    for name, n, occs, maxdev, var, sliced in spaces(tier):
        if only and name != only:
            continue
        if var == 'all':
            for version in ('1.0', '1.1'):
                for nk in (1, 2, 3):
                    out.append((tier, seed, name, nk, None, version))
            continue
        for si, kinds in M.shard_keys(n):
            for version in ('1.0', '1.1'):
                if var == 'open' and version == '1.0':
                    continue
                out.append((tier, seed, name, si, kinds, version))
    return out


LEAF_VARIANTS = (
    ('ref', lambda o: M.el_ref(o[4], o[1], o[2])),
    ('H', lambda o: M.head(o[1], o[2])),
    ('Habs', lambda o: M.head(o[1], o[2], abstract=True)),
    ('Hdeep', lambda o: M.head(o[1], o[2], deep=True)),
    ('~any', lambda o: M.wild('~any', o[1], o[2])),
    ('~other', lambda o: M.wild('~other', o[1], o[2])),
    ('~tns', lambda o: M.wild('~tns', o[1], o[2])),
    ('~local', lambda o: M.wild('~local', o[1], o[2])),
)
OPEN_VARIANTS = [(mode, w) for mode in ('interleave', 'suffix') for w in ('~any', '~other', '~tns')]


def all_models(version, nk):
    """Top-level all groups with nk distinct leaf children."""
    from itertools import product
    occs = ((1, 1), (0, 1)) if version == '1.0' else M.O8
    kidsets = [tuple(M.el(c) for c in 'abc'[:nk])]
    if version == '1.1' and nk >= 2:
        for w in ('~other', '~local'):
            kidsets.append(tuple(M.el(c) for c in 'abc'[:nk - 1]) + (M.wild(w),))
    for kids in kidsets:
        for oa in product(occs, repeat=nk):
            for gocc in ((1, 1), (0, 1)):
                yield ('all', gocc[0], gocc[1], tuple((k[0], o[0], o[1], k[3], k[4]) for k, o in zip(kids, oa)))


def gref_decl(name, model):
    """The model with every non-root group replaced by a reference to a global named group."""
    defs = []

    def rec(n, top):
        if M.is_leaf(n):
            return M.render(n, M.leaf_xsd)
        tag = {'seq': 'sequence', 'cho': 'choice', 'all': 'all'}[n[0]]
        inner = ''.join(rec(c, False) for c in n[3])
        if top:
            return '<xs:%s%s>%s</xs:%s>' % (tag, M.occ_attrs(n[1], n[2]), inner, tag)
        gname = '%s_g%d' % (name, len(defs))
        defs.append('<xs:group name="%s"><xs:%s>%s</xs:%s></xs:group>\n' % (gname, tag, inner, tag))
        return '<xs:group ref="t:%s"%s/>' % (gname, M.occ_attrs(n[1], n[2]))
    body = rec(model, True)
    return ''.join(defs) + '<xs:element name="%s"><xs:complexType>%s</xs:complexType></xs:element>\n' % (name, body)


def has_inner_group(model):
    return any(not M.is_leaf(c) for c in model[3])


def items_of(model, var, version):
    """Yields (keyname, model, decl(name) -> xsd text, open spec or None)."""
    if var is None or var == 'all':
        yield M.show(model), model, (lambda name, m=model: M.element_decl(name, m)), None
    elif var == 'leaf':
        for i in range(len(M.leaves(model))):
            for vname, fn in LEAF_VARIANTS:
                m2 = M.replace_leaf(model, i, fn)
                yield M.show(m2), m2, (lambda name, m=m2: M.element_decl(name, m)), None
    elif var == 'gref':
        if has_inner_group(model):
            yield 'G:' + M.show(model), model, (lambda name, m=model: gref_decl(name, m)), None
    elif var == 'open':
        for mode, w in OPEN_VARIANTS:
            oc = ('<xs:openContent mode="%s"><xs:any namespace="%s" processContents="lax"/></xs:openContent>'
                  % (mode, M.WILD[w][0]))
            yield ('O%s[%s]:' % (mode[0], w) + M.show(model), model,
                   (lambda name, m=model, oc=oc: M.element_decl(name, m, oc)), (mode, w))


def sigma_of(model, opn=None):
    syms = M.model_symbols(model)
    has_wild = any(lf[0] == 'any' for lf in M.leaves(model))
    if opn is not None:
        syms = syms | M.WILD[opn[1]][1]
        has_wild = True
    el_syms = set().union(*[lf[3] for lf in M.leaves(model) if lf[0] == 'el'])
    declared = sorted(s for s in syms if s in 'abchmn' or (s in 'yz' and s in el_syms))
    extra = ['x']
    if has_wild:
        extra = [s for s in 'xol' if s in syms] or ['x']
        if 'x' not in extra:
            extra.append('x')
    return declared + extra


def max_len(nsym, budget, cap):
    total, ln = 1, 0
    while ln < cap:
        nxt = total + nsym ** (ln + 1)
        if nxt > budget:
            break
        total, ln = nxt, ln + 1
    return max(ln, 2)


def plain_model(model):
    return all(lf[0] == 'el' and lf[4] in ('a', 'b', 'c') for lf in M.leaves(model))


def length_classes(model, tier, opn=None):
    """[(class name, lengths)]: 'base' is explored by both tiers, 'long' only by thorough."""
    k = len(sigma_of(model, opn))
    base = max_len(k, 500, 4)
    out = [('base', range(0, base + 1))]
    if tier == 'thorough' and opn is None and plain_model(model):
        top = max_len(k, 1500, 6)
        if top > base:
            out.append(('long', range(base + 1, top + 1)))
    return out


def words_of(sigma, lengths):
    from itertools import product
    for ln in lengths:
        for w in product(sigma, repeat=ln):
            yield w


def observe(schema, root, word):
    """(valid, has_parent_error) for one child sequence."""
    doc = M.instance(root, word)
    errs = list(schema.iter_errors(doc))
    if not errs:
        return True, True
    tag = '{urn:t}' + root
    return False, any(e.elem is not None and e.elem.tag == tag for e in errs)


def summarise(items):
    items = sorted(items, key=lambda s: (len(s), s))
    if len(items) <= 10:
        return ','.join(items)
    h = hashlib.blake2b(','.join(items).encode(), digest_size=5).hexdigest()
    return ','.join(items[:6]) + ',..%d#%s' % (len(items), h)


def check_model(schema, root, version, keyname, model, opn, tier, acc=None):
    """Validates every word of the model's length classes.  Returns list of (key, what)."""
    sigma = sigma_of(model, opn)
    d = regex.dfa_of(model, sigma)
    # XSD 1.1 models in which an element particle competes with a wildcard: judged only on the words for which the
    # existential reading and the 'element wins' reading agree
    dprio = regex.dfa_of(model, sigma, prefer_elements=True) if (opn is None and glushkov.conflicts(model, '1.0')[0]) else None
    ms = keyname
    discs = []
    nwords = 0
    polar = set()
    admitted = M.WILD[opn[1]][1] if opn else None
    for cname, lengths in length_classes(model, tier, opn):
        wrong, noparent = [], []
        for w in words_of(sigma, lengths):
            if opn is None:
                exp = d.accepts(w)
                if dprio is not None and dprio.accepts(w) != exp:
                    if acc:
                        acc.cnt('contested_element_vs_wildcard_words')
                    continue
            else:
                fn = regex.open_interleave_verdicts if opn[0] == 'interleave' else regex.open_suffix_verdicts
                e1, e2 = fn(d, admitted, w)
                if e1 != e2:
                    if acc:
                        acc.cnt('contested_open_content_words')
                    continue
                exp = e1
            got, parent = observe(schema, root, w)
            nwords += 1
            polar.add(exp)
            ws = ''.join(w) or '-'
            if got != exp:
                wrong.append(ws + ('+' if got else '-'))
            elif not got and not parent:
                noparent.append(ws)
        if wrong:
            discs.append(('C01 %s %s %s:%s' % (version, ms, cname, summarise(wrong)),
                          'model %s, child sequences judged wrongly (+ accepted though not in the language, - rejected though in '
                          'the language): %s' % (ms, ','.join(sorted(wrong, key=lambda s: (len(s), s))[:12]))))
        if noparent:
            discs.append(('C01 %s %s %s-noparent:%s' % (version, ms, cname, summarise(noparent)),
                          'model %s, rejected child sequences without an error attached to the parent element: %s'
                          % (ms, ','.join(noparent[:12]))))
    if acc is not None:
        acc.ev(nwords)
        acc.st(states=d.nstates, transitions=len(d.trans), traces=nwords)
        if len(polar) == 2:
            acc.nt(version + ms)
    return discs


def build_packed(version, batch):
    """batch: list of items (keyname, model, decl, opn)."""
    text = M.SCHEMA_HEAD + ''.join(it[2]('e%d' % i) for i, it in enumerate(batch)) + M.SCHEMA_TAIL
    schema = VERSIONS[version](text, validation='lax')
    ok = []
    for i in range(len(batch)):
        xe = schema.elements['e%d' % i]
        comps = list(xe.iter_components())
        for g in schema.groups.values():
            if g.name and g.local_name.startswith('e%d_g' % i):
                comps.extend(g.iter_components())
        ok.append(not any(comp.errors for comp in comps))
    return schema, ok


def in_domain(model, opn, version='1.0'):
    """Deterministic under 1.0-style UPA (an element/wildcard overlap counts as a conflict); for the XSD 1.1
    processor also the models whose only conflicts are element-vs-wildcard (legal in 1.1)."""
    if glushkov.conflicts(model, '1.0')[0]:
        if version != '1.1' or opn is not None or glushkov.conflicts(model, '1.1')[0]:
            return False
        return True
    if opn is not None:
        # the open content wildcard must not compete with the model's own wildcards
        if any(lf[0] == 'any' for lf in M.leaves(model)):
            return False
    return True


def run_shard(shard, acc):
    tier, seed, name, si, kinds, version = shard
    spec = [s for s in spaces(tier) if s[0] == name][0]
    _, n, occs, maxdev, var, sliced = spec
    batch, seen = [], set()

    def flush():
        if not batch:
            return
        with acc.guard(300):
            schema, ok = build_packed(version, batch)
        for i, (keyname, model, decl, opn) in enumerate(batch):
            if not ok[i]:
                acc.cnt('skipped_refused_by_library')
                acc.out('refused')
                continue
            with acc.guard(120):
                discs = check_model(schema, 'e%d' % i, version, keyname, model, opn, tier, acc)
            acc.out(('%s:' % (var or 'plain')) + ('disc' if discs else 'agree'))
            for key, what in discs:
                acc.disc(key, what, {'version': version, 'model': model_to_json(model), 'tier': tier, 'var': var,
                                     'keyname': keyname, 'open': list(opn) if opn else None})
            if not discs and i == 5 and len(acc.samples) < 2:
                sg = sigma_of(model, opn)
                d = regex.dfa_of(model, sg)
                acc.sample({'version': version, 'model': keyname, 'alphabet': sg, 'dfa_states': d.nstates,
                            'words_of_the_model_language': [''.join(w) for w in words_of(sg, range(0, 4)) if d.accepts(w)][:10]})
        del batch[:]

    if var == 'all':
        models = all_models(version, si)
    else:
        shape = list(M.shapes(n))[si]
        models = M.models_of_shape(shape, occs, maxdev, kinds)
    for base in models:
        for item in items_of(base, var, version):
            keyname, model = item[0], item[1]
            if keyname in seen:
                continue
            seen.add(keyname)
            if sliced and not in_slice(version + keyname, seed, SLICES):
                continue
            if not in_domain(model, item[3], version):
                acc.cnt('skipped_nondeterministic')
                continue
            batch.append(item)
            if len(batch) >= PACK:
                flush()
    flush()


def replay(case):
    model = model_from_json(case['model'])
    version = case['version']
    var = case.get('var')
    opn = tuple(case['open']) if case.get('open') else None
    item = None
    if var in (None, 'all', 'leaf'):
        item = (case['keyname'], model, (lambda name: M.element_decl(name, model)), None)
    else:
        for it in items_of(model, var, version):
            if it[0] == case['keyname']:
                item = it
    if item is None:
        return []
    try:
        schema, ok = build_packed(version, [item])
    except (XMLSchemaParseError, XMLSchemaModelError):
        return []
    if not ok[0]:
        return []
    return check_model(schema, 'e0', version, item[0], item[1], item[3], case.get('tier', 'thorough'))


def bounds(tier, seed):
    return {'spaces': [{'name': s[0], 'nodes': s[1], 'occurrences': len(s[2]) if s[2] else None, 'max_nondefault': s[3], 'variant': s[4],
                        'seed_slice_1_of_%d' % SLICES: s[5]} for s in spaces(tier)],
            'versions': ['1.0', '1.1'], 'word_length': 'per model, see assumptions'}
