"""C17 - names survive prefix mapping: decoded names resolve back to the same QNames.

Part (a): the NamespaceMapper as a state machine.  Explicit-state exploration of every pre-order
walk of every tree (depth <= 3/4, fan-out <= 2) in which each entered node carries one of 9 xmlns
choices, driving set_xmlns_context() exactly as the decoders do (XsdGroup.raw_decode calls it when a
child is entered, XsdElement.raw_decode calls it again when the element is left), for each
xmlns_processing mode, 3 user maps and 9 root choices.  States are hashed as
(walk position, namespaces, reverse map, context stack).

Part (m): the mapper as a mutable mapping: m[prefix] = uri / del m[prefix] over 3 prefixes x 2 URIs explored
to a fixpoint from 3 initial maps against a plain dict, with the same round-trip invariant.

Part (b): end to end.  Every document of depth <= 3, fan-out <= 2 whose nodes redeclare / shadow /
unset prefixes with the same 9 choices and take their names from the in-scope namespaces, bounded
by the number of deviations (declaring nodes + prefixed element names), x xmlns_processing x
converter x user namespaces=.  The keys of the decoded data are resolved with the xmlns entries the
data reports (reference: mc/ref/nsstack.py, a list of dicts) and compared with the expanded names
of the XML nodes; the re-encoded tree must carry the same expanded names.
"""
import itertools
from collections import deque

import xmlschema
from xmlschema import XMLSchema10, XMLResource
from xmlschema.namespaces import NamespaceMapper
from xmlschema.dataobjects import DataElementConverter

from mc.core import runner
from mc.ref.nsstack import NsStack, expanded, split

ID = 'C17'
TITLE = 'Names survive prefix mapping: decoded names resolve back to the same QNames'
RULE = ('(a) every reachable (walk position, mapper state) pair of the pre-order walks over trees of depth <= D, fan-out <= 2 '
        'with 9 xmlns choices per entered node, per xmlns_processing mode x user map x root choice; after every event '
        'namespaces is compared with the list-of-dicts scope and unmap_qname(map_qname(n)) with n; (m) every reachable '
        '(namespaces, reverse map) state under item assignment / deletion; '
        '(b) every document (13 shapes, 9 xmlns choices per node, element namespace chosen among the in-scope ones, '
        'attributes in every in-scope prefix or none) with deviations <= N x 4 modes x 4 converters x 3 user maps, against a '
        'schema declaring every name (and, for the documents of <= 3 elements, against a wildcard-only schema); '
        'a case is non-trivial when its (schema, mode, converter, user, multiset of reported xmlns, lexical key forms) '
        'signature is new')
ASSUMPTIONS = [
    'prefix un-declaration xmlns:p="" (XML 1.1 only) is outside the alphabet; only the default namespace is unset',
    'the prefix used by the source text for an element is immaterial after parsing; documents differing only by it are one case',
    'single-map modes (collapsed, root-only, none) cannot denote a no-namespace element once the map holds a default '
    'namespace: those (document, mode) pairs are skipped and counted',
    'a name whose namespace has no binding in the scope of the document cannot occur there: in part (a) it is evaluated and '
    'counted but not judged',
    'unprefixed attribute keys are resolved as Namespaces in XML 6.2 says (no namespace); keys that only resolve with the '
    "library's own rule (default namespace unless the name is in the attribute table) are counted as contested, and the "
    're-encoding clause decides',
    'a discrepancy is keyed by configuration + chain of in-scope declarations of the failing node + wrong name, so the same '
    'local failure met in many documents / walks is one key',
]
BUDGET_S = {'quick': 3600, 'thorough': 14400}

U1, U2, U3 = 'urn:u1', 'urn:u2', 'urn:u3'
URIS = (U1, U2, U3)
CHOICES = (
    (),
    (('p', U1),), (('p', U2),), (('q', U1),), (('q', U2),), (('', U1),), (('', U2),),
    (('', ''),),
    (('p', U1), ('q', U1)),
)
CH_NAMES = ('-', 'p=1', 'p=2', 'q=1', 'q=2', 'd=1', 'd=2', 'd=', 'p=1,q=1')
ROOT_EXTRA = (('k', U3),)
USERS = {'none': None, 'collide': {'p': U3}, 'partial': {'x': U1}}
MODES = ('stacked', 'collapsed', 'root-only', 'none')
ALPHA_PREFIXES = frozenset(('p', 'q', 'k', 'x', ''))
POOL = ('{%s}a' % U1, '{%s}a' % U2, '{%s}a' % U3, 'a')
FAN = 2


def decl_text(decls):
    return ''.join(' xmlns%s="%s"' % (':' + p if p else '', u) for p, u in decls)


def chain_text(choices):
    """Canonical name of a scope: root choice, then the declaring levels below it."""
    return 'k=3' + (',' + CH_NAMES[choices[0]] if choices[0] else '') + \
        ''.join('/' + CH_NAMES[c] for c in choices[1:] if c)


# =============================================================================================
# Part (a): the mapper as a state machine
# =============================================================================================

class Node:
    """An abstract element: identity + the namespace declarations it carries."""
    __slots__ = ('xmlns',)

    def __init__(self, decls):
        self.xmlns = [tuple(x) for x in decls] or None


class WalkResource(XMLResource):
    """A resource whose parsed root carries the root declarations; the walked nodes are abstract."""

    def get_xmlns(self, elem):
        if isinstance(elem, Node):
            return elem.xmlns
        return super().get_xmlns(elem)


class Walk:
    """One replay of an event path on a fresh mapper and a fresh reference stack."""

    def __init__(self, mode, user, root_choice):
        self.mode = mode
        self.user = USERS[user]
        self.root_decls = ROOT_EXTRA + CHOICES[root_choice]
        self.res = WalkResource('<r%s/>' % decl_text(self.root_decls))
        self.mapper = NamespaceMapper(namespaces=self.user, xmlns_processing=mode, source=self.res)
        self.initial = dict(self.mapper.namespaces)
        self.ref = NsStack(self.user)
        self.path = []          # open nodes, root first
        self.choices = []       # their xmlns choices
        self.counts = []        # children entered so far per open node
        self.closed = False     # the deepest open node has been left
        self.marks = []         # mapper state right after each open node was entered
        self.declared = set()   # non-empty URIs declared by the document so far
        self.root_declared = set()

    def _drop_closed(self):
        if self.closed:
            self.path.pop(), self.counts.pop(), self.marks.pop(), self.choices.pop()
            self.closed = False

    # -- the library side: the calls of XsdGroup.raw_decode (enter) and XsdElement.raw_decode (leave)
    def enter(self, choice):
        self._drop_closed()
        level = len(self.path)
        if level:
            self.counts[-1] += 1
        decls = CHOICES[choice] if level else self.root_decls
        node = Node(decls)
        self.path.append(node)
        self.choices.append(choice)
        self.counts.append(0)
        del self.ref.frames[1 + level:]
        self.ref.push(decls)
        for _, u in decls:
            if u:
                self.declared.add(u)
                if not level:
                    self.root_declared.add(u)
        self.mapper.set_xmlns_context(node, level)
        self.marks.append(self.mapper_state())

    def leave(self):
        self._drop_closed()
        level = len(self.path) - 1
        self.closed = True
        del self.ref.frames[2 + level:]
        self.mapper.set_xmlns_context(self.path[-1], level)

    def enabled(self, depth):
        """Events possible now: ('i', choice) enters a child / next sibling, ('o',) leaves the innermost open node."""
        if self.closed:
            if len(self.path) == 1:
                return []
            evs = [('o',)]
            if self.counts[-2] < FAN:
                evs += [('i', c) for c in range(len(CHOICES))]
            return evs
        evs = [('o',)]
        if len(self.path) < depth and self.counts[-1] < FAN:
            evs += [('i', c) for c in range(len(CHOICES))]
        return evs

    def apply(self, ev):
        if ev[0] == 'i':
            self.enter(ev[1])
        else:
            self.leave()

    # -- observation
    def mapper_state(self):
        m = self.mapper
        ctxs = []
        for c in m._xmlns_contexts:
            try:
                who = next(i for i, n in enumerate(self.path) if n is c.obj)
            except StopIteration:
                who = 'dead'
            ctxs.append((who, c.level, tuple(c.xmlns or ()), tuple(c.namespaces.items()), tuple(c.reverse.items())))
        return tuple(m.namespaces.items()), tuple(sorted(m._reverse.items())), tuple(ctxs)

    def fingerprint(self):
        return tuple(self.counts), self.closed, self.mapper_state(), tuple(self.marks)

    def chain(self):
        return chain_text(self.choices)


def fmt_events(root_choice, events):
    return CH_NAMES[root_choice] + ''.join('>' + CH_NAMES[e[1]] if e[0] == 'i' else '<' for e in events)


def check_walk_state(w, ev, before_ns):
    """Invariants after one event.  Returns (list of (tag, what), counters dict)."""
    out, cnt = [], {}
    m = w.mapper
    ns = {k: v for k, v in m.namespaces.items() if v}
    doc = NsStack()
    doc.frames += w.ref.frames[1:]
    if w.mode == 'stacked':
        want = {k: v for k, v in w.initial.items() if k not in ALPHA_PREFIXES}     # prefixes generated at construction
        want.update(w.ref.in_scope())
        if ns != want:
            out.append(('namespaces=%s' % sorted(ns.items()),
                        'stacked: namespaces %r differs from the in-scope declarations %r' % (ns, want)))
        if ev[0] == 'o' and w.mapper_state() != w.marks[-1]:
            now, then = w.mapper_state(), w.marks[-1]
            parts = [nm for nm, x, y in zip(('namespaces', 'reverse', 'contexts'), now, then) if x != y]
            out.append(('not-restored:%s:%s' % ('+'.join(parts), [x for x, y in zip(now, then) if x != y][0]),
                        'stacked: on leaving the node the %s differ from what they were after entering it: %r vs %r'
                        % (' and '.join(parts), now, then)))
    elif w.mode == 'none':
        if ns != (w.user or {}):
            out.append(('namespaces=%s' % sorted(ns.items()), "none: namespaces %r is not the user map" % (ns,)))
    else:
        for k, v in before_ns.items():
            if ns.get(k) != v:
                out.append(('changed:%s=%s' % (k, ns.get(k)), '%s: entry %r of the single map changed from %r to %r'
                            % (w.mode, k, v, ns.get(k))))
        for u in sorted(w.declared if w.mode == 'collapsed' else w.root_declared):
            if u not in ns.values():
                out.append(('uncovered:%s' % u, '%s: declared namespace %r has no prefix in the map %r' % (w.mode, u, ns)))
        for k, v in ns.items():
            if v not in w.declared and v not in (w.user or {}).values():
                out.append(('alien:%s=%s' % (k, v), '%s: map entry %r=%r was never declared' % (w.mode, k, v)))
        if w.mode == 'root-only' and len(w.path) > 1 and ns != before_ns:
            out.append(('grown:%s' % sorted(ns.items()), 'root-only: an inner declaration changed the map %r -> %r'
                        % (before_ns, ns)))

    for n in POOL:
        uri, _ = split(n)
        judged = doc.nameable(uri)
        if not uri and w.mode != 'stacked' and ns.get(''):
            cnt['single_map_default_hides_local'] = cnt.get('single_map_default_hides_local', 0) + 1
            continue
        try:
            mapped = m.map_qname(n)
            back = m.unmap_qname(mapped)
        except Exception as e:                                       # noqa
            mapped, back = 'raised', type(e).__name__
        if back == n:
            key = 'rt_ok' if judged else 'rt_ok_unnameable'
            cnt[key] = cnt.get(key, 0) + 1
            if uri and mapped == n and uri in ns.values():
                out.append(('unmapped:%s' % n, '%s: map_qname(%r) leaves the name unmapped although %r is registered in %r'
                            % (w.mode, n, uri, ns)))
        elif judged:
            out.append(('roundtrip:%s->%s->%s' % (n, mapped, back),
                        '%s: map_qname(%r) = %r but unmap_qname(%r) = %r with namespaces %r'
                        % (w.mode, n, mapped, mapped, back, dict(m.namespaces))))
        else:
            cnt['rt_fail_unnameable'] = cnt.get('rt_fail_unnameable', 0) + 1
    # the attribute domain: a local name listed in the name table stays local
    try:
        back = m.unmap_qname(m.map_qname('a'), name_table={'a': None})
    except Exception as e:                                           # noqa
        back = type(e).__name__
    if back != 'a':
        out.append(('roundtrip-attr:a->%s' % back, "local attribute name 'a' in the name table came back as %r" % back))
    return out, cnt


def explore_walks(mode, user, root_choice, depth, acc, want_path=None):
    """BFS over (walk position, mapper state).  Returns discrepancies [(key, what, case)], one per key."""
    discs = {}
    base = 'C17|a|%s|%s|' % (mode, user)

    def replayed(events):
        w = Walk(mode, user, root_choice)
        w.enter(root_choice)
        for e in events:
            w.apply(e)
        return w

    def snapshot(w):
        return {k: v for k, v in w.mapper.namespaces.items() if v}

    def judge(w, events, ev, before_ns):
        out, cnt = check_walk_state(w, ev, before_ns)
        for k, v in cnt.items():
            acc.cnt('a:' + k, v)
        acc.out('a:%s:%s:%s' % (mode, 'enter' if ev[0] == 'i' else 'leave', 'disc' if out else 'ok'))
        for tag, what in out:
            key = base + w.chain() + '|' + tag
            if key not in discs:
                discs[key] = ('after the events %s: %s' % (fmt_events(root_choice, events), what),
                              {'part': 'a', 'mode': mode, 'user': user, 'root': root_choice, 'depth': depth,
                               'events': [list(e) for e in events]})

    w = Walk(mode, user, root_choice)
    before = snapshot(w)
    w.enter(root_choice)
    judge(w, (), ('i', root_choice), before)
    if want_path is not None:                      # replay of one recorded path: judge every step
        for i, e in enumerate(want_path):
            before = snapshot(w)
            try:
                w.apply(e)
            except Exception as exc:                                     # noqa
                discs[base + w.chain() + '|raised:%s' % type(exc).__name__] = (
                    'set_xmlns_context raised %s: %s' % (type(exc).__name__, exc), None)
                break
            judge(w, tuple(want_path[:i + 1]), e, before)
        return [(k, v[0], v[1]) for k, v in discs.items()]

    seen = {w.fingerprint()}
    queue = deque([()])
    acc.st(states=1, transitions=1, traces=1)
    acc.ev()
    while queue:
        events = queue.popleft()
        w = replayed(events)
        before = snapshot(w)
        evs = w.enabled(depth)
        if not evs:
            acc.cnt('a:walk_ends_reached')
        for ev in evs:
            w2 = replayed(events)
            acc.ev()
            acc.st(transitions=1, traces=1)
            try:
                w2.apply(ev)
            except Exception as e:                                       # noqa
                acc.out('a:%s:raised' % mode)
                discs.setdefault(base + w2.chain() + '|raised:%s' % type(e).__name__,
                                 ('after the events %s: set_xmlns_context raised %s: %s'
                                  % (fmt_events(root_choice, events + (ev,)), type(e).__name__, e),
                                  {'part': 'a', 'mode': mode, 'user': user, 'root': root_choice, 'depth': depth,
                                   'events': [list(x) for x in events + (ev,)]}))
                continue
            fp = w2.fingerprint()
            if fp in seen:
                continue
            seen.add(fp)
            acc.st(states=1)
            nxt = events + (ev,)
            judge(w2, nxt, ev, before)
            queue.append(nxt)
    acc.nt('a|%s|%s|%d|%d|%d' % (mode, user, root_choice, depth, len(seen)))
    if mode == 'stacked' and root_choice == 8:
        acc.sample({'part': 'a', 'mode': mode, 'user': user, 'root': CH_NAMES[root_choice], 'depth': depth,
                    'states': len(seen), 'last_walk': fmt_events(root_choice, events), 'discrepancies': len(discs)})
    return [(k, v[0], v[1]) for k, v in discs.items()]


# =============================================================================================
# Part (m): the mapper as a mutable mapping (m[prefix] = uri, del m[prefix]) explored to a fixpoint
# =============================================================================================

MAP_INITS = {'empty': {}, 'two-for-one': {'p': U1, 'q': U1}, 'default+p': {'': U1, 'p': U2}}
MAP_OPS = [('set', p, u) for p in ('p', 'q', '') for u in (U1, U2)] + [('del', p) for p in ('p', 'q', '')]


def fmt_map(d):
    return ','.join('%s=%s' % (k or 'd', v[-1]) for k, v in sorted(d.items())) or '-'


def explore_mapping(init, acc, want_path=None):
    """BFS over (namespaces, reverse map) under item assignment / deletion against a plain dict."""
    discs = {}

    def replayed(ops):
        m = NamespaceMapper(namespaces=dict(MAP_INITS[init]))
        model = dict(MAP_INITS[init])
        for op in ops:
            if op[0] == 'set':
                m[op[1]] = op[2]
                model[op[1]] = op[2]
            else:
                del m[op[1]]
                del model[op[1]]
        return m, model

    def judge(m, model, ops):
        out = []
        if dict(m) != model or len(m) != len(model) or m.default_namespace != model.get(''):
            out.append(('map=%s' % fmt_map(dict(m)), 'the mapping is %r, a dict gives %r' % (dict(m), model)))
        names = ['{%s}a' % u for u in sorted(set(model.values()))] + ([] if model.get('') else ['a'])
        for n in names:
            mapped = m.map_qname(n)
            back = m.unmap_qname(mapped)
            if back != n:
                out.append(('roundtrip:%s->%s->%s' % (n, mapped, back), 'map_qname(%r) = %r but unmap_qname(%r) = %r with '
                            'namespaces %r' % (n, mapped, mapped, back, dict(m))))
            elif mapped == n and n != 'a':
                out.append(('unmapped:%s' % n, 'map_qname(%r) leaves the name unmapped although its namespace is registered '
                            'in %r' % (n, dict(m))))
        acc.out('m:%s' % ('disc' if out else 'ok'))
        for tag, what in out:
            key = 'C17|m|%s|%s|%s' % (init, fmt_map(model), tag)
            if key not in discs:
                discs[key] = ('after %s on %r: %s' % (' ; '.join(' '.join(o) for o in ops) or 'nothing', MAP_INITS[init], what),
                              {'part': 'm', 'init': init, 'ops': [list(o) for o in ops]})

    def state(m):
        return tuple(m.namespaces.items()), tuple(sorted(m._reverse.items()))

    if want_path is not None:
        for i in range(len(want_path) + 1):
            try:
                m, model = replayed(want_path[:i])
            except Exception as e:                                       # noqa
                op = want_path[i - 1]
                discs['C17|m|%s|%s|raised:%s:%s' % (init, fmt_map(MAP_INITS[init]), ' '.join(op), type(e).__name__)] = (
                    '%s raised %s: %s' % (' '.join(op), type(e).__name__, e), None)
                break
            judge(m, model, want_path[:i])
        return [(k, v[0], v[1]) for k, v in discs.items()]
    m, model = replayed(())
    judge(m, model, ())
    seen = {state(m)}
    queue = deque([()])
    acc.st(states=1)
    while queue:
        ops = queue.popleft()
        _, model = replayed(ops)
        for op in MAP_OPS:
            if op[0] == 'del' and op[1] not in model:
                continue
            nxt = ops + (op,)
            acc.ev()
            acc.st(transitions=1, traces=1)
            try:
                m2, model2 = replayed(nxt)
            except Exception as e:                                       # noqa
                acc.out('m:raised')
                discs.setdefault('C17|m|%s|%s|raised:%s:%s' % (init, fmt_map(MAP_INITS[init]), ' '.join(op), type(e).__name__),
                                 ('after %s on %r: %s raised %s: %s' % (' ; '.join(' '.join(o) for o in ops) or 'nothing',
                                                                        MAP_INITS[init], ' '.join(op), type(e).__name__, e),
                                  {'part': 'm', 'init': init, 'ops': [list(o) for o in nxt]}))
                continue
            st = state(m2)
            if st in seen:
                continue
            seen.add(st)
            acc.st(states=1)
            judge(m2, model2, nxt)
            queue.append(nxt)
    acc.nt('m|%s|%d' % (init, len(seen)))
    return [(k, v[0], v[1]) for k, v in discs.items()]


# =============================================================================================
# Part (b): documents
# =============================================================================================

def shapes(depth):
    """Trees of depth <= depth and fan-out <= FAN as nested tuples of children."""
    if depth == 1:
        return [()]
    sub = shapes(depth - 1)
    out = [()]
    for n in range(1, FAN + 1):
        out += list(itertools.product(sub, repeat=n))
    return out


SHAPES = shapes(3)


def positions(shape, name='r', level=0):
    """Pre-order list of (local name, level)."""
    out = [(name, level)]
    for i, ch in enumerate(shape):
        child = ('c%d' % i) if level == 0 else ('g' + name[1:] + str(i))
        out += positions(ch, child, level + 1)
    return out


LOCALS = [p[0] for p in positions(SHAPES[-1])]


def enum_docs(shape, max_dev, exact=None):
    """Every assignment (xmlns choice, element namespace) per node with deviations <= max_dev (== exact if given).

    Yields (choices, uris) in pre-order; a uri of None means 'unprefixed'.  A deviation is a node that declares
    something or a node named through a prefix.
    """
    pos = positions(shape)
    n = len(pos)

    def rec(i, frames_by_level, dev, chs, uris):
        if i == n:
            if exact is None or dev == exact:
                yield tuple(chs), tuple(uris)
            return
        level = pos[i][1]
        for c in range(len(CHOICES)):
            d1 = dev + (1 if c else 0)
            if d1 > max_dev:
                break
            frames = frames_by_level[:level + 1] + [dict(CHOICES[c])]
            scope = {}
            for f in frames:
                scope.update(f)
            default = scope.get('') or ''
            bound = sorted({v for k, v in scope.items() if k and v and v != default})
            for u in [None] + bound:
                d2 = d1 + (1 if u else 0)
                if d2 > max_dev:
                    break
                yield from rec(i + 1, frames, d2, chs + [c], uris + [u])

    yield from rec(0, [dict(ROOT_EXTRA)], 0, [], [])


def build_doc(shape, chs, uris, attrs):
    """Returns (xml text, expected tree).  attrs: 1 = one attribute per in-scope prefix plus a local one, 0 = none."""
    pos = positions(shape)
    idx = [0]

    def rec(sh, frames, path_choices):
        i = idx[0]
        idx[0] += 1
        local, level = pos[i]
        decls = list(CHOICES[chs[i]])
        if not level:
            decls = list(ROOT_EXTRA) + decls
        frames = frames + [dict(decls)]
        path_choices = path_choices + [chs[i]]
        scope = {}
        for f in frames:
            scope.update(f)
        if uris[i] is None:
            uri, qn = scope.get('') or '', local
        else:
            uri = uris[i]
            pre = next(k for k in ('k', 'p', 'q') if scope.get(k) == uri)
            qn = pre + ':' + local
        exp_attrs, atext = {}, ''
        if attrs:
            for pre in ('k', 'p', 'q'):
                if scope.get(pre):
                    exp_attrs['a' + pre] = expanded(scope[pre], 'a' + pre)
                    atext += ' %s:a%s="v"' % (pre, pre)
            exp_attrs['a0'] = 'a0'
            atext += ' a0="v"'
        kids, ktext = [], ''
        for ch in sh:
            t, e = rec(ch, frames, path_choices)
            ktext += t
            kids.append(e)
        text = '<%s%s%s' % (qn, decl_text(decls), atext) + ('>%s</%s>' % (ktext, qn) if kids else '/>')
        return text, {'name': expanded(uri, local), 'attrs': exp_attrs, 'children': kids, 'decls': decls,
                      'chain': chain_text(path_choices)}

    return rec(shape, [], [])


_SCHEMAS = {}
KIDS = {'r': ('c0', 'c1'), 'c0': ('g00', 'g01'), 'c1': ('g10', 'g11')}


def schema(kind):
    """Four schema documents (U1, U2, U3, no namespace) declaring every element name of the shapes.

    'declared': one complex type per position whose content is a sequence of optional references to the possible
    children in each namespace (children decode as single values) and whose attributes are all declared;
    'wildcard': one type whose content and attributes are wildcards only (children decode as lists)."""
    if kind in _SCHEMAS:
        return _SCHEMAS[kind]
    pre = {U1: 'u1', U2: 'u2', U3: 'u3'}
    xm = ' '.join('xmlns:%s="%s"' % (p, u) for u, p in pre.items())
    if kind == 'declared':
        arefs = '<xs:attribute name="a0"/>' + ''.join(
            '<xs:attribute ref="%s:a%s"/>' % (p, s) for p in ('u1', 'u2', 'u3') for s in 'kpq')
        types = ''
        for n in LOCALS:
            refs = ''.join('<xs:element ref="%s%s" minOccurs="0"/>' % (p + ':' if p else '', c)
                           for c in KIDS.get(n, ()) for p in ('u1', 'u2', 'u3', ''))
            types += '<xs:complexType name="T%s">%s%s</xs:complexType>' % (
                n, '<xs:sequence>%s</xs:sequence>' % refs if refs else '', arefs)
    else:
        types = ''.join('<xs:complexType name="T%s"><xs:sequence><xs:any namespace="##any" processContents="strict" '
                        'minOccurs="0" maxOccurs="unbounded"/></xs:sequence>'
                        '<xs:anyAttribute namespace="##any" processContents="lax"/></xs:complexType>' % n for n in LOCALS)
    sources = []
    for tns in URIS + ('',):
        imps = ''.join('<xs:import%s/>' % (' namespace="%s"' % u if u else '') for u in URIS + ('',) if u != tns)
        body = ''.join('<xs:element name="%s" type="u1:T%s"/>' % (n, n) for n in LOCALS)
        if tns:
            body += ''.join('<xs:attribute name="a%s"/>' % s for s in 'kpq')
        if tns == U1:
            body += types
        sources.append('<xs:schema xmlns:xs="http://www.w3.org/2001/XMLSchema" %s%s elementFormDefault="qualified">%s%s'
                       '</xs:schema>' % (xm, ' targetNamespace="%s"' % tns if tns else '', imps, body))
    _SCHEMAS[kind] = XMLSchema10(sources)
    return _SCHEMAS[kind]


CONVERTERS = {
    'default': None,
    'badgerfish': xmlschema.BadgerFishConverter,
    'jsonml': xmlschema.JsonMLConverter,
    'dataelement': DataElementConverter,
}


# --- uniform view of decoded data: (element key or None, xmlns pairs, attribute keys, children) ---------

def lex_local(key):
    return key.rsplit('}', 1)[-1].rsplit(':', 1)[-1]


def view_default(key, val):
    xm, at, kids = [], [], []
    if isinstance(val, dict):
        for k, v in val.items():
            if k == '@xmlns':
                xm.append(('', v))
            elif k.startswith('@xmlns:'):
                xm.append((k[7:], v))
            elif k.startswith('@'):
                at.append(k[1:])
            elif k != '$':
                for item in (v if isinstance(v, list) else [v]):
                    kids.append(view_default(k, item))
    return key, xm, at, kids


def view_badgerfish(key, val):
    xm, at, kids = [], [], []
    for k, v in val.items():
        if k == '@xmlns':
            xm = [('' if p == '$' else p, u) for p, u in v.items()]
        elif k.startswith('@'):
            at.append(k[1:])
        elif not k.startswith('$'):
            for item in (v if isinstance(v, list) else [v]):
                kids.append(view_badgerfish(k, item))
    return key, xm, at, kids


def view_jsonml(val):
    xm, at, kids = [], [], []
    rest = val[1:]
    if rest and isinstance(rest[0], dict):
        for k, v in rest[0].items():
            if k == 'xmlns':
                xm.append(('', v))
            elif k.startswith('xmlns:'):
                xm.append((k[6:], v))
            else:
                at.append(k)
        rest = rest[1:]
    for item in rest:
        if isinstance(item, list):
            kids.append(view_jsonml(item))
    return val[0], xm, at, kids


def view_dataelement(el):
    return el.tag, list(el.xmlns or ()), list(el.attrib), [view_dataelement(c) for c in el]


def make_view(conv, data):
    if conv == 'default':
        return view_default(None, data)         # the default converter does not keep the root tag
    if conv == 'badgerfish':
        (key, val), = data.items()
        return view_badgerfish(key, val)
    if conv == 'jsonml':
        return view_jsonml(data)
    return view_dataelement(data)


def form(key):
    return 'expanded' if key[:1] == '{' else ('prefixed' if ':' in key else 'local')


def lex_form(key):
    """The namespace part of a lexical key: '{uri}', 'prefix:' or '' (local names do not matter to the mapping)."""
    if key[:1] == '{':
        return key.split('}')[0] + '}'
    return key.split(':')[0] + ':' if ':' in key else '(unprefixed)'


def ns_of(name):
    """Namespace of a resolved name for the discrepancy key: a URI, '-' for no namespace, '?' for unresolved."""
    if name is None:
        return '?'
    if name[:1] == '{':
        return split(name)[0]
    return name.split(':')[0] + ':?' if ':' in name else '-'


def judge_view(view, exp, user):
    """Resolves every key of the view with the declarations the data reports.
    Returns (list of (chain, tag, what), info)."""
    out = []
    info = {'keys': 0, 'contested': 0, 'forms': set(), 'xmlns': []}
    stack = NsStack(user)

    def rec(v, e, where):
        key, xm, at, kids = v
        stack.push(xm)
        if xm:
            info['xmlns'].append(tuple(sorted(xm)))
        if key is not None:
            info['keys'] += 1
            info['forms'].add('e:' + form(key))
            got = stack.resolve(key)
            if got != e['name']:
                out.append((e['chain'], 'elem:%s=>%s!=%s' % (lex_form(key), ns_of(got), ns_of(e['name'])),
                            'element key %r at %s resolves to %r with the declarations the data reports (%r); the XML '
                            'node is %r' % (key, where, got, stack.in_scope(), e['name'])))
        want = dict(e['attrs'])
        for a in at:
            info['keys'] += 1
            info['forms'].add('a:' + form(a))
            loc = lex_local(a)
            if loc not in want:
                out.append((e['chain'], 'attr-unknown:%s' % lex_form(a),
                            'attribute key %r of %s matches no XML attribute' % (a, where)))
                continue
            expd = want.pop(loc)
            got = stack.resolve(a, attribute=True)
            if got == expd:
                continue
            if stack.resolve(a, attribute=True, default_for_attributes=True) == expd:
                info['contested'] += 1
                continue
            out.append((e['chain'], 'attr:%s=>%s!=%s' % (lex_form(a), ns_of(got), ns_of(expd)),
                        'attribute key %r of %s resolves to %r with the declarations the data reports (%r); the XML '
                        'attribute is %r' % (a, where, got, stack.in_scope(), expd)))
        for loc in sorted(want):
            out.append((e['chain'], 'attr-missing:%s' % ns_of(want[loc]), 'attribute %r of %s has no key in the decoded data %r'
                        % (want[loc], where, at)))
        ekids = {split(c['name'])[1]: c for c in e['children']}
        for kv in kids:
            loc = lex_local(kv[0])
            if loc not in ekids:
                out.append((e['chain'], 'child-unknown:%s' % lex_form(kv[0]),
                            'key %r under %s matches no XML child' % (kv[0], where)))
                continue
            rec(kv, ekids.pop(loc), where + '/' + loc)
        for loc in sorted(ekids):
            out.append((ekids[loc]['chain'], 'child-missing:%s' % ns_of(ekids[loc]['name']),
                        'child %r of %s has no key in the decoded data' % (ekids[loc]['name'], where)))
        stack.pop()

    rec(view, exp, split(exp['name'])[1])
    return out, info


def judge_encoded(elem, exp):
    out = []

    def rec(el, e, where):
        if el.tag != e['name']:
            out.append((e['chain'], 'enc-elem:%s=>%s' % (ns_of(e['name']), ns_of(el.tag)),
                        're-encoded element at %s is %r, the XML node was %r' % (where, el.tag, e['name'])))
        want = dict(e['attrs'])
        for a in el.attrib:
            loc = split(a)[1]
            if loc not in want:
                out.append((e['chain'], 'enc-attr-unknown:%s' % ns_of(a), 're-encoded %s has an attribute %r' % (where, a)))
            elif want.pop(loc) != a:
                out.append((e['chain'], 'enc-attr:%s=>%s' % (ns_of(e['attrs'][loc]), ns_of(a)),
                            're-encoded attribute of %s is %r, the XML attribute was %r' % (where, a, e['attrs'][loc])))
        for loc in sorted(want):
            out.append((e['chain'], 'enc-attr-missing:%s' % ns_of(want[loc]), 're-encoded %s lacks the attribute %r'
                        % (where, want[loc])))
        ekids = {split(c['name'])[1]: c for c in e['children']}
        for ch in el:
            loc = split(ch.tag)[1]
            if loc not in ekids:
                out.append((e['chain'], 'enc-child-unknown:%s' % ns_of(ch.tag), 're-encoded child %r of %s matches no XML child'
                            % (ch.tag, where)))
                continue
            rec(ch, ekids.pop(loc), where + '/' + loc)
        for loc in sorted(ekids):
            out.append((ekids[loc]['chain'], 'enc-child-missing:%s' % ns_of(ekids[loc]['name']),
                        're-encoded %s lacks the child %r' % (where, ekids[loc]['name'])))

    rec(elem, exp, split(exp['name'])[1])
    return out


def has_local_element(exp):
    return not split(exp['name'])[0] or any(has_local_element(c) for c in exp['children'])


def root_default(exp):
    return any(p == '' and u for p, u in exp['decls'])


def run_doc_case(kind, xml, exp, mode, conv, user, resource=None):
    """Returns (list of (chain, tag, what), info)."""
    info = {'outcome': None, 'keys': 0, 'contested': 0, 'sig': ''}
    if mode != 'stacked' and root_default(exp) and has_local_element(exp):
        info['outcome'] = 'skipped-single-map-unset-default'
        return [], info
    sch = schema(kind)
    kw = {'xmlns_processing': mode}
    if CONVERTERS[conv] is not None:
        kw['converter'] = CONVERTERS[conv]
    if USERS[user] is not None:
        kw['namespaces'] = dict(USERS[user])
    out = []
    try:
        data = sch.decode(resource if resource is not None else XMLResource(xml), **kw)
    except Exception as e:                                                  # noqa
        info['outcome'] = 'decode-raised'
        return [(exp['chain'], 'decode-raised:%s' % type(e).__name__,
                 'decode raised %s: %s' % (type(e).__name__, str(e)[:300]))], info
    view = make_view(conv, data)
    if view[0] is None:
        info['root_key_absent'] = 1             # the default converter does not keep the root tag
    o1, vi = judge_view(view, exp, USERS[user])
    out += o1
    info['keys'], info['contested'] = vi['keys'], vi['contested']
    info['sig'] = '%s|%s' % (sorted(vi['xmlns']), sorted(vi['forms']))
    try:
        elem, errors = sch.maps.elements[exp['name']].encode(data, validation='lax', **kw)
    except Exception as e:                                                  # noqa
        out.append((exp['chain'], 'encode-raised:%s' % type(e).__name__, 'encode(decode(d)) raised %s: %s'
                    % (type(e).__name__, str(e)[:300])))
        info['outcome'] = 'disc-encode-raised'
        return out, info
    if elem is None:
        out.append((exp['chain'], 'encode-none', 'encode(decode(d)) produced no element: %s'
                    % '; '.join(str(getattr(x, 'reason', x))[:160] for x in errors[:2])))
    else:
        o2 = judge_encoded(elem, exp)
        if o2 and errors:
            o2 = [(c, t, w + ' [encoder said: %s]' % str(getattr(errors[0], 'reason', errors[0]))[:160]) for c, t, w in o2]
        out += o2
        if errors and not o2:
            info['enc_errors_names_ok'] = 1
    if out:
        info['outcome'] = 'disc-both' if o1 and len(out) > len(o1) else ('disc-decode' if o1 else 'disc-encode')
    else:
        info['outcome'] = 'agree-contested' if info['contested'] else 'agree'
    return out, info


# =============================================================================================
# Sharding
# =============================================================================================

DOCS_PER_SHARD = 600
WILD_MAX_NODES = 3
MODE_SETS = {'all': MODES, 'sc': ('stacked', 'collapsed')}


def tier_params(tier):
    """Document sets: (schema kind, attributes, max deviations, exact deviations, slice modulus, modes)."""
    if tier == 'quick':
        return {'walk_depth': 3, 'sets': [('declared', 1, 2, None, 1, 'all'), ('declared', 0, 2, None, 1, 'all'),
                                          ('declared', 1, 3, 3, 8, 'sc'), ('wildcard', 1, 2, None, 1, 'all')]}
    return {'walk_depth': 4, 'sets': [('declared', 1, 2, None, 1, 'all'), ('declared', 0, 2, None, 1, 'all'),
                                      ('declared', 1, 3, 3, 1, 'sc'), ('wildcard', 1, 2, None, 1, 'all')]}


def shards(tier, seed):
    prm = tier_params(tier)
    out = []
    for kind, attrs, max_dev, exact, k, modes in prm['sets']:
        for si in range(len(SHAPES)):
            nodes = len(positions(SHAPES[si]))
            if kind == 'wildcard' and nodes > WILD_MAX_NODES:
                continue
            n = (sum(1 for _ in enum_docs(SHAPES[si], max_dev, exact)) + k - 1) // k
            parts = max(1, (n + DOCS_PER_SHARD - 1) // DOCS_PER_SHARD)
            cost = n / parts * nodes * len(MODE_SETS[modes])
            out += [(cost, ('b', kind, si, attrs, max_dev, exact, seed % k, k, j, parts, modes)) for j in range(parts)]
    first = [('m', init) for init in MAP_INITS]
    for mode in MODES:
        for user in USERS:
            for root in range(len(CHOICES)):
                if mode == 'collapsed':
                    out.append((3e5 if prm['walk_depth'] > 3 else 2e4, ('a', mode, user, root, prm['walk_depth'])))
                else:
                    first.append(('a', mode, user, root, prm['walk_depth']))
    out.sort(key=lambda x: -x[0])                      # the cheap state-machine shards, then the expensive shards first
    return first + [x[1] for x in out]


def run_shard(shard, acc):
    if shard[0] == 'a':
        _, mode, user, root, depth = shard
        with acc.guard(7200):
            discs = explore_walks(mode, user, root, depth, acc)
        for key, what, case in discs:
            acc.disc(key, what, case)
        return
    if shard[0] == 'm':
        for key, what, case in explore_mapping(shard[1], acc):
            acc.disc(key, what, case)
        return
    _, kind, si, attrs, max_dev, exact, residue, k, part, parts, modes = shard
    shape = SHAPES[si]
    seen_keys = set()
    index = -1
    for chs, uris in enum_docs(shape, max_dev, exact):
        if k > 1 and runner.h64('%d|%s|%s' % (si, chs, uris)) % k != residue:
            continue
        index += 1
        if index % parts != part:
            continue
        xml, exp = build_doc(shape, chs, uris, attrs)
        acc.cnt('b:documents')
        resource = XMLResource(xml)
        for mode in MODE_SETS[modes]:
            for conv in CONVERTERS:
                for user in (USERS if kind == 'declared' else ('none',)):
                    with acc.guard(30):
                        out, info = run_doc_case(kind, xml, exp, mode, conv, user, resource)
                    acc.ev()
                    acc.out('b:%s:%s:%s' % (mode, conv, info['outcome']))
                    if info['outcome'].startswith('skipped'):
                        acc.cnt('b:' + info['outcome'])
                        continue
                    acc.st(traces=1, transitions=info['keys'])
                    if info['contested']:
                        acc.cnt('b:contested_attribute_keys', info['contested'])
                    if info.get('enc_errors_names_ok'):
                        acc.cnt('b:encoder_errors_but_names_restored')
                    if info.get('root_key_absent'):
                        acc.cnt('b:root_tag_not_part_of_the_data')
                    acc.nt('b|%s|%s|%s|%s|%s' % (kind, mode, conv, user, info['sig']))
                    if not out and mode == 'stacked' and len(chs) > 2 and sum(1 for c in chs if c) >= 2 and part == 0:
                        acc.sample({'xml': xml, 'schema': kind, 'mode': mode, 'converter': conv, 'user': user,
                                    'verdict': info['outcome']})
                    for chain, tag, what in out:
                        key = 'C17|b|%s|%s|%s|%s|%s|%s' % (kind, conv, mode, user, chain, tag)
                        if key in seen_keys:
                            continue
                        seen_keys.add(key)
                        acc.disc(key, 'document %s: %s' % (xml, what),
                                 {'part': 'b', 'kind': kind, 'shape': si, 'chs': list(chs), 'uris': list(uris),
                                  'attrs': attrs, 'mode': mode, 'conv': conv, 'user': user, 'xml': xml})


def replay(case):
    if case['part'] == 'a':
        acc = runner.Acc()
        discs = explore_walks(case['mode'], case['user'], case['root'], case['depth'], acc,
                              want_path=[tuple(e) for e in case['events']])
        return [(k, w) for k, w, _ in discs]
    if case['part'] == 'm':
        return [(k, w) for k, w, _ in explore_mapping(case['init'], runner.Acc(), [tuple(o) for o in case['ops']])]
    shape = SHAPES[case['shape']]
    xml, exp = build_doc(shape, case['chs'], case['uris'], case['attrs'])
    out, _ = run_doc_case(case['kind'], xml, exp, case['mode'], case['conv'], case['user'])
    return [('C17|b|%s|%s|%s|%s|%s|%s' % (case['kind'], case['conv'], case['mode'], case['user'], chain, tag),
             'document %s: %s' % (xml, what)) for chain, tag, what in out]


def bounds(tier, seed):
    prm = tier_params(tier)
    sets = []
    for kind, attrs, max_dev, exact, k, modes in prm['sets']:
        sets.append('%s schema, attributes %s, deviations %s%s, modes %s%s'
                    % (kind, 'on' if attrs else 'off', '== %d' % exact if exact else '<= %d' % max_dev,
                       ' (hash = %d mod %d)' % (seed % k, k) if k > 1 else '', '/'.join(MODE_SETS[modes]),
                       ', shapes of <= %d elements' % WILD_MAX_NODES if kind == 'wildcard' else ''))
    return {'size': '(a) walks over trees of depth <= %d, fan-out <= %d, 9 xmlns choices per entered node, 4 modes x 3 user '
                    'maps x 9 root choices; (b) 13 shapes of depth <= 3, fan-out <= 2 (<= 7 elements) x 4 converters x 3 user '
                    'maps' % (prm['walk_depth'], FAN),
            'deviations': '(b) a deviation is a declaring node or an element named through a prefix; ' + '; '.join(sets),
            'modes': list(MODES), 'converters': list(CONVERTERS), 'user_maps': dict(USERS),
            'xmlns_choices': list(CH_NAMES)}
