"""C19 - errors point at the offending node and a single fault is always reported there.

Every fault of a 12-entry catalogue is applied at every node of (a) every valid instance, up to a node
bound, of 15 small generated schemas and (b) every valid XML file of the repository test corpus.  Each
damaged document is validated through the public API from three kinds of source (text parsed by the
library's default ElementTree parser, an lxml tree, an ElementTree element) and judged:

 (1) every error's .path, evaluated with error.namespaces by the independent walker mc/ref/pathwalk.py,
     selects exactly one node and that node `is error.elem`; a children error's index lies in 0..len(elem);
 (2) the damaged document is reported invalid (when the reference - the DSL validator of mc/gen/docs_c19.py
     for generated schemas, libxml2 for XSD 1.0 corpus schemas - says the damage is a real fault);
 (3) some error sits on the damaged node or its parent;
 (4) no error sits outside ancestors U subtree of the damaged node (identity-constraint faults exempt);
 (5) generated schemas: the first children error of the element whose child sequence was edited carries
     the index at which the reference says that sequence first fails.
Lazy resources are explored and counted, never judged.
"""
import copy
import os
import warnings
import xml.etree.ElementTree as ET

import lxml.etree as LE
import xmlschema
from xmlschema import XMLResource
from xmlschema.validators.exceptions import XMLSchemaChildrenValidationError

from mc.core.runner import CaseTimeout, in_slice
from mc.gen import docs_c19 as D
from mc.ref.pathwalk import walk

ID = 'C19'
TITLE = 'Errors point at the offending node and a single fault is always reported there'
RULE = ('every fault of the catalogue {bad value, empty value, delete child, duplicate child, insert unknown child, '
        'move child one position, delete attribute, add undeclared attribute, bad attribute value, wrong fixed value '
        '(value doubled), text in element-only content, swap two non-adjacent siblings} at every node of every valid '
        'instance (elements + attributes <= N) of 15 generated schemas (one of them XSD 1.1) and of every valid corpus file, x source kind '
        '{text/default parser, lxml tree, ElementTree element}; an application the reference finds still valid is '
        'counted as not-a-fault, not judged; a case is non-trivial when its (schema, fault kind, damaged tag, '
        'source kind, error classes and their positions relative to the damage) signature is new; states = distinct '
        '(document, node) positions visited by the path walker, transitions = path steps evaluated')
ASSUMPTIONS = [
    'generated content models are deterministic and without nullable repeated groups; the DSL reference validator '
    'decides applicability (a damaged document it finds valid is not a fault)',
    'corpus: a damaged document is demanded invalid only when libxml2 (XSD 1.0 schemas it compiles and that accept the '
    'pristine file) rejects it; where the two validators disagree the case is counted as contested and only clause (1) is judged',
    'corpus pairs whose schema files contain identity constraints or xs:assert are exempt from clause (4) and accept a '
    'report on any ancestor in clause (3); generated key/keyref-only faults accept the constraint holder and the selected '
    'elements; clause (5) on the corpus is limited to insert-unknown-child under schemas without element wildcards',
    'an unprefixed path step is read with the default namespace of error.namespaces when that map has one '
    '(ElementTree / XPath 2.0 reading)',
    'errors are read after iter_errors() is exhausted (path and namespaces as a caller sees them then)',
    'for a deletion the damaged node is the former parent; for an attribute or text fault it is the owner element',
    'lazy resources, xs:assert / type-alternative side effects and documents above the node bound are not claimed',
]
BUDGET_S = {'quick': 900, 'thorough': 3600}
KINDS = ('text', 'lxml', 'et')
NODES = {'quick': 10, 'thorough': 14}           # 14 exhausts every schema but the recursive G12
NEXT = 14
SLICE_K = 8
CORPUS_NODE_LIMIT = 40
CHUNK_FAULTS = 1500

_SCHEMAS = {}


def repo_dir():
    return os.path.dirname(os.path.dirname(os.path.abspath(xmlschema.__file__)))


def gen_schema(sid):
    if sid not in _SCHEMAS:
        texts = D.render(D.SPEC[sid])
        cls = xmlschema.XMLSchema11 if D.SPEC[sid]['version'] == '1.1' else xmlschema.XMLSchema10
        _SCHEMAS[sid] = cls(texts if len(texts) > 1 else texts[0])
    return _SCHEMAS[sid]


# --- observation ----------------------------------------------------------------------------------

def addr_table(root):
    """[(node, addr)] in document order; the list keeps lxml proxies alive so id() is stable."""
    out, stack = [], [((), root)]
    while stack:
        addr, el = stack.pop()
        out.append((el, addr))
        ch = D.kids(el)
        for i in range(len(ch) - 1, -1, -1):
            stack.append((addr + (i,), ch[i]))
    return out


def observe(schema, text, kind):
    if kind == 'text':
        res = XMLResource(text)
        root = res.root
    elif kind == 'lxml':
        root = LE.fromstring(text.encode('utf-8'))
        res = XMLResource(root)
    else:
        root = ET.fromstring(text)
        res = XMLResource(root)
    return root, list(schema.iter_errors(res))


def judge(root, errors, info, must_be_invalid, exempt4, expect_index, sharp_index=None):
    """Returns (list of (tag, what), stats)."""
    discs = []
    table = addr_table(root)
    addr_of = {id(n): a for n, a in table}
    visited_addrs, nsteps = set(), 0
    locs = []
    for err in errors:
        path, elem = err.path, err.elem
        ename = type(err).__name__.replace('XMLSchema', '')
        if elem is None or path is None:
            discs.append(('(1)%s:no-path' % ename, 'error %r carries elem=%r path=%r' % (err.reason, elem, path)))
            locs.append(None)
            continue
        sel, visited, n = walk(root, path, err.namespaces)
        nsteps += n
        visited_addrs.update(addr_of.get(id(v)) for v in visited)
        loc = addr_of.get(id(elem))
        locs.append(loc)
        if loc is None:
            discs.append(('(1)%s:elem-not-in-document:%s' % (ename, path),
                          'error.elem of %r is not a node of the validated tree' % err.reason))
        if len(sel) != 1:
            discs.append(('(1)%s:path=%s:selects=%d' % (ename, path, len(sel)),
                          'path %s with namespaces %r selects %d nodes; error.elem is <%s> at %s'
                          % (path, dict(err.namespaces or {}), len(sel), elem.tag, loc)))
        elif sel[0] is not elem:
            discs.append(('(1)%s:path=%s:selects-other-node' % (ename, path),
                          'path %s selects the node at %s but error.elem is <%s> at %s'
                          % (path, addr_of.get(id(sel[0])), elem.tag, loc)))
        if isinstance(err, XMLSchemaChildrenValidationError) and not 0 <= err.index <= len(elem):
            discs.append(('(1)Children:index=%d:len=%d' % (err.index, len(elem)),
                          'children error index %d outside 0..%d (%s)' % (err.index, len(elem), err.reason)))

    if info is None:
        return discs, (len(visited_addrs), nsteps)
    if not errors:
        if must_be_invalid:
            discs.append(('(2)accepted', 'the damaged document is reported valid'))
        return discs, (len(visited_addrs), nsteps)
    if must_be_invalid is None:                         # contested validity: clause (1) only
        return discs, (len(visited_addrs), nsteps)

    near = [tuple(a) for a in info['near']]
    chain = tuple(info['chain'])
    subtrees = [tuple(a) for a in info['subtrees']]
    placed = [a for a in locs if a is not None]
    if placed and not any(a in near for a in placed):
        discs.append(('(3)far:%s' % ','.join(sorted({fmt(a) for a in placed})),
                      'no error sits on the damaged node or its parent (%s); errors sit at %s'
                      % (' '.join(fmt(a) for a in near), ', '.join(sorted({fmt(a) for a in placed})))))
    if not exempt4:
        for err, a in zip(errors, locs):
            if a is None or chain[:len(a)] == a or any(a[:len(s)] == s for s in subtrees):
                continue
            discs.append(('(4)outside:%s' % fmt(a),
                          'error %r at %s lies outside ancestors U subtree of the damaged node %s'
                          % (err.reason, err.path, fmt(chain))))
    parent = info['parent']
    if parent is not None and (expect_index is not None or sharp_index is not None):
        p = D.node_at(root, parent)
        raw = [list(p).index(c) for c in D.kids(p)] + [len(p)]      # lxml child lists include comments
        expect_index = None if expect_index is None else raw[expect_index]
        sharp_index = None if sharp_index is None else raw[sharp_index]
        idx = sorted(e.index for e in errors if isinstance(e, XMLSchemaChildrenValidationError) and e.elem is p)
        if expect_index is not None:
            if not idx:
                discs.append(('(5)no-children-error:expected=%d' % expect_index,
                              'the child sequence of %s first fails at index %d but no children error is reported there'
                              % (fmt(tuple(parent)), expect_index)))
            elif idx[0] != expect_index:
                discs.append(('(5)index=%d:expected=%d' % (idx[0], expect_index),
                              'the first children error of %s carries index %d; the child sequence first fails at %d'
                              % (fmt(tuple(parent)), idx[0], expect_index)))
        elif idx and sharp_index not in idx:
            discs.append(('(5)index=%s:inserted-at=%d' % (','.join(map(str, idx)), sharp_index),
                          'unknown child inserted at index %d of %s; children errors carry indexes %s'
                          % (sharp_index, fmt(tuple(parent)), idx)))
    return discs, (len(visited_addrs), nsteps)


def fmt(addr):
    return '/' + '.'.join(map(str, addr))


def fault_name(f):
    return '%s@%s%s' % (f['kind'], fmt(tuple(f['addr'])),
                        ''.join(':%s' % f[k] for k in ('i', 'j', 'name') if k in f))


def signature(origin, f, tag, kind, root, errors, info):
    table = {id(n): a for n, a in addr_table(root)}
    chain = tuple(info['chain']) if info else ()
    rel = []
    for e in errors:
        a = table.get(id(e.elem)) if e.elem is not None else None
        if a is None:
            where = 'none'
        elif a == chain:
            where = 'self'
        elif chain[:len(a)] == a:
            where = 'up%d' % (len(chain) - len(a))
        elif a[:len(chain)] == chain:
            where = 'down%d' % (len(a) - len(chain))
        else:
            where = 'aside'
        rel.append('%s:%s' % (type(e).__name__, where))
    return '%s|%s|%s|%s|%s' % (origin, f['kind'], tag, kind, ','.join(sorted(rel)))


def explore_lazy(schema, text, info, acc):
    """Lazy resources: count what the paths of a pruned tree select; nothing is judged."""
    try:
        errors = list(schema.iter_errors(XMLResource(text, lazy=True)))
    except Exception as e:                                                         # noqa
        acc.out('lazy:exception:' + type(e).__name__)
        return
    root = ET.fromstring(text)
    addr_of = {id(n): a for n, a in addr_table(root)}
    near = [tuple(a) for a in info['near']]
    hit = False
    for err in errors:
        if err.path is None:
            acc.out('lazy:error-without-path')
            continue
        sel, visited, n = walk(root, err.path, err.namespaces)
        acc.st(transitions=n)
        acc.out('lazy:path-selects-one' if len(sel) == 1 else 'lazy:path-selects-%s' % ('none' if not sel else 'many'))
        hit = hit or (len(sel) == 1 and addr_of.get(id(sel[0])) in near)
    acc.out('lazy:doc-with-error-near-damage' if hit else
            ('lazy:doc-without-error-near-damage' if errors else 'lazy:doc-without-errors'))


# --- one case ---------------------------------------------------------------------------------------

def gen_case(sid, node, spelling, f, kinds=KINDS):
    """Applies one fault to one generated document.  Returns dict with verdicts per kind, or a skip reason."""
    spec = D.SPEC[sid]
    root = D.to_tree(node)
    info = D.apply_fault(root, f)
    if info is None:
        return {'skip': 'void'}
    if D.ref_valid(spec, root):
        return {'skip': 'not_a_fault'}
    expect = None
    if info['parent'] is not None:
        group = D.group_of(spec, root, tuple(info['parent']))
        if group is not None:
            expect = D.first_failure(group, [c.tag for c in D.kids(D.node_at(root, tuple(info['parent'])))])
    text = D.serialize(root, spelling)
    schema = gen_schema(sid)
    exempt4 = D.touches_identity(spec, info)
    if spec['identity'] and D.ref_valid(spec, root, identity=False):
        # only the key / keyref is violated: the fault is not local to one node, the element declaring the
        # constraint (the root) and the selected elements are accepted as places of the report
        info['near'] = info['near'] + [[]] + [[i] for i in range(len(D.kids(root)))]
        exempt4 = True
    out = {'text': text, 'info': info, 'expect': expect, 'exempt4': exempt4, 'kinds': {}}
    for kind in kinds:
        droot, errors = observe(schema, text, kind)
        discs, stats = judge(droot, errors, info, True, exempt4, expect)
        out['kinds'][kind] = (discs, stats, droot, errors)
    return out


def gen_key(sid, spelling, node, f, kind, tag):
    if tag.startswith('(1)'):
        # a path defect is named by the node's path in the document layout, not by the fault that made the error
        return 'C19|%s|%s|%s|%s' % (sid, spelling, kind, tag)
    return 'C19|%s|%s|%s|%s|%s|%s' % (sid, spelling, D.serialize(D.to_tree(node), 'prefixed'), fault_name(f), kind, tag)


class Corpus:
    """One corpus pair: library schema, libxml2 reference (or None), pristine lxml tree."""

    def __init__(self, pair):
        self.pair = pair
        with warnings.catch_warnings():
            warnings.simplefilter('ignore')
            self.schema = D.build_pair(pair)
        self.root = LE.parse(pair['xml']).getroot()
        self.ref = None
        if pair['version'] == '1.0':
            try:
                main = self.schema.url
                ref = LE.XMLSchema(LE.parse(main[7:] if main.startswith('file://') else main))
                if ref.validate(LE.fromstring(LE.tostring(self.root))):
                    self.ref = ref
            except Exception:                                                      # noqa
                self.ref = None

    def case(self, f, kinds=KINDS):
        root = copy.deepcopy(self.root)
        info = D.apply_fault(root, f)
        if info is None:
            return {'skip': 'void'}
        text = LE.tostring(root, encoding='unicode')
        ref_invalid = None
        if self.ref is not None:
            try:
                ref_invalid = not self.ref.validate(LE.fromstring(text.encode('utf-8')))
            except Exception:                                                      # noqa
                ref_invalid = None
        exempt4 = bool(self.pair['identity'])
        if exempt4:
            # key / keyref / xs:assert are evaluated on an ancestor of the nodes they read and reported there:
            # every ancestor of the damaged node is accepted as the place of the report
            info['near'] = info['near'] + [info['chain'][:k] for k in range(len(info['chain']))]
        sharp = f['i'] if f['kind'] == 'ins_unknown' and not self.pair['wildcard'] else None
        out = {'text': text, 'info': info, 'exempt4': exempt4, 'kinds': {}, 'ref_invalid': ref_invalid}
        for kind in kinds:
            droot, errors = observe(self.schema, text, kind)
            if ref_invalid is None:
                must = False if errors else 'undecided'
            elif ref_invalid:
                must = True
            else:
                must = None if errors else 'not_a_fault'
            if must in ('undecided', 'not_a_fault'):
                out['kinds'][kind] = ([], (0, 0), droot, errors, must)
                continue
            discs, stats = judge(droot, errors, info, must, exempt4, None, sharp)
            out['kinds'][kind] = (discs, stats, droot, errors, 'contested' if must is None else 'judged')
        return out


def corpus_key(pair, f, kind, tag):
    if tag.startswith('(1)'):
        return 'C19|corpus:%s:%s|%s|%s' % (pair['rel'], pair['version'], kind, tag)
    return 'C19|corpus:%s:%s|%s|%s|%s' % (pair['rel'], pair['version'], fault_name(f), kind, tag)


# --- sharding ---------------------------------------------------------------------------------------

def gen_docs(sid, tier, seed):
    """Documents of the completed bound plus, in quick, the seed-selected slice of the next bound."""
    spec = D.SPEC[sid]
    docs = list(D.instances(spec, NODES[tier]))
    if tier == 'quick' and NEXT > NODES[tier]:
        inner = set(docs)
        for node in D.instances(spec, NEXT):
            if node not in inner and in_slice(D.serialize(D.to_tree(node)), seed, SLICE_K):
                docs.append(node)
    return docs


def shards(tier, seed):
    out = []
    for spec in D.SPECS:
        docs = gen_docs(spec['id'], tier, seed)
        for spelling in spec['spellings']:
            lo, cost = 0, 0
            for i, node in enumerate(docs):
                cost += len(D.enumerate_faults(D.to_tree(node)))
                if cost >= CHUNK_FAULTS or i == len(docs) - 1:
                    out.append(('gen', tier, seed, spec['id'], spelling, lo, i + 1))
                    lo, cost = i + 1, 0
    pairs, skipped = D.corpus_pairs(repo_dir())
    for pair in pairs:
        out.append(('corpus', tier, seed, pair))
    out.append(('corpus-skips', tier, seed, skipped, len(pairs)))
    return out


def run_shard(shard, acc):
    if shard[0] == 'gen':
        run_gen(shard, acc)
    elif shard[0] == 'corpus':
        run_corpus(shard, acc)
    else:
        for why, n in shard[3].items():
            acc.cnt('corpus files skipped: ' + why, n)
        acc.cnt('corpus pairs explored', shard[4])


def run_gen(shard, acc):
    _, tier, seed, sid, spelling, lo, hi = shard
    schema = gen_schema(sid)
    docs = gen_docs(sid, tier, seed)[lo:hi]
    for node in docs:
        pristine = D.serialize(D.to_tree(node), spelling)
        with acc.guard(30):
            proot, perrors = observe(schema, pristine, 'text')
        if perrors:
            acc.cnt('generated document rejected by the library (not judged)')
            continue
        for f in D.enumerate_faults(D.to_tree(node)):
            try:
                with acc.guard(30):
                    res = gen_case(sid, node, spelling, f)
            except CaseTimeout:
                acc.disc(gen_key(sid, spelling, node, f, 'any', 'timeout'), 'validation of the damaged document hangs',
                         {'origin': 'gen', 'sid': sid, 'spelling': spelling, 'node': node, 'fault': f, 'kind': 'text'})
                continue
            if 'skip' in res:
                acc.cnt('%s: %s' % (res['skip'], f['kind']))
                acc.out('%s:%s' % (res['skip'], f['kind']))
                continue
            tag = D.node_at(D.to_tree(node), tuple(f['addr'])).tag
            for kind, (discs, stats, droot, errors) in res['kinds'].items():
                acc.ev()
                acc.st(states=stats[0], transitions=stats[1], traces=1)
                acc.nt(signature(sid, f, tag, kind, droot, errors, res['info']))
                acc.out('%s:%s' % ('disc' if discs else 'located', f['kind']))
                if res['exempt4']:
                    acc.cnt('exempt from (4): identity field touched')
                case = {'origin': 'gen', 'sid': sid, 'spelling': spelling, 'node': node, 'fault': f, 'kind': kind}
                for t, what in discs:
                    acc.disc(gen_key(sid, spelling, node, f, kind, t),
                             '%s: %s on %s -> %s' % (sid, fault_name(f), res['text'], what), case)
                if not discs and kind == 'lxml' and f['kind'] in ('move_child', 'del_attr') and lo == 0:
                    acc.sample({'schema': sid, 'damaged': res['text'], 'fault': fault_name(f),
                                'errors': [[e.path, type(e).__name__, getattr(e, 'index', None)] for e in errors]})
            if tier == 'thorough' or in_slice(res['text'] + fault_name(f), seed, SLICE_K):
                with acc.guard(30):
                    explore_lazy(schema, res['text'], res['info'], acc)
                acc.cnt('lazy documents explored (not judged)')


def run_corpus(shard, acc):
    _, tier, seed, pair = shard
    c = Corpus(pair)
    acc.cnt('corpus pairs with libxml2 reference' if c.ref is not None else 'corpus pairs without libxml2 reference')
    limit = CORPUS_NODE_LIMIT if tier == 'quick' else None
    if D.size(c.root) > CORPUS_NODE_LIMIT:
        acc.cnt('corpus files above 40 nodes')
    text = LE.tostring(c.root, encoding='unicode')
    kinds = []
    for kind in KINDS:
        try:
            proot, perrors = observe(c.schema, text, kind)
        except xmlschema.XMLSchemaException:
            perrors = [None]
        if perrors:
            # e.g. QName values (xsi:type) cannot be resolved on a bare ElementTree element
            acc.cnt('corpus file not valid from source kind %s (kind not explored)' % kind)
        else:
            kinds.append(kind)
    if not kinds:
        return
    for f in D.enumerate_faults(c.root, limit, all_swaps=False):
        with acc.guard(60):
            try:
                res = c.case(f, kinds)
            except xmlschema.XMLSchemaException as e:
                acc.cnt('library exception on a damaged corpus document: ' + type(e).__name__)
                continue
            except CaseTimeout:
                acc.cnt('timeout on a damaged corpus document')
                continue
        if 'skip' in res:
            acc.cnt('%s: %s' % (res['skip'], f['kind']))
            continue
        tag = D.node_at(c.root, tuple(f['addr'])).tag
        for kind, (discs, stats, droot, errors, verdict) in res['kinds'].items():
            acc.ev()
            acc.out('corpus-%s:%s' % ('disc' if discs else verdict, f['kind']))
            if verdict in ('undecided', 'not_a_fault'):
                acc.cnt('corpus %s: %s' % (verdict, f['kind']))
                continue
            acc.st(states=stats[0], transitions=stats[1], traces=1)
            acc.nt(signature(pair['rel'], f, tag, kind, droot, errors, res['info']))
            if verdict == 'contested':
                acc.cnt('corpus contested validity (libxml2 accepts, library rejects): ' + f['kind'])
            if res['exempt4']:
                acc.cnt('exempt from (4): schema has identity constraints')
            case = {'origin': 'corpus', 'pair': {k: pair[k] for k in ('rel', 'version', 'locations', 'xsd_rel',
                                                                      'wildcard', 'identity')},
                    'fault': f, 'kind': kind}
            for t, what in discs:
                acc.disc(corpus_key(pair, f, kind, t), '%s: %s -> %s' % (pair['rel'], fault_name(f), what), case)
            if not discs and kind == 'text' and f['kind'] == 'del_child' and len(f['addr']) == 1:
                acc.sample({'corpus': pair['rel'], 'fault': fault_name(f),
                            'errors': [[e.path, type(e).__name__, getattr(e, 'index', None)] for e in errors]})


# --- replay / evidence ------------------------------------------------------------------------------

def _tuple(node):
    tag, attrs, text, ch = node
    return tag, tuple(tuple(a) for a in attrs), text, tuple(_tuple(c) for c in ch)


def replay(case):
    out = []
    if case['origin'] == 'gen':
        node = _tuple(case['node'])
        res = gen_case(case['sid'], node, case['spelling'], case['fault'], (case['kind'],))
        if 'skip' in res:
            return out
        for t, what in res['kinds'][case['kind']][0]:
            out.append((gen_key(case['sid'], case['spelling'], node, case['fault'], case['kind'], t), what))
        return out
    pair = dict(case['pair'])
    tc = os.path.join(repo_dir(), 'tests', 'test_cases')
    pair['xml'] = os.path.join(tc, pair['rel'])
    pair['xsd'] = os.path.join(tc, pair['xsd_rel']) if pair.get('xsd_rel') else None
    pair['locations'] = [tuple(x) for x in pair['locations']]
    res = Corpus(pair).case(case['fault'], (case['kind'],))
    if 'skip' in res:
        return out
    for t, what in res['kinds'][case['kind']][0]:
        out.append((corpus_key(pair, case['fault'], case['kind'], t), what))
    return out


def bounds(tier, seed):
    return {'size': 'generated: every valid instance with elements + attributes <= %d of %d schemas (unbounded '
                    'particles repeated <= %d times); corpus: every node%s'
                    % (NODES[tier], len(D.SPECS), D.UNBOUNDED_CAP,
                       ' (first %d nodes of larger files)' % CORPUS_NODE_LIMIT if tier == 'quick' else ''),
            'deviations': 'exactly one fault per document; 12 fault kinds x every node x 3 source kinds',
            'next_bound_slice': 'documents with %d < nodes <= %d whose hash = seed mod %d' % (NODES[tier], NEXT, SLICE_K)
            if tier == 'quick' else None,
            'schemas': {s['id']: s['note'] for s in D.SPECS},
            'instances': {s['id']: len(D.instances(s, NODES[tier])) for s in D.SPECS}}
