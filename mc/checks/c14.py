"""C14 - accepted restrictions only ever narrow what instances are valid.

Part A (content models): every base model up to a bound x every single edit of it (mc/gen/edits.py) is
declared as a complexContent restriction.  When the library accepts the schema, exact language inclusion
L(R) <= L(B) is decided on the product of the two reference DFAs (unbounded word length); a shortest word of
L(R) minus L(B) is then replayed against the implementation, and a violation is reported only when the
implementation itself validates that child sequence for the derived type and rejects it for the base type.
"""
import os

from xmlschema import XMLSchema10, XMLSchema11
from xmlschema.validators.exceptions import XMLSchemaParseError, XMLSchemaModelError

from mc.core.runner import in_slice
from mc.gen import models as M
from mc.gen import edits
from mc.ref import regex
from mc.checks.c15 import model_to_json, model_from_json

ID = 'C14'
TITLE = 'Accepted type restrictions only ever narrow what instances are valid'
RULE = ('base content models M(N nodes, occurrence set, D non-default) (+ one wildcard leaf) x every single edit of the base from a '
        'catalogue (occurrence moved to any other range, drop/add/rename particle, keep one choice branch, element<->wildcard, wrap/unwrap, '
        'swap, switch group kind); attribute-use pairs and facet pairs as complete products; distinct = distinct (version, base, derived); '
        'non-trivial = the library accepted the restriction or the reference says the derived language is not included')
ASSUMPTIONS = [
    'inclusion is decided exactly on the product of the reference DFAs over the 9-symbol name partition',
    'a violation needs the implementation itself to accept the witness for the derived type and reject it for the base type, so a C01 discrepancy cannot surface here',
    'the converse (a valid restriction that is refused) is not in the statement; it is only counted',
]
VERSIONS = {'1.0': XMLSchema10, '1.1': XMLSchema11}
PACK = 24
SLICES = 16
SIGMA = list('abchmnxol')


def spaces(tier):
    """(name, N, occs, maxdev, wildcard-leaf variants, sliced).  Every quick space is contained in a thorough space."""
    small = [('M2-O8', 2, M.O8, None, False, False), ('M3-O5-D1', 3, M.O5, 1, False, False),
             ('M3-O5-D1-wild', 3, M.O5, 1, True, False)]
    if tier == 'quick':
        return small + [('M3-O5-D2', 3, M.O5, 2, False, True), ('M4-O5-D1', 4, M.O5, 1, False, True),
                        ('M4-O5-D0-wild', 4, M.O5, 0, True, False)]
    return small + [('M3-O5-D2', 3, M.O5, 2, False, False), ('M4-O5-D1', 4, M.O5, 1, False, False),
                    ('M4-O5-D0-wild', 4, M.O5, 0, True, False), ('M4-O5-D1-wild', 4, M.O5, 1, True, False)]


def shards(tier, seed):
    out = []
    for name, n, occs, maxdev, wildv, sliced in spaces(tier):
        for si, kinds in M.shard_keys(n):
            for version in ('1.0', '1.1'):
                out.append((tier, seed, name, si, kinds, version))
    out.append((tier, seed, 'ATTR', 0, None, '1.0'))
    out.append((tier, seed, 'ATTR', 0, None, '1.1'))
    for k in range(len(seqcho_bases())):
        for version in ('1.0', '1.1'):
            out.append((tier, seed, 'SEQCHO', k, None, version))
    for form in REDEF_FORMS:
        for name, n, occs, maxdev in REDEF_SPACES:
            for si, kinds in M.shard_keys(n):
                for version in ('1.0', '1.1'):
                    out.append((tier, seed, 'REDEF:%s:%s' % (form, name), si, kinds, version))
    for fam in FACETS:
        n = len(facet_sets(fam, 2 if tier == 'thorough' else 1))
        for lo in range(0, n, 8):
            for version in ('1.0', '1.1'):
                out.append((tier, seed, 'FACET:' + fam, lo, None, version))
    only = os.environ.get('C14_ONLY')        # developer aid: restrict a run to one family (never used by MANIFEST commands)
    if only:
        out = [x for x in out if x[2].startswith(only)]
    return out


def pair_decl(i, base, derived):
    return ('<xs:complexType name="B%d">%s</xs:complexType>\n'
            '<xs:complexType name="R%d"><xs:complexContent><xs:restriction base="t:B%d">%s</xs:restriction>'
            '</xs:complexContent></xs:complexType>\n'
            '<xs:element name="b%d" type="t:B%d"/>\n<xs:element name="r%d" type="t:R%d"/>\n'
            % (i, M.render(base, M.leaf_xsd), i, i, M.render(derived, M.leaf_xsd), i, i, i, i))


def build_pairs(version, pairs):
    """Lax packed build.  Returns (schema, status list) with status in accepted / refused / base-refused."""
    text = M.SCHEMA_HEAD + ''.join(pair_decl(i, b, r) for i, (b, r) in enumerate(pairs)) + M.SCHEMA_TAIL
    schema = VERSIONS[version](text, validation='lax')
    out = []
    for i in range(len(pairs)):
        tb, tr = schema.types['B%d' % i], schema.types['R%d' % i]
        if any(c.errors for c in tb.iter_components()):
            out.append('base-refused')
        elif any(c.errors for c in tr.iter_components()):
            out.append('refused')
        else:
            out.append('accepted')
    return schema, out


def judge_pair(schema, i, version, base, derived, status, acc=None):
    """Returns (key, what) or None."""
    db, dr = regex.dfa_of(base, SIGMA), regex.dfa_of(derived, SIGMA)
    w = regex.shortest_not_included(dr, db, SIGMA)
    if acc is not None:
        ps, pt = regex.product_size(dr, db, SIGMA)
        acc.st(states=ps, transitions=pt)
    included = w is None
    label = '%s/%s' % ('included' if included else 'not-included', status)
    if status != 'accepted' or included:
        return None, label
    # the schema is accepted although L(R) is not a subset of L(B): replay the witness on the implementation
    vr = schema.is_valid(M.instance('r%d' % i, w))
    vb = schema.is_valid(M.instance('b%d' % i, w))
    if acc is not None:
        acc.st(traces=2)
    if vr and not vb:
        # an exhibited case is re-built alone and strictly, so that the verdict 'accepted' does not depend on
        # where the lax packed build attaches its errors
        try:
            VERSIONS[version](M.SCHEMA_HEAD + pair_decl(0, base, derived) + M.SCHEMA_TAIL)
        except (XMLSchemaParseError, XMLSchemaModelError):
            return None, label + '/refused-when-built-strictly'
        ws = ''.join(w) or '-'
        return (('C14 %s base=%s derived=%s witness=%s' % (version, M.show(base), M.show(derived), ws),
                 'restriction of %s to %s is accepted, but the child sequence %s is valid for the derived type and invalid for the base type'
                 % (M.show(base), M.show(derived), ws)), label + '/exhibited')
    return None, label + '/not-exhibited(r=%s,b=%s)' % (vr, vb)


def wild_variants(model):
    for i in range(len(M.leaves(model))):
        for w in ('~any', '~tns', '~other', '~notT'):
            yield M.replace_leaf(model, i, lambda o, w=w: M.wild(w, o[1], o[2]))


def seqcho_bases():
    """A sequence holding a required element next to a choice between an element and a wildcard (the shape in which a
    derived ELEMENT particle is compared with a base choice)."""
    out = []
    for w in ('~any', '~tns', '~other'):
        for x in ('a', 'b'):
            for occ in M.O5:
                cho = ('cho', occ[0], occ[1], (M.el('a'), M.wild(w)))
                out.append(('seq', 1, 1, (M.el(x), cho)))
                out.append(('seq', 1, 1, (cho, M.el(x))))
    return out


def run_shard(shard, acc):
    tier, seed, name, si, kinds, version = shard
    if name == 'SEQCHO':
        base = seqcho_bases()[si]
        pairs = [(ename, base, d) for ename, d in edits.single_edits(base)
                 if not (version == '1.0' and '~not' in M.show(d))]
        for lo in range(0, len(pairs), PACK):
            chunk = pairs[lo:lo + PACK]
            with acc.guard(300):
                schema, status = build_pairs(version, [(b, r) for _, b, r in chunk])
            acc.st(traces=len(chunk))
            for i, (ename, b, r) in enumerate(chunk):
                acc.ev()
                d, label = judge_pair(schema, i, version, b, r, status[i], acc)
                acc.out(label)
                if status[i] == 'accepted' or 'not-included' in label:
                    acc.nt('%s %s %s' % (version, M.show(b), M.show(r)))
                if d:
                    acc.disc(d[0], d[1], {'version': version, 'base': model_to_json(b), 'derived': model_to_json(r), 'edit': ename})
        return
    if name == 'ATTR':
        return run_attr_shard(tier, version, acc)
    if name.startswith('REDEF:'):
        return run_redef_shard(shard, acc)
    if name.startswith('FACET:'):
        return run_facet_shard(tier, version, name[6:], si, acc)
    spec = [s for s in spaces(tier) if s[0] == name][0]
    _, n, occs, maxdev, wildv, sliced = spec
    shape = list(M.shapes(n))[si]
    batch = []

    def flush():
        if not batch:
            return
        with acc.guard(300):
            schema, status = build_pairs(version, [(b, r) for _, b, r in batch])
        acc.st(traces=len(batch))
        for i, (ename, b, r) in enumerate(batch):
            acc.ev()
            with acc.guard(60):
                d, label = judge_pair(schema, i, version, b, r, status[i], acc)
            acc.out(label)
            if status[i] == 'accepted' or 'not-included' in label:
                acc.nt('%s %s %s' % (version, M.show(b), M.show(r)))
            if d:
                acc.disc(d[0], d[1], {'version': version, 'base': model_to_json(b), 'derived': model_to_json(r), 'edit': ename})
            elif i == 3 and len(acc.samples) < 2:
                acc.sample({'version': version, 'base': M.show(b), 'derived': M.show(r), 'edit': ename, 'outcome': label})
        del batch[:]

    seen = set()
    for model in M.models_of_shape(shape, occs, maxdev, kinds):
        bases = wild_variants(model) if wildv else [model]
        for base in bases:
            bs = M.show(base)
            if bs in seen:
                continue
            seen.add(bs)
            if sliced and not in_slice(version + bs, seed, SLICES):
                continue
            if version == '1.0' and '~not' in bs:
                continue                      # notNamespace is XSD 1.1 only
            for ename, derived in edits.single_edits(base):
                if version == '1.0' and '~not' in M.show(derived):
                    continue
                batch.append((ename, base, derived))
                if len(batch) >= PACK:
                    flush()
    flush()


# --- redefinitions by restriction ---------------------------------------------------------------------
# The same (base, single edit) pairs, declared through xs:redefine: c.xsd holds the base component, a.xsd redefines
# it by the derived one.  Forms: a complex type restricting itself, a named group replaced by another group (which
# must be a valid restriction of the original when it does not refer to itself), and the two-step chains
# a.xsd -> b.xsd -> c.xsd in which the FIRST step carries the edit and the second repeats the derived component
# unchanged (a valid restriction of itself), so that an unchecked middle step becomes visible.
REDEF_FORMS = ('type', 'group', 'type-chain', 'group-chain')
REDEF_SPACES = [('M2-O8', 2, M.O8, None), ('M3-O5-D1', 3, M.O5, 1)]
REDEF_SLICES = 4          # quick explores M2-O8 completely and one seed-selected quarter of M3-O5-D1
REDEF_HEAD = ('<xs:schema xmlns:xs="http://www.w3.org/2001/XMLSchema" targetNamespace="urn:t" xmlns:t="urn:t" '
              'elementFormDefault="qualified">\n')


def _redef_dir():
    import os
    import tempfile
    d = os.path.join(tempfile.gettempdir(), 'c14_redef_%d' % os.getpid())
    os.makedirs(d, exist_ok=True)
    return d


def _redef_cleanup():
    import shutil
    shutil.rmtree(_redef_dir(), ignore_errors=True)


def redef_texts(form, pairs):
    """{file name: text} for a pack of (base, derived) pairs; the top document is a.xsd, the original c.xsd."""
    grp = form.startswith('group')
    orig, step = [], []
    for i, (b, r) in enumerate(pairs):
        if grp:
            orig.append('<xs:group name="G%d"><xs:sequence>%s</xs:sequence></xs:group>\n'
                        '<xs:element name="e%d"><xs:complexType><xs:group ref="t:G%d"/></xs:complexType></xs:element>\n'
                        % (i, M.render(b, M.leaf_xsd), i, i))
            step.append('<xs:group name="G%d"><xs:sequence>%s</xs:sequence></xs:group>\n' % (i, M.render(r, M.leaf_xsd)))
        else:
            orig.append('<xs:complexType name="T%d">%s</xs:complexType>\n<xs:element name="e%d" type="t:T%d"/>\n'
                        % (i, M.render(b, M.leaf_xsd), i, i))
            step.append('<xs:complexType name="T%d"><xs:complexContent><xs:restriction base="t:T%d">%s</xs:restriction>'
                        '</xs:complexContent></xs:complexType>\n' % (i, i, M.render(r, M.leaf_xsd)))
    files = {'c.xsd': M.SCHEMA_HEAD + ''.join(orig) + M.SCHEMA_TAIL}
    if form.endswith('chain'):
        files['b.xsd'] = REDEF_HEAD + '<xs:redefine schemaLocation="c.xsd">\n' + ''.join(step) + '</xs:redefine>\n' + M.SCHEMA_TAIL
        files['a.xsd'] = REDEF_HEAD + '<xs:redefine schemaLocation="b.xsd">\n' + ''.join(step) + '</xs:redefine>\n' + M.SCHEMA_TAIL
    else:
        files['a.xsd'] = REDEF_HEAD + '<xs:redefine schemaLocation="c.xsd">\n' + ''.join(step) + '</xs:redefine>\n' + M.SCHEMA_TAIL
    return files


def build_redef(version, form, pairs):
    """Lax builds of the redefining document and of the original alone.  Returns (schema, base schema, status list)."""
    import os
    d = _redef_dir()
    for fn, text in redef_texts(form, pairs).items():
        with open(os.path.join(d, fn), 'w') as f:
            f.write(text)
    base_schema = VERSIONS[version](os.path.join(d, 'c.xsd'), validation='lax')
    schema = VERSIONS[version](os.path.join(d, 'a.xsd'), validation='lax')
    grp = form.startswith('group')
    out = []
    for i in range(len(pairs)):
        name = '{urn:t}%s%d' % ('G' if grp else 'T', i)
        ob = (base_schema.maps.groups if grp else base_schema.maps.types)[name]
        if any(c.errors for c in ob.iter_components()) or base_schema.maps.elements['{urn:t}e%d' % i].errors:
            out.append('base-refused')
            continue
        comp = (schema.maps.groups if grp else schema.maps.types)[name]
        bad, steps = False, 0
        while comp is not None and steps < 4:
            if any(c.errors for c in comp.iter_components()):
                bad = True
            comp = getattr(comp, 'redefine', None)
            steps += 1
        out.append('refused' if bad else 'accepted')
    # errors that the library attaches to the schema documents rather than to a component refuse the whole pack
    if any(e for sc in schema.maps.iter_schemas() for e in sc.errors):
        named = [i for i in range(len(pairs)) if out[i] == 'accepted']
        msgs = ' '.join(str(e) for sc in schema.maps.iter_schemas() for e in sc.errors)
        for i in named:
            if ('%s%d' % ('G' if grp else 'T', i)) in msgs:
                out[i] = 'refused'
    return schema, base_schema, out


def redef_strict_accepts(version, form, base, derived):
    import os
    import tempfile
    d = os.path.join(tempfile.gettempdir(), 'c14_redef_strict_%d' % os.getpid())
    os.makedirs(d, exist_ok=True)
    try:
        for fn, text in redef_texts(form, [(base, derived)]).items():
            with open(os.path.join(d, fn), 'w') as f:
                f.write(text)
        try:
            VERSIONS[version](os.path.join(d, 'a.xsd'))
            return True
        except (XMLSchemaParseError, XMLSchemaModelError):
            return False
    finally:
        import shutil
        shutil.rmtree(d, ignore_errors=True)


def judge_redef(schema, base_schema, i, version, form, base, derived, status, acc=None):
    db, dr = regex.dfa_of(base, SIGMA), regex.dfa_of(derived, SIGMA)
    w = regex.shortest_not_included(dr, db, SIGMA)
    if acc is not None:
        ps, pt = regex.product_size(dr, db, SIGMA)
        acc.st(states=ps, transitions=pt)
    included = w is None
    label = 'redefine-%s:%s/%s' % (form, 'included' if included else 'not-included', status)
    if status != 'accepted' or included:
        return None, label
    doc = M.instance('e%d' % i, w)
    vr, vb = schema.is_valid(doc), base_schema.is_valid(doc)
    if acc is not None:
        acc.st(traces=2)
    if vr and not vb:
        # an exhibited case is re-built alone and strictly: a library that refuses it there did report the
        # redefinition, wherever the lax packed build attached the error
        if not redef_strict_accepts(version, form, base, derived):
            return None, label + '/refused-when-built-strictly'
        ws = ''.join(w) or '-'
        return (('C14 %s redefine:%s base=%s derived=%s witness=%s' % (version, form, M.show(base), M.show(derived), ws),
                 'redefinition (%s) of %s by %s is accepted, but the child sequence %s is valid after the redefinition and invalid '
                 'for the original component' % (form, M.show(base), M.show(derived), ws)), label + '/exhibited')
    return None, label + '/not-exhibited(r=%s,b=%s)' % (vr, vb)


def run_redef_shard(shard, acc):
    tier, seed, name, si, kinds, version = shard
    _, form, space = name.split(':')
    _, n, occs, maxdev = [x for x in REDEF_SPACES if x[0] == space][0]
    sliced = tier == 'quick' and space != 'M2-O8'
    shape = list(M.shapes(n))[si]
    batch = []

    def flush():
        if not batch:
            return
        with acc.guard(300):
            schema, base_schema, status = build_redef(version, form, [(b, r) for _, b, r in batch])
        acc.st(traces=len(batch))
        for i, (ename, b, r) in enumerate(batch):
            acc.ev()
            with acc.guard(60):
                d, label = judge_redef(schema, base_schema, i, version, form, b, r, status[i], acc)
            acc.out(label)
            if status[i] == 'accepted' or 'not-included' in label:
                acc.nt('%s redefine:%s %s %s' % (version, form, M.show(b), M.show(r)))
            if d:
                acc.disc(d[0], d[1], {'version': version, 'redefine': form, 'base': model_to_json(b),
                                      'derived': model_to_json(r), 'edit': ename})
        del batch[:]

    for base in M.models_of_shape(shape, occs, maxdev, kinds):
        if sliced and not in_slice(version + form + M.show(base), seed, REDEF_SLICES):
            continue
        for ename, derived in edits.single_edits(base):
            if '~' in M.show(derived):
                continue                       # wildcard edits are covered by the plain restriction spaces
            batch.append((ename, base, derived))
            if len(batch) >= PACK:
                flush()
    flush()
    _redef_cleanup()


# --- attribute uses ----------------------------------------------------------------------------------
BASE_ATTR = [None, 'use="optional"', 'use="required"', 'use="optional" fixed="1"', 'use="required" fixed="1"',
             'use="optional" default="1"', 'use="prohibited"']
DER_ATTR = [None, 'use="optional"', 'use="required"', 'use="prohibited"', 'use="optional" fixed="1"',
            'use="optional" fixed="2"', 'use="required" fixed="2"', 'use="optional" default="2"', 'use="optional" default="1"']
ATTR_TYPES = ['xs:string', 'xs:int', 'xs:short']
ANYATTR = [None, '##any', '##other', '##local']
ATTR_VALUES = [None, '1', '2', '01', '40000', 'x']


def attr_decl(name, spec, typ):
    if spec is None:
        return ''
    return '<xs:attribute name="%s" type="%s" %s/>' % (name, typ, spec)


def any_attr(ns):
    return '' if ns is None else '<xs:anyAttribute namespace="%s" processContents="lax"/>' % ns


def attr_pair_decl(i, b, r):
    (bspec, btyp, bany), (rspec, rtyp, rany) = b, r
    return ('<xs:complexType name="B%d">%s%s</xs:complexType>\n'
            '<xs:complexType name="R%d"><xs:complexContent><xs:restriction base="t:B%d">%s%s</xs:restriction>'
            '</xs:complexContent></xs:complexType>\n'
            '<xs:element name="b%d" type="t:B%d"/>\n<xs:element name="r%d" type="t:R%d"/>\n'
            % (i, attr_decl('p', bspec, btyp), any_attr(bany), i, i, attr_decl('p', rspec, rtyp), any_attr(rany), i, i, i, i))


def attr_instances():
    for v in ATTR_VALUES:
        for extra in ('', ' q="z"', ' o:z="z"'):
            yield ('' if v is None else ' p="%s"' % v) + extra


def ref_attr_valid(spec_typ_any, inst):
    """Tiny reference: is this attribute set valid for (spec, type, anyAttribute)?  None = do not judge."""
    spec, typ, anyns = spec_typ_any
    has_p = ' p="' in inst
    val = inst.split(' p="')[1].split('"')[0] if has_p else None
    extra = 'q' if ' q="' in inst else 'o' if ' o:z="' in inst else None
    if extra == 'q' and anyns not in ('##any', '##local'):
        return False
    if extra == 'o' and anyns not in ('##any', '##other'):
        return False
    declared = spec is not None and 'prohibited' not in spec
    if not has_p:
        return not (declared and 'required' in spec)
    if not declared:
        return anyns in ('##any', '##local')
    if typ in ('xs:int', 'xs:short'):
        if val == 'x':
            return False
        if typ == 'xs:short' and int(val) > 32767:
            return False
    if 'fixed="' in spec:
        fx = spec.split('fixed="')[1].split('"')[0]
        if typ == 'xs:string':
            return val == fx
        return int(val) == int(fx)
    return True


def run_attr_shard(tier, version, acc):
    pairs = []
    for bspec in BASE_ATTR:
        for btyp in ATTR_TYPES[:2]:
            for bany in ANYATTR:
                for rspec in DER_ATTR:
                    for rtyp in ATTR_TYPES:
                        for rany in ANYATTR:
                            if rspec is None and rtyp != 'xs:string':
                                continue
                            pairs.append(((bspec, btyp, bany), (rspec, rtyp, rany)))
    insts = list(attr_instances())
    for lo in range(0, len(pairs), PACK):
        chunk = pairs[lo:lo + PACK]
        text = M.SCHEMA_HEAD + ''.join(attr_pair_decl(i, b, r) for i, (b, r) in enumerate(chunk)) + M.SCHEMA_TAIL
        with acc.guard(300):
            schema = VERSIONS[version](text, validation='lax')
        for i, (b, r) in enumerate(chunk):
            acc.ev()
            tb, tr = schema.types['B%d' % i], schema.types['R%d' % i]
            if any(c.errors for c in tb.iter_components()):
                acc.out('attr/base-refused')
                continue
            if any(c.errors for c in tr.iter_components()):
                acc.out('attr/refused')
                continue
            acc.nt('attr %s %r %r' % (version, b, r))
            bad = []
            # effective derived declaration for the reference: an attribute not mentioned is inherited
            reff = (b[0] if r[0] is None else r[0], b[1] if r[0] is None else r[1], r[2])
            for inst in insts:
                doc_r = '<t:r%d xmlns:t="urn:t" xmlns:o="urn:o"%s/>' % (i, inst)
                doc_b = '<t:b%d xmlns:t="urn:t" xmlns:o="urn:o"%s/>' % (i, inst)
                vr, vb = schema.is_valid(doc_r), schema.is_valid(doc_b)
                acc.st(states=1, transitions=2, traces=2)
                if vr and not vb and ref_attr_valid(reff, inst) is True and ref_attr_valid(b, inst) is False:
                    bad.append(inst.strip())
            acc.out('attr/accepted/' + ('widening' if bad else 'narrowing'))
            if bad:
                key = 'C14 %s attr base=%s|%s|%s derived=%s|%s|%s witness=%s' % (
                    version, b[0], b[1], b[2], r[0], r[1], r[2], ';'.join(bad[:4]))
                acc.disc(key, 'attribute restriction accepted but attribute sets {%s} are valid for the derived type and invalid for the base type'
                         % '; '.join(bad), {'version': version, 'attr': [list(b), list(r)]})
            elif i == 2 and len(acc.samples) < 4:
                acc.sample({'version': version, 'base_attr': b, 'derived_attr': r, 'outcome': 'accepted, narrowing'})


# --- facet pairs ----------------------------------------------------------------------------------
FACETS = {
    'integer': {
        'base': 'xs:integer',
        'facets': [('minInclusive', 0), ('minInclusive', 5), ('maxInclusive', 10), ('maxInclusive', 20), ('minExclusive', 0),
                   ('minExclusive', 5), ('maxExclusive', 10), ('maxExclusive', 20), ('totalDigits', 1), ('totalDigits', 2),
                   ('enumeration', (1, 5)), ('enumeration', (5, 15)), ('pattern', '[0-9]'), ('pattern', '[0-9]+')],
        'values': ['-1', '0', '1', '5', '6', '9', '10', '11', '15', '19', '20', '21', '100'],
    },
    'string': {
        'base': 'xs:string',
        'facets': [('length', 1), ('length', 2), ('minLength', 1), ('minLength', 2), ('maxLength', 1), ('maxLength', 2), ('maxLength', 3),
                   ('enumeration', ('a', 'bb')), ('enumeration', ('bb', 'ccc')), ('pattern', 'a*'), ('pattern', '[a-c]+')],
        'values': ['', 'a', 'b', 'bb', 'aa', 'ccc', 'aaa', 'abcd'],
    },
    'decimal': {
        'base': 'xs:decimal',
        'facets': [('fractionDigits', 0), ('fractionDigits', 1), ('fractionDigits', 2), ('totalDigits', 2), ('totalDigits', 3),
                   ('minInclusive', 1), ('maxInclusive', 10), ('maxExclusive', 10)],
        'values': ['0', '1', '1.5', '1.25', '9.99', '10', '10.0', '10.5', '99', '100', '0.125'],
    },
}


def facet_sets(fam, top):
    from itertools import combinations
    fs = FACETS[fam]['facets']
    out = [(f,) for f in fs]
    if top >= 2:
        out += [c for c in combinations(fs, 2) if c[0][0] != c[1][0] or c[0][0] == 'pattern']
    return out


def facet_xml(fset):
    out = ''
    for name, val in fset:
        if name == 'enumeration':
            out += ''.join('<xs:enumeration value="%s"/>' % v for v in val)
        else:
            out += '<xs:%s value="%s"/>' % (name, val)
    return out


def ref_facets_ok(fam, fset, text):
    """Tiny reference: does the (lexically valid) text satisfy every facet of fset?"""
    import re as _re
    from decimal import Decimal
    for name, val in fset:
        if fam == 'string':
            ln = len(text)
            ok = {'length': ln == val if name == 'length' else True, 'minLength': ln >= val if name == 'minLength' else True,
                  'maxLength': ln <= val if name == 'maxLength' else True}.get(name, True)
            if name == 'enumeration':
                ok = text in val
            if name == 'pattern':
                ok = _re.fullmatch(val, text) is not None
        else:
            d = Decimal(text)
            if name == 'minInclusive':
                ok = d >= val
            elif name == 'maxInclusive':
                ok = d <= val
            elif name == 'minExclusive':
                ok = d > val
            elif name == 'maxExclusive':
                ok = d < val
            elif name == 'totalDigits':
                digits = d.normalize().as_tuple()
                nd = len(digits.digits) + max(digits.exponent, 0) if d != 0 else 1
                ok = nd <= val
            elif name == 'fractionDigits':
                ok = max(-d.normalize().as_tuple().exponent, 0) <= val
            elif name == 'enumeration':
                ok = any(d == v for v in val)
            elif name == 'pattern':
                ok = _re.fullmatch(val, text) is not None
            else:
                ok = True
        if not ok:
            return False
    return True


def fshow(fset):
    return ','.join('%s=%s' % (n, '/'.join(map(str, v)) if isinstance(v, tuple) else v) for n, v in fset)


def facet_pair_decl(i, fam, f1, f2):
    base = FACETS[fam]['base']
    return ('<xs:simpleType name="B%d"><xs:restriction base="%s">%s</xs:restriction></xs:simpleType>\n'
            '<xs:simpleType name="R%d"><xs:restriction base="t:B%d">%s</xs:restriction></xs:simpleType>\n'
            '<xs:element name="b%d" type="t:B%d"/>\n<xs:element name="r%d" type="t:R%d"/>\n'
            % (i, base, facet_xml(f1), i, i, facet_xml(f2), i, i, i, i))


def facet_witnesses(schema, i, fam, f1, f2):
    bad = []
    for v in FACETS[fam]['values']:
        vr = schema.is_valid('<t:r%d xmlns:t="urn:t">%s</t:r%d>' % (i, v, i))
        vb = schema.is_valid('<t:b%d xmlns:t="urn:t">%s</t:b%d>' % (i, v, i))
        if vr and not vb and not ref_facets_ok(fam, f1, v):
            bad.append(v or "''")
    return bad


def run_facet_shard(tier, version, fam, lo, acc):
    top = 2 if tier == 'thorough' else 1
    sets1 = facet_sets(fam, top)
    sets2 = facet_sets(fam, 2)
    for f1 in sets1[lo:lo + 8]:
        pairs = [(f1, f2) for f2 in sets2]
        for c in range(0, len(pairs), PACK):
            chunk = pairs[c:c + PACK]
            text = M.SCHEMA_HEAD + ''.join(facet_pair_decl(i, fam, a, b) for i, (a, b) in enumerate(chunk)) + M.SCHEMA_TAIL
            with acc.guard(300):
                schema = VERSIONS[version](text, validation='lax')
            for i, (a, b) in enumerate(chunk):
                acc.ev()
                tb, tr = schema.types['B%d' % i], schema.types['R%d' % i]
                if any(x.errors for x in tb.iter_components()):
                    acc.out('facet/base-refused')
                    continue
                if any(x.errors for x in tr.iter_components()):
                    acc.out('facet/refused')
                    continue
                acc.nt('facet %s %s %s %s' % (version, fam, fshow(a), fshow(b)))
                bad = facet_witnesses(schema, i, fam, a, b)
                acc.st(states=len(FACETS[fam]['values']), transitions=2 * len(FACETS[fam]['values']), traces=2 * len(FACETS[fam]['values']))
                acc.out('facet/accepted/' + ('widening' if bad else 'narrowing'))
                if bad:
                    acc.disc('C14 %s facet %s base={%s} derived={%s} witness=%s' % (version, fam, fshow(a), fshow(b), ';'.join(bad[:4])),
                             'restriction of %s{%s} with facets {%s} accepted, but values %s are valid for the derived type and invalid for the base type'
                             % (fam, fshow(a), fshow(b), ', '.join(bad)),
                             {'version': version, 'facet': [fam, [list(x) for x in a], [list(x) for x in b]]})
                elif i == 1 and len(acc.samples) < 6:
                    acc.sample({'version': version, 'family': fam, 'base_facets': fshow(a), 'derived_facets': fshow(b), 'outcome': 'accepted, narrowing'})


def replay(case):
    version = case['version']
    if 'facet' in case:
        fam, a, b = case['facet']
        a = tuple((n, tuple(v) if isinstance(v, list) else v) for n, v in a)
        b = tuple((n, tuple(v) if isinstance(v, list) else v) for n, v in b)
        text = M.SCHEMA_HEAD + facet_pair_decl(0, fam, a, b) + M.SCHEMA_TAIL
        schema = VERSIONS[version](text, validation='lax')
        tb, tr = schema.types['B0'], schema.types['R0']
        if any(x.errors for x in tb.iter_components()) or any(x.errors for x in tr.iter_components()):
            return []
        bad = facet_witnesses(schema, 0, fam, a, b)
        if bad:
            return [('C14 %s facet %s base={%s} derived={%s} witness=%s' % (version, fam, fshow(a), fshow(b), ';'.join(bad[:4])),
                     'values %s' % bad)]
        return []
    if 'attr' in case:
        from mc.core.runner import Acc
        b, r = [tuple(x) for x in case['attr']]
        acc = Acc()
        global_pairs = [(b, r)]
        text = M.SCHEMA_HEAD + attr_pair_decl(0, b, r) + M.SCHEMA_TAIL
        schema = VERSIONS[version](text, validation='lax')
        tb, tr = schema.types['B0'], schema.types['R0']
        if any(c.errors for c in tb.iter_components()) or any(c.errors for c in tr.iter_components()):
            return []
        reff = (b[0] if r[0] is None else r[0], b[1] if r[0] is None else r[1], r[2])
        bad = []
        for inst in attr_instances():
            vr = schema.is_valid('<t:r0 xmlns:t="urn:t" xmlns:o="urn:o"%s/>' % inst)
            vb = schema.is_valid('<t:b0 xmlns:t="urn:t" xmlns:o="urn:o"%s/>' % inst)
            if vr and not vb and ref_attr_valid(reff, inst) is True and ref_attr_valid(b, inst) is False:
                bad.append(inst.strip())
        if bad:
            return [('C14 %s attr base=%s|%s|%s derived=%s|%s|%s witness=%s' % (
                version, b[0], b[1], b[2], r[0], r[1], r[2], ';'.join(bad[:4])), 'attribute sets %s' % bad)]
        return []
    base, derived = model_from_json(case['base']), model_from_json(case['derived'])
    if case.get('redefine'):
        try:
            schema, base_schema, status = build_redef(version, case['redefine'], [(base, derived)])
        except (XMLSchemaParseError, XMLSchemaModelError):
            return []
        d, _ = judge_redef(schema, base_schema, 0, version, case['redefine'], base, derived, status[0])
        _redef_cleanup()
        return [d] if d else []
    try:
        schema, status = build_pairs(version, [(base, derived)])
    except (XMLSchemaParseError, XMLSchemaModelError):
        return []
    d, _ = judge_pair(schema, 0, version, base, derived, status[0])
    return [d] if d else []


def bounds(tier, seed):
    return {'spaces': [{'name': s[0], 'nodes': s[1], 'occurrences': len(s[2]), 'max_nondefault': s[3],
                        'wildcard_leaf_variants': s[4], 'seed_slice_1_of_%d' % SLICES: s[5]} for s in spaces(tier)],
            'redefine': 'forms type / group / type-chain / group-chain (xs:redefine over files c.xsd <- [b.xsd <-] a.xsd) x bases M2-O8 and M3-O5-D1 '
                        '(quick: a seed-selected quarter of the latter) x every single edit without wildcards',
            'seqcho': '60 bases sequence(element, choice(element | wildcard)) in both orders x every single edit',
            'edits': 'every single edit of mc/gen/edits.py at every position',
            'facets': 'integer / string / decimal: every base facet set of size 1 (thorough: <= 2) x every derived facet set of size <= 2 x a value catalogue',
            'attributes': '7 base uses x 2 types x 4 wildcards x 8 derived uses x 3 types x 4 wildcards x 18 attribute sets',
            'versions': ['1.0', '1.1']}
